package main

// Lock invariants and lock-set discipline for sync.(RW)Mutex-protected state.
//
//   //@ lock scope.cm self s protects counters, countersSlice
//   //@   inv @label expr(s)
//
// On Lock/RLock of a declared lock the protected fields (and the contents of
// the maps / slices they hold) are havocked – other threads may have changed
// them while the lock was not held – and the invariant is assumed. On Unlock
// the invariant is asserted. Every plain access to a protected field requires
// the lock (read: R or W, write: W) unless the object was allocated by the
// function itself (construction before publication).

import (
	"fmt"
	"go/token"
	"go/types"
	"strings"

	"golang.org/x/tools/go/ssa"
)

type LockSpec struct {
	Pkg, Where string
	TypeName   string // struct type
	LockField  string
	SelfName   string
	Protects   []string
	Inv        []*Clause
	Guar       []*Clause
	Props      []string
}

// header: lock T.f self s protects a, b
func parseLockHeader(rest, pkg, where string) (*LockSpec, error) {
	f := strings.Fields(rest)
	if len(f) < 5 || f[1] != "self" || f[3] != "protects" {
		return nil, fmt.Errorf("%s: lock <Type>.<field> self <name> protects <fields>", where)
	}
	tf := strings.SplitN(f[0], ".", 2)
	if len(tf) != 2 {
		return nil, fmt.Errorf("%s: lock <Type>.<field>", where)
	}
	ls := &LockSpec{Pkg: pkg, Where: where, TypeName: tf[0], LockField: tf[1], SelfName: f[2]}
	for _, x := range strings.Split(strings.Join(f[4:], " "), ",") {
		ls.Protects = append(ls.Protects, strings.TrimSpace(x))
	}
	return ls, nil
}

func (l *LockSpec) parseLine(kw, rest, where string) error {
	switch kw {
	case "inv":
		cl, err := parseLabelled(rest, where)
		if err != nil {
			return err
		}
		l.Inv = append(l.Inv, cl)
	case "guar":
		cl, err := parseLabelled(rest, where)
		if err != nil {
			return err
		}
		l.Guar = append(l.Guar, cl)
	case "property":
		for _, x := range strings.Split(rest, ",") {
			l.Props = append(l.Props, strings.TrimSpace(x))
		}
	default:
		return fmt.Errorf("%s: unexpected clause %q in lock declaration", where, kw)
	}
	return nil
}

type heldLock struct {
	spec *LockSpec
	base PtrV
	mode lockMode
}

type Discipline struct {
	fn *ssa.Function
}

func (e *Engine) newDiscipline(fn *ssa.Function) *Discipline { return &Discipline{fn: fn} }

// structName returns the (package-local) name of a named struct type.
func structName(t types.Type) (pkg, name string) {
	if n, ok := t.(*types.Named); ok && n.Obj().Pkg() != nil {
		return n.Obj().Pkg().Path(), n.Obj().Name()
	}
	return "", ""
}

// lockSpecFor finds the declaration for the lock at location p (a field of a struct).
func (e *Engine) lockSpecFor(p PtrV) (*LockSpec, PtrV, bool) {
	if len(p.Path) == 0 || p.Path[len(p.Path)-1].Field < 0 {
		return nil, PtrV{}, false
	}
	base := p
	base.Path = p.Path[:len(p.Path)-1]
	bt := p.RootT
	if len(base.Path) > 0 {
		bt = base.Path[len(base.Path)-1].T
	}
	base.Elem = bt
	pkg, name := structName(bt)
	ps, ok := e.specs[pkg]
	if !ok {
		return nil, PtrV{}, false
	}
	st, ok := bt.Underlying().(*types.Struct)
	if !ok {
		return nil, PtrV{}, false
	}
	fname := st.Field(p.Path[len(p.Path)-1].Field).Name()
	for _, ls := range ps.Locks {
		if ls.TypeName == name && ls.LockField == fname {
			return ls, base, true
		}
	}
	return nil, PtrV{}, false
}

// protectingLock: is location p a protected field? returns spec and base object.
func (e *Engine) protectingLock(p PtrV) (*LockSpec, PtrV, string, bool) {
	for k := len(p.Path); k >= 1; k-- {
		if p.Path[k-1].Field < 0 {
			continue
		}
		base := p
		base.Path = p.Path[:k-1]
		bt := p.RootT
		if len(base.Path) > 0 {
			bt = base.Path[len(base.Path)-1].T
		}
		base.Elem = bt
		pkg, name := structName(bt)
		ps, ok := e.specs[pkg]
		if !ok {
			continue
		}
		stt, ok := bt.Underlying().(*types.Struct)
		if !ok {
			continue
		}
		fname := stt.Field(p.Path[k-1].Field).Name()
		for _, ls := range ps.Locks {
			if ls.TypeName != name {
				continue
			}
			for _, pf := range ls.Protects {
				if pf == fname {
					return ls, base, fname, true
				}
			}
		}
	}
	return nil, PtrV{}, "", false
}

func (e *Engine) lockKeyOf(st *State, ls *LockSpec, base PtrV) string {
	stt := base.Elem.Underlying().(*types.Struct)
	for i := 0; i < stt.NumFields(); i++ {
		if stt.Field(i).Name() == ls.LockField {
			return e.locString(st, base.field(i, stt.Field(i).Type()))
		}
	}
	return ""
}

func isFreshRoot(p PtrV) bool {
	s := p.Ref.S
	return p.Cell > 0 || strings.HasPrefix(s, "nextRef") || strings.HasPrefix(s, "(+ nextRef") || strings.HasPrefix(s, "|nextRef") || strings.HasPrefix(s, "(+ |nextRef")
}

func (e *Engine) lockEnv(st *State, ls *LockSpec, base PtrV, old *State) *SpecEnv {
	var tp *types.Package
	for _, x := range e.allTypesPkgs {
		if x.Path() == ls.Pkg {
			tp = x
		}
	}
	env := &SpecEnv{e: e, st: st, old: old, vars: map[string]Value{ls.SelfName: base}, pkg: tp, qn: &e.qn}
	return env
}

// havocProtected: other threads may have changed the protected state.
func (e *Engine) havocProtected(st *State, ls *LockSpec, base PtrV) {
	stt := base.Elem.Underlying().(*types.Struct)
	for _, pf := range ls.Protects {
		for i := 0; i < stt.NumFields(); i++ {
			if stt.Field(i).Name() != pf {
				continue
			}
			ft := stt.Field(i).Type()
			fp := base.field(i, ft)
			suffix, ix := e.pathSuffix(fp)
			if len(ix) > 0 {
				panic(unsupported("protected field behind an index"))
			}
			if e.fieldReassigned(base.Elem, pf) {
				for _, ks := range e.leafKeys(fp.rootName(e)+suffix, ft, 0) {
					st.havocHeapSlot(ks, e.rootRef(st, fp))
				}
			}
			v := e.load(st, fp, ft)
			switch u := ft.Underlying().(type) {
			case *types.Map:
				m := v.(Term)
				for _, ks := range append([]KeySort{e.mapDomKS(u), e.mapLenKS(u)}, e.mapValKS(u)...) {
					st.havocHeapSlot(ks, m)
				}
			case *types.Slice:
				sv := v.(SliceV)
				for _, ks := range e.leafKeys(typeKey(arrRootT(u.Elem()))+"[]", u.Elem(), 1) {
					st.havocHeapSlot(ks, sv.Arr)
				}
			}
		}
	}
}

func (d *Discipline) onAcquire(e *Engine, st *State, p PtrV, key string, mode lockMode, pos token.Pos) {
	// re-entrance / upgrade are deadlocks with sync.RWMutex
	if cur, held := st.locks[key]; held {
		what := "lock_not_reentered"
		if cur == lockR && mode == lockW {
			what = "no_read_to_write_upgrade"
		}
		e.oblige(st, "lock", what, TFalse, pos)
	}
	ls, base, ok := e.lockSpecFor(p)
	if !ok {
		return
	}
	e.havocProtected(st, ls, base)
	env := e.lockEnv(st, ls, base, nil)
	for _, c := range ls.Inv {
		st.assume(e.evalSpecBool(env, c.Expr))
	}
	st.labels["acq:"+key] = st.clone()
	st.labels["acq:last"] = st.labels["acq:"+key]
}

func (d *Discipline) onRelease(e *Engine, st *State, p PtrV, key string, mode, held lockMode, pos token.Pos) {
	if held == lockNone {
		e.oblige(st, "lock", "unlock_of_held_lock", TFalse, pos)
		return
	}
	if (mode == lockW) != (held == lockW) {
		e.oblige(st, "lock", "unlock_matches_lock_mode", TFalse, pos)
	}
	ls, base, ok := e.lockSpecFor(p)
	if !ok || held != lockW {
		return
	}
	env := e.lockEnv(st, ls, base, st.labels["acq:"+key])
	for i, c := range ls.Inv {
		e.oblige(st, "lock", fmt.Sprintf("%s.%s.inv_at_release.%s", ls.TypeName, ls.LockField, clauseName(c, i)), e.evalSpecBool(env, c.Expr), pos)
	}
	for i, c := range ls.Guar {
		e.oblige(st, "lock", fmt.Sprintf("%s.%s.guarantee.%s", ls.TypeName, ls.LockField, clauseName(c, i)), e.evalSpecBool(env, c.Expr), pos)
	}
}

func (d *Discipline) onAccess(e *Engine, st *State, p PtrV, write bool, pos token.Pos) {
	if p.Cell > 0 || p.Global != nil {
		return
	}
	ls, base, fname, ok := e.protectingLock(p)
	if !ok || isFreshRoot(base) {
		return
	}
	key := e.lockKeyOf(st, ls, base)
	held := st.locks[key]
	if write {
		if held != lockW {
			e.oblige(st, "lock", fmt.Sprintf("%s.%s.write_lock_held_for_%s", ls.TypeName, ls.LockField, fname), TFalse, pos)
		}
	} else if held == lockNone {
		e.oblige(st, "lock", fmt.Sprintf("%s.%s.lock_held_for_read_of_%s", ls.TypeName, ls.LockField, fname), TFalse, pos)
	}
}

// afterLoad registers the guard of a map / slice loaded from a protected field.
func (d *Discipline) afterLoad(e *Engine, st *State, p PtrV, v Value) {
	if p.Cell > 0 || p.Global != nil {
		return
	}
	ls, base, fname, ok := e.protectingLock(p)
	if !ok || isFreshRoot(base) {
		return
	}
	key := e.lockKeyOf(st, ls, base)
	switch x := v.(type) {
	case Term:
		st.ghost["guard:"+x.S] = T(key+"\x00"+ls.TypeName+"."+ls.LockField+"\x00"+fname, SInt)
	case SliceV:
		st.ghost["guard:"+x.Arr.S] = T(key+"\x00"+ls.TypeName+"."+ls.LockField+"\x00"+fname, SInt)
	}
}

func (d *Discipline) guardOf(st *State, t Term) (key, lock, field string, ok bool) {
	g, has := st.ghost["guard:"+t.S]
	if !has {
		return "", "", "", false
	}
	parts := strings.Split(g.(Term).S, "\x00")
	return parts[0], parts[1], parts[2], true
}

func (d *Discipline) onMapWrite(e *Engine, st *State, m ssa.Value, pos token.Pos) {
	mv, ok := st.env[m].(Term)
	if !ok {
		return
	}
	if key, lock, field, ok := d.guardOf(st, mv); ok && st.locks[key] != lockW {
		e.oblige(st, "lock", fmt.Sprintf("%s.write_lock_held_for_%s", lock, field), TFalse, pos)
	}
}

func (d *Discipline) onExternCall(e *Engine, st *State, m *types.Func, pos token.Pos) {}

// atReturn: the lock set must be what it was at entry (balanced locking).
func (d *Discipline) atReturn(e *Engine, st *State, pos token.Pos) {
	entry := e.cur.entryLocks
	for k, m := range st.locks {
		if entry[k] != m {
			e.oblige(st, "lock", "released_before_return", TFalse, pos)
			return
		}
	}
	for k, m := range entry {
		if st.locks[k] != m {
			e.oblige(st, "lock", "caller_lock_still_held_at_return", TFalse, pos)
			return
		}
	}
}

// specHeld implements held(lockexpr, "R"|"W") in specifications.
func (e *Engine) specHeld(env *SpecEnv, args []*SExpr) Value {
	sfail("held() is only available through `holds` clauses")
	return nil
}

// fieldReassigned: is field f of struct type t ever stored to through an object
// that was not allocated by the storing function itself (i.e. after
// construction)? Fields that are not keep their value while a lock is not held.
func (e *Engine) fieldReassigned(t types.Type, f string) bool {
	key := typeKey(t) + "." + f
	if v, ok := e.reassignCache[key]; ok {
		return v
	}
	res := false
	for fn := range e.allFuncs {
		if fn.Blocks == nil {
			continue
		}
		for _, b := range fn.Blocks {
			for _, ins := range b.Instrs {
				s, ok := ins.(*ssa.Store)
				if !ok {
					continue
				}
				fa, ok := s.Addr.(*ssa.FieldAddr)
				if !ok {
					continue
				}
				bt := fa.X.Type().Underlying().(*types.Pointer).Elem()
				if !types.Identical(bt, t) {
					continue
				}
				if bt.Underlying().(*types.Struct).Field(fa.Field).Name() != f {
					continue
				}
				if _, isAlloc := fa.X.(*ssa.Alloc); isAlloc {
					continue // construction of a fresh object
				}
				if freshLocalPointer(fa.X) {
					continue // x := &T{...}; x.f = ...  (x only ever holds objects allocated here)
				}
				if e.declaredInitOnly(t, f) {
					if c := e.contractOf(fn); c != nil && !c.Trusted && !c.Inline {
						// a store the syntactic test cannot classify, inside a function that
						// is verified: decided path-sensitively there (checkInitOnlyStore:
						// the object must be one the function allocated, or the path infeasible)
						continue
					}
				}
				res = true
			}
		}
	}
	e.reassignCache[key] = res
	return res
}

// declaredInitOnly: is T.f listed in an `initonly` declaration of its package?
func (e *Engine) declaredInitOnly(t types.Type, f string) bool {
	n, ok := t.(*types.Named)
	if !ok || n.Obj().Pkg() == nil {
		return false
	}
	ps := e.specs[n.Obj().Pkg().Path()]
	if ps == nil {
		return false
	}
	want := n.Obj().Name() + "." + f
	for _, tf := range ps.InitOnly {
		if tf == want {
			return true
		}
	}
	return false
}

// checkInitOnlyStore: a store to a declared init-only field that the syntactic
// construction test does not recognise, met while verifying a function: the
// object written must have been allocated by this function (before publication).
// On a path that cannot be taken the obligation holds vacuously.
func (e *Engine) checkInitOnlyStore(st *State, ins *ssa.Store, p PtrV) {
	if e.cur == nil || e.cur.entry == nil {
		return
	}
	fa, ok := ins.Addr.(*ssa.FieldAddr)
	if !ok {
		return
	}
	bt := fa.X.Type().Underlying().(*types.Pointer).Elem()
	stt, ok := bt.Underlying().(*types.Struct)
	if !ok {
		return
	}
	f := stt.Field(fa.Field).Name()
	if !e.declaredInitOnly(bt, f) {
		return
	}
	if _, isAlloc := fa.X.(*ssa.Alloc); isAlloc || freshLocalPointer(fa.X) {
		return
	}
	if p.Cell != 0 || p.Global != nil {
		return
	}
	n := bt.(*types.Named)
	e.oblige(st, "initonly", n.Obj().Name()+"."+f+".stored_only_before_publication", Le(e.cur.entry.nextRefTerm(), p.Ref), ins.Pos())
}

// freshLocalPointer: v is the load of a local variable that is only ever
// assigned objects allocated by this function (or v is such an allocation):
// stores through it initialise an object before it is published.
func freshLocalPointer(v ssa.Value) bool {
	ld, ok := v.(*ssa.UnOp)
	if !ok || ld.Op != token.MUL {
		return false
	}
	if fa, ok := ld.X.(*ssa.FieldAddr); ok {
		// a pointer field of a local struct variable that only ever receives
		// objects allocated here: b := T{p: &x}; b.p.f = ...
		if base, ok := fa.X.(*ssa.Alloc); ok {
			return freshStructField(base, fa.Field, 0)
		}
		return false
	}
	cell, ok := ld.X.(*ssa.Alloc)
	if !ok || cell.Heap && false {
		return false
	}
	n := 0
	for _, ref := range *cell.Referrers() {
		st, ok := ref.(*ssa.Store)
		if !ok || st.Addr != ssa.Value(cell) {
			continue
		}
		n++
		a, isAlloc := st.Val.(*ssa.Alloc)
		if !isAlloc || !a.Heap {
			return false
		}
	}
	return n > 0
}

// freshStructField: every store that can set field f of the local struct
// variable x stores an object allocated by this function - either directly
// (&x.f = new ...) or by copying another local struct with the same property.
func freshStructField(x *ssa.Alloc, f int, depth int) bool {
	if depth > 4 {
		return false
	}
	n := 0
	for _, ref := range *x.Referrers() {
		switch r := ref.(type) {
		case *ssa.FieldAddr:
			if r.X != ssa.Value(x) || r.Field != f {
				continue
			}
			for _, r2 := range *r.Referrers() {
				if st, ok := r2.(*ssa.Store); ok && st.Addr == ssa.Value(r) {
					n++
					if a, ok := st.Val.(*ssa.Alloc); !ok || !a.Heap {
						return false
					}
				}
			}
		case *ssa.Store:
			if r.Addr != ssa.Value(x) {
				continue
			}
			// whole-struct assignment: *x = *y with y another local struct
			ld, ok := r.Val.(*ssa.UnOp)
			if !ok || ld.Op != token.MUL {
				return false
			}
			y, ok := ld.X.(*ssa.Alloc)
			if !ok || !freshStructField(y, f, depth+1) {
				return false
			}
			n++
		}
	}
	return n > 0
}

// acquiredTargets: the heap locations protected by the locks a contract says
// the function acquires; other threads may change them across the call.
func (e *Engine) acquiredTargets(env *SpecEnv, c *Contract) []modTarget {
	var out []modTarget
	for _, a := range c.Acquires {
		base, ok := e.evalSpec(env, a.Lock).(PtrV)
		if !ok {
			sfail("acquires: %s is not a struct location", a.Lock)
		}
		ls := e.lockSpecByField(base.Elem, a.Field)
		if ls == nil {
			sfail("acquires: %s.%s is not a declared lock", a.Lock, a.Field)
		}
		stt := base.Elem.Underlying().(*types.Struct)
		for _, pf := range ls.Protects {
			for i := 0; i < stt.NumFields(); i++ {
				if stt.Field(i).Name() != pf {
					continue
				}
				ft := stt.Field(i).Type()
				fp := base.field(i, ft)
				suffix, _ := e.pathSuffix(fp)
				for _, ks := range e.leafKeys(fp.rootName(e)+suffix, ft, 0) {
					out = append(out, modTarget{ks: ks, ref: e.rootRef(env.st, fp)})
				}
				v := e.load(env.st, fp, ft)
				// when the field itself can be re-pointed by other threads, the
				// object it refers to after the acquire is not known here
				whole := e.fieldReassigned(base.Elem, pf)
				switch u := ft.Underlying().(type) {
				case *types.Map:
					m := v.(Term)
					for _, ks := range append([]KeySort{e.mapDomKS(u), e.mapLenKS(u)}, e.mapValKS(u)...) {
						out = append(out, modTarget{ks: ks, ref: m, whole: whole})
					}
				case *types.Slice:
					sv := v.(SliceV)
					for _, ks := range e.leafKeys(typeKey(arrRootT(u.Elem()))+"[]", u.Elem(), 1) {
						out = append(out, modTarget{ks: ks, ref: sv.Arr, whole: whole})
					}
				}
			}
		}
	}
	return out
}

func (e *Engine) lockSpecByField(t types.Type, field string) *LockSpec {
	pkg, name := structName(t)
	ps, ok := e.specs[pkg]
	if !ok {
		return nil
	}
	for _, ls := range ps.Locks {
		if ls.TypeName == name && ls.LockField == field {
			return ls
		}
	}
	return nil
}

// interfereAcquired: at a call of a function that acquires locks the caller
// does not hold, the protected state may have been changed by other threads.
func (e *Engine) interfereAcquired(st *State, env *SpecEnv, c *Contract) {
	for _, a := range c.Acquires {
		base, ok := e.evalSpec(env, a.Lock).(PtrV)
		if !ok {
			continue
		}
		ls := e.lockSpecByField(base.Elem, a.Field)
		if ls == nil {
			continue
		}
		key := e.lockKeyOf(st, ls, base)
		if st.locks[key] != lockNone {
			// fine when the callee declares that it is entered holding this
			// lock (it releases and re-takes it); otherwise a self-deadlock
			declared := false
			for _, h := range c.Holds {
				if e.holdKey(env, h) == key {
					declared = true
				}
			}
			if !declared {
				e.oblige(st, "lock", "callee_acquires_lock_held_by_caller_"+a.Field, TFalse, 0)
				continue
			}
		}
		e.havocProtected(st, ls, base)
		lenv := e.lockEnv(st, ls, base, nil)
		for _, cl := range ls.Inv {
			st.assume(e.evalSpecBool(lenv, cl.Expr))
		}
	}
}

// ---------------------------------------------------------------------------
// ghost marks: function-local knowledge sets (see MarkRule)

// resetMarksForLoop forgets, at a loop head, the marks that some rule may
// change inside the loop body (transitively through inlined callees).
func (e *Engine) resetMarksForLoop(st *State, fn *ssa.Function, li *loopInfo) {
	affected := map[string]bool{}
	var scan func(blocks map[*ssa.BasicBlock]bool, all []*ssa.BasicBlock, depth int)
	scan = func(blocks map[*ssa.BasicBlock]bool, all []*ssa.BasicBlock, depth int) {
		visit := func(b *ssa.BasicBlock) {
			for _, ins := range b.Instrs {
				ci, ok := ins.(ssa.CallInstruction)
				if !ok {
					continue
				}
				callee := ci.Common().StaticCallee()
				if callee == nil {
					continue
				}
				name := callee.String()
				isLoad := strings.Contains(name, "Load") && (strings.HasPrefix(name, "sync/atomic.") || strings.HasPrefix(name, "(*go.uber.org/atomic."))
				_, rel := e.relName(callee)
				for _, ps := range e.specs {
					for _, r := range ps.MarkRules {
						if (r.Kind == "load" && isLoad) || (r.Kind == "call" && r.Target == rel) {
							affected[r.Mark] = true
						}
					}
				}
				if callee.Blocks != nil && depth < 5 && e.inModule(pkgOf(callee)) {
					if c := e.contractOf(callee); c == nil || c.Inline {
						scan(nil, callee.Blocks, depth+1)
					}
				}
			}
		}
		if blocks != nil {
			for b := range blocks {
				visit(b)
			}
		} else {
			for _, b := range all {
				visit(b)
			}
		}
	}
	scan(li.body, nil, 0)
	for m := range affected {
		st.ghost[m] = e.ctx.Fresh("mark_"+m, ArrSort(SInt, SBool))
	}
}

func (e *Engine) initMarks(st *State, fresh bool) {
	for _, ps := range e.specs {
		for _, m := range ps.Marks {
			if fresh {
				st.ghost[m] = e.ctx.Fresh("mark_"+m, ArrSort(SInt, SBool))
			} else {
				st.ghost[m] = ConstArray(ArrSort(SInt, SBool), TFalse)
			}
		}
	}
}

func (e *Engine) applyMarkRules(st *State, kind, target string, pkg *types.Package, vars map[string]Value) {
	if pkg == nil {
		return
	}
	ps, ok := e.specs[pkg.Path()]
	if !ok {
		return
	}
	for _, r := range ps.MarkRules {
		if r.Kind != kind || r.Target != target {
			continue
		}
		env := &SpecEnv{e: e, st: st, vars: vars, pkg: pkg, qn: &e.qn}
		cur, ok := st.ghost[r.Mark].(Term)
		if !ok {
			panic(specErr{"mark " + r.Mark + " is not declared"})
		}
		idx := e.evalSpecTerm(env, r.Index)
		val := e.evalSpecBool(env, r.Value)
		st.ghost[r.Mark] = e.ctx.Define("mark_"+r.Mark, Store(cur, idx, val))
	}
}

// ---------------------------------------------------------------------------
// init-only and monotone fields: what a blanket havoc ("modifies *") keeps

// stableKeys computes, once, the heap keys of fields declared initonly (kept
// entirely) and monotone (may only switch from false to true).
func (e *Engine) stableKeys() (initOnly map[string]bool, monotone map[string]bool) {
	if e.initOnlyKeys != nil {
		return e.initOnlyKeys, e.monotoneKeys
	}
	e.initOnlyKeys, e.monotoneKeys = map[string]bool{}, map[string]bool{}
	for pk, ps := range e.specs {
		var tp *types.Package
		for _, x := range e.allTypesPkgs {
			if x.Path() == pk {
				tp = x
			}
		}
		resolve := func(tf string) (types.Type, string, types.Type, bool) {
			parts := strings.SplitN(tf, ".", 2)
			if len(parts) != 2 || tp == nil {
				return nil, "", nil, false
			}
			obj := tp.Scope().Lookup(parts[0])
			if obj == nil {
				return nil, "", nil, false
			}
			_, ft, ok := fieldByName(obj.Type(), parts[1])
			return obj.Type(), parts[1], ft, ok
		}
		for _, tf := range ps.InitOnly {
			if strings.HasPrefix(tf, "elements ") {
				// elements of slices of one element type: written only into
				// backing arrays allocated by the writing function itself
				ts := strings.TrimSpace(strings.TrimPrefix(tf, "elements "))
				st, err := func() (t types.Type, err error) {
					defer func() {
						if r := recover(); r != nil {
							err = fmt.Errorf("%v", r)
						}
					}()
					return e.resolveType(tp, ts), nil
				}()
				sl, isSlice := st.(*types.Slice)
				if err != nil || !isSlice {
					e.initOnlyObls = append(e.initOnlyObls, &Obligation{Kind: "initonly", Name: pkgBase(pk) + ".initonly/" + tf, Verdict: "refuted", Solver: "engine", Output: "cannot resolve slice type " + ts})
					continue
				}
				for _, ks := range e.leafKeys(typeKey(arrRootT(sl.Elem()))+"[]", sl.Elem(), 1) {
					e.initOnlyKeys[ks.Key] = true
				}
				ob := &Obligation{Kind: "initonly", Clause: tf, Name: pkgBase(pk) + ".initonly/" + tf, Func: "initonly " + tf, Solver: "engine", Verdict: "discharged",
					Goal: "elements of " + ts + " are stored only into backing arrays allocated by the storing function"}
				if msg := e.elementsReassigned(sl.Elem()); msg != "" {
					ob.Verdict = "refuted"
					ob.Output = msg
				}
				e.initOnlyObls = append(e.initOnlyObls, ob)
				continue
			}
			t, f, ft, ok := resolve(tf)
			if !ok {
				e.engineObls = append(e.engineObls, &Obligation{Kind: "initonly", Name: pkgBase(pk) + ".initonly/" + tf, Verdict: "refuted", Solver: "engine", Output: "cannot resolve " + tf})
				continue
			}
			for _, ks := range e.leafKeys(e.rootKey(t)+"."+f, ft, 0) {
				e.initOnlyKeys[ks.Key] = true
			}
			ob := &Obligation{Kind: "initonly", Clause: tf, Name: pkgBase(pk) + ".initonly/" + tf, Func: "initonly " + tf, Solver: "engine", Verdict: "discharged",
				Goal: "field " + tf + " is stored only through objects allocated by the storing function (before publication)"}
			if e.fieldReassigned(t, f) {
				ob.Verdict = "refuted"
				ob.Output = "a store to " + tf + " through a non-fresh object exists"
			}
			e.initOnlyObls = append(e.initOnlyObls, ob)
		}
		for _, tf := range ps.Monotone {
			t, f, ft, ok := resolve(tf)
			if !ok {
				continue
			}
			for _, ks := range e.leafKeys(e.rootKey(t)+"."+f, ft, 0) {
				e.monotoneKeys[ks.Key] = true
			}
		}
	}
	return e.initOnlyKeys, e.monotoneKeys
}

// havocAll: the effect of "modifies *" – everything except init-only fields;
// monotone flags may only be raised. cond (optional) guards the havoc.
func (e *Engine) havocAll(st *State, cond *Term) {
	initOnly, mono := e.stableKeys()
	var keys []string
	for k := range e.heapKeys {
		keys = append(keys, k)
	}
	sortStrings(keys)
	for _, k := range keys {
		if initOnly[k] {
			continue
		}
		so := e.heapKeys[k]
		a := st.heapArr(k, so)
		fresh := e.ctx.Fresh(heapSym(k)+"@h", so)
		if mono[k] && so.Val.K == KBool {
			r := T("r!q", SInt)
			st.assume(Forall([]Term{r}, Implies(Select(a, r), Select(fresh, r))))
		}
		if cond != nil {
			st.setHeapArr(k, Ite(*cond, fresh, a))
		} else {
			st.heap[k] = fresh
		}
	}
	e.havocGen++
	st.pending = append(st.pending, pendingHavoc{gen: e.havocGen, cond: cond})
}

func sortStrings(s []string) {
	for i := 1; i < len(s); i++ {
		for j := i; j > 0 && s[j] < s[j-1]; j-- {
			s[j], s[j-1] = s[j-1], s[j]
		}
	}
}

// elementsReassigned: is there a store into (or an append onto) a slice with
// this element type whose backing array was not made by the same function?
func (e *Engine) elementsReassigned(elem types.Type) string {
	freshRoot := func(v ssa.Value) bool {
		for depth := 0; depth < 8; depth++ {
			switch x := v.(type) {
			case *ssa.MakeSlice, *ssa.Alloc:
				return true
			case *ssa.Slice:
				v = x.X
			case *ssa.UnOp:
				// load of a field of an object allocated here: &T{...}.f
				if fa, ok := x.X.(*ssa.FieldAddr); ok {
					if _, isAlloc := fa.X.(*ssa.Alloc); isAlloc {
						return true
					}
					if ld, ok := fa.X.(*ssa.UnOp); ok {
						if a, ok := ld.X.(*ssa.Alloc); ok && !a.Heap {
							// local variable holding a pointer: accept when it is only assigned fresh allocations
							fresh := true
							for _, ref := range *a.Referrers() {
								if st, ok := ref.(*ssa.Store); ok && st.Addr == ssa.Value(a) {
									if _, isNew := st.Val.(*ssa.Alloc); !isNew {
										fresh = false
									}
								}
							}
							return fresh
						}
					}
				}
				return false
			default:
				return false
			}
		}
		return false
	}
	for fn := range e.allFuncs {
		if fn.Blocks == nil || !e.inModule(pkgOf(fn)) {
			continue
		}
		for _, b := range fn.Blocks {
			for _, ins := range b.Instrs {
				switch x := ins.(type) {
				case *ssa.Store:
					ia, ok := x.Addr.(*ssa.IndexAddr)
					if !ok {
						continue
					}
					sl, ok := ia.X.Type().Underlying().(*types.Slice)
					if !ok || !types.Identical(sl.Elem(), elem) {
						continue
					}
					if !freshRoot(ia.X) {
						return fmt.Sprintf("%s stores into an element of a %s slice it did not allocate", fn.String(), elem)
					}
				case *ssa.Call:
					if bi, ok := x.Call.Value.(*ssa.Builtin); ok && (bi.Name() == "append" || bi.Name() == "copy") {
						sl, ok := x.Call.Args[0].Type().Underlying().(*types.Slice)
						if ok && types.Identical(sl.Elem(), elem) && !freshRoot(x.Call.Args[0]) {
							return fmt.Sprintf("%s appends/copies into a %s slice it did not allocate", fn.String(), elem)
						}
					}
				}
			}
		}
	}
	return ""
}
