package main

import (
	"fmt"
	"go/constant"
	"go/token"
	"go/types"
	"math"
	"strconv"
	"strings"
)

// SpecEnv is the environment a specification expression is evaluated in.
type SpecEnv struct {
	e      *Engine
	st     *State // current state
	old    *State // entry state (for old())
	vars   map[string]Value
	oldVar map[string]Value
	pkg    *types.Package
	qn     *int
	result Value
	hasRes bool
	local  func(name string) (Value, bool) // named locals of the function (current values)
	depth  int
	bound  map[string]bool // quantified / predicate-bound names (shadow locals)
	boxes  map[string]PtrV // captured variables of a closure: name -> the box holding it
}

func (env *SpecEnv) with(name string, v Value) *SpecEnv {
	n := *env
	n.vars = make(map[string]Value, len(env.vars)+1)
	for k, x := range env.vars {
		n.vars[k] = x
	}
	n.vars[name] = v
	n.bound = make(map[string]bool, len(env.bound)+1)
	for k := range env.bound {
		n.bound[k] = true
	}
	n.bound[name] = true
	return &n
}

func (env *SpecEnv) inOld() *SpecEnv {
	if env.old == nil {
		return env
	}
	n := *env
	// typing facts learned while reading the old state are true facts: record
	// them on the current path
	oldView := *env.old
	sink := env.st
	for sink.assumeTo != nil {
		sink = sink.assumeTo
	}
	if sink != env.old {
		oldView.assumeTo = sink
	}
	n.st = &oldView
	if env.oldVar != nil {
		n.vars = make(map[string]Value, len(env.vars))
		for k, x := range env.vars {
			n.vars[k] = x
		}
		for k, x := range env.oldVar {
			n.vars[k] = x
		}
	}
	n.local = nil
	return &n
}

type specErr struct{ msg string }

func (s specErr) Error() string { return "spec: " + s.msg }

func sfail(format string, a ...interface{}) { panic(specErr{fmt.Sprintf(format, a...)}) }

// TypeV: a type used as a value in spec expressions (dyn(x, T), typeof)
type TypeV struct{ T types.Type }

// TraceV: the ghost call trace
type TraceV struct{}

func (e *Engine) evalSpecBool(env *SpecEnv, x *SExpr) Term {
	v := e.evalSpec(env, x)
	t, ok := v.(Term)
	if !ok || t.Sort.K != KBool {
		sfail("expected a boolean in %s, got %T", x, v)
	}
	return t
}

func (e *Engine) evalSpecTerm(env *SpecEnv, x *SExpr) Term {
	v := e.evalSpec(env, x)
	switch t := v.(type) {
	case Term:
		return t
	case PtrV:
		if t.Cell == 0 && t.Global == nil && len(t.Path) == 0 {
			return t.Ref
		}
	case MapV:
		return t.Ref
	}
	sfail("expected a scalar in %s, got %T", x, v)
	return Term{}
}

// resolveType resolves a Go type expression in the scope of pkg.
func (e *Engine) resolveType(pkg *types.Package, s string) types.Type {
	key := pkg.Path() + "::" + s
	if t, ok := e.typeCache[key]; ok {
		return t
	}
	var lastErr error
	for _, pos := range e.pkgFilePos[pkg.Path()] {
		tv, err := types.Eval(e.prog.Fset, pkg, pos, s)
		if err == nil && tv.IsType() {
			e.typeCache[key] = tv.Type
			return tv.Type
		}
		lastErr = err
	}
	tv, err := types.Eval(e.prog.Fset, pkg, token.NoPos, s)
	if err == nil && tv.IsType() {
		e.typeCache[key] = tv.Type
		return tv.Type
	}
	if err != nil {
		lastErr = err
	}
	sfail("cannot resolve type %q in %s: %v", s, pkg.Path(), lastErr)
	return nil
}

// specArraySort parses the specification-only value types
//
//	set[K]    (Array K Bool)   a mathematical set
//	amap[K]V  (Array K V)      a total function
//	seq[T]    (Array Int T)    a sequence view
//
// K, V, T are Go scalar types.
func (e *Engine) specArraySort(pkg *types.Package, s string) (*Sort, bool) {
	s = strings.TrimSpace(s)
	elem := func(t string) *Sort {
		if so, ok := e.specArraySort(pkg, t); ok {
			return so
		}
		so, ok := e.scalarSort(e.resolveType(pkg, strings.TrimSpace(t)))
		if !ok {
			sfail("unsupported element type %s in specification type", t)
		}
		return so
	}
	switch {
	case strings.HasPrefix(s, "set[") && strings.HasSuffix(s, "]"):
		return ArrSort(elem(s[4:len(s)-1]), SBool), true
	case strings.HasPrefix(s, "seq[") && strings.HasSuffix(s, "]"):
		return ArrSort(SInt, elem(s[4:len(s)-1])), true
	case strings.HasPrefix(s, "amap["):
		j := matchBracket(s, 4)
		if j < 0 {
			sfail("malformed type %s", s)
		}
		return ArrSort(elem(s[5:j]), elem(s[j+1:])), true
	}
	return nil, false
}

func matchBracket(s string, i int) int {
	d := 0
	for j := i; j < len(s); j++ {
		switch s[j] {
		case '[':
			d++
		case ']':
			d--
			if d == 0 {
				return j
			}
		}
	}
	return -1
}

// ixPatterns lists the distinct subterms (ix A v) of text whose second argument
// is exactly the bound variable v and whose first argument does not mention it.
func ixPatterns(text, v string) []string {
	var out []string
	seen := map[string]bool{}
	for i := 0; i+4 < len(text); i++ {
		if !strings.HasPrefix(text[i:], "(ix ") {
			continue
		}
		d := 0
		j := i
		for ; j < len(text); j++ {
			if text[j] == '(' {
				d++
			} else if text[j] == ')' {
				d--
				if d == 0 {
					break
				}
			} else if text[j] == '|' {
				k := strings.IndexByte(text[j+1:], '|')
				if k < 0 {
					break
				}
				j += k + 1
			}
		}
		if j >= len(text) {
			break
		}
		sub := text[i : j+1]
		if strings.HasSuffix(sub, " "+v+")") && !containsSym(sub[:len(sub)-len(v)-2], v) && !seen[sub] {
			seen[sub] = true
			out = append(out, sub)
		}
	}
	return out
}

// boundVar creates the SMT bound variable for a quantifier.
func (e *Engine) boundVar(env *SpecEnv, bv BoundVar) (Value, Term) {
	*env.qn++
	name := fmt.Sprintf("%s!q%d", bv.Name, *env.qn)
	if so, ok := e.specArraySort(env.pkg, bv.Type); ok {
		tm := T(name, so)
		return tm, tm
	}
	if strings.TrimSpace(bv.Type) == "index" {
		// an int that is used as a slice index: instantiation is triggered by
		// the element positions ix(off, v) occurring in the body
		tm := T(name, SInt)
		return tm, tm
	}
	t := e.resolveType(env.pkg, bv.Type)
	if mt, ok := t.Underlying().(*types.Map); ok {
		tm := T(name, SInt)
		return MapV{Ref: tm, T: mt}, tm
	}
	if s, ok := e.scalarSort(t); ok {
		tm := T(name, s)
		return tm, tm
	}
	if pt, ok := t.Underlying().(*types.Pointer); ok {
		tm := T(name, SInt)
		return PtrV{Ref: tm, RootT: pt.Elem(), Elem: pt.Elem()}, tm
	}
	sfail("quantification over type %s is not supported", bv.Type)
	return nil, Term{}
}

func (e *Engine) evalSpec(env *SpecEnv, x *SExpr) Value {
	switch x.Op {
	case "int":
		n, err := strconv.ParseInt(strings.ReplaceAll(x.Name, "_", ""), 0, 64)
		if err != nil {
			u, err2 := strconv.ParseUint(strings.ReplaceAll(x.Name, "_", ""), 0, 64)
			if err2 != nil {
				sfail("bad integer %s", x.Name)
			}
			return UintLit(u)
		}
		return IntLit(n)
	case "float":
		f, err := strconv.ParseFloat(x.Name, 64)
		if err != nil {
			sfail("bad float %s", x.Name)
		}
		return F64Lit(f)
	case "str":
		s, err := strconv.Unquote(x.Name)
		if err != nil {
			sfail("bad string %s", x.Name)
		}
		return e.strLit(env.st, s)
	case "char":
		r, _, _, err := strconv.UnquoteChar(x.Name[1:len(x.Name)-1], '\'')
		if err != nil {
			sfail("bad char %s", x.Name)
		}
		return IntLit(int64(r))
	case "ident":
		return e.specIdent(env, x.Name)
	case "sel":
		return e.specSelect(env, x)
	case "index":
		return e.specIndex(env, x)
	case "call":
		return e.specCall(env, x)
	case "unary":
		switch x.Name {
		case "!":
			return Not(e.evalSpecBool(env, x.Args[0]))
		case "-":
			v := e.evalSpecTerm(env, x.Args[0])
			if v.Sort.K == KF64 {
				if strings.HasPrefix(v.S, "|f64:") {
					var b uint64
					fmt.Sscanf(v.S, "|f64:%x|", &b)
					return F64Lit(-math.Float64frombits(b))
				}
				return app(SF64, "f64.neg", v)
			}
			return Neg(v)
		case "*":
			// type expression *T
			tv, ok := e.evalSpec(env, x.Args[0]).(TypeV)
			if !ok {
				sfail("* applied to a non-type")
			}
			return TypeV{types.NewPointer(tv.T)}
		case "[]":
			tv, ok := e.evalSpec(env, x.Args[0]).(TypeV)
			if !ok {
				sfail("[] applied to a non-type")
			}
			return TypeV{types.NewSlice(tv.T)}
		}
	case "binary":
		return e.specBinary(env, x)
	case "cond":
		c := e.evalSpecBool(env, x.Args[0])
		a := e.evalSpec(env, x.Args[1])
		b := e.evalSpec(env, x.Args[2])
		return e.iteValue(env.st, c, a, b)
	case "forall", "exists":
		ne := env
		var vars []Term
		for _, bv := range x.Vars {
			v, tm := e.boundVar(env, bv)
			ne = ne.with(bv.Name, v)
			vars = append(vars, tm)
		}
		// evaluate the body on a scratch state so that facts assumed while
		// building terms (which may mention bound variables) do not leak
		scratch := ne.st.clone()
		scratch.assumeTo = nil // inside old(...): keep the facts here, they are sorted below
		ne2 := *ne
		ne2.st = scratch
		npc := len(scratch.pc)
		e.ctx.noDefine++
		body := func() Term {
			defer func() { e.ctx.noDefine-- }()
			return e.evalSpecBool(&ne2, x.Args[0])
		}()
		// side facts produced during evaluation: those that mention a bound
		// variable become hypotheses inside the quantifier; the others are
		// global facts and are kept on the real state.
		var inner []Term
		for _, f := range scratch.pc[npc:] {
			mentions := false
			for _, v := range vars {
				if containsSym(f.S, v.S) {
					mentions = true
				}
			}
			if mentions {
				inner = append(inner, f)
			} else {
				env.st.assume(f)
			}
		}
		// typing facts about terms that mention bound variables are dropped:
		// they are true in every intended model, so omitting them is sound in
		// assumed formulas and only makes goals harder.
		_ = inner
		var pats [][]Term
		if len(x.Pats) > 0 {
			e.ctx.noDefine++
			for _, grp := range x.Pats {
				var g []Term
				for _, pe := range grp {
					v := e.evalSpec(&ne2, pe)
					t, ok := v.(Term)
					if !ok {
						sfail("pattern %s is not a term", pe)
					}
					g = append(g, t)
				}
				pats = append(pats, g)
			}
			e.ctx.noDefine--
			if x.Op == "forall" {
				return ForallPat(vars, pats, body)
			}
			return Not(ForallPat(vars, pats, Not(body)))
		}
		for i, bv := range x.Vars {
			if strings.TrimSpace(bv.Type) == "index" {
				for _, pt := range ixPatterns(body.S, vars[i].S) {
					pats = append(pats, []Term{T(pt, SInt)})
				}
			}
		}
		if len(pats) > 0 && len(vars) == 1 {
			// ixmark(x) is true for every x (prelude); mentioning it outside the
			// nested quantifiers makes ix(off, v0) a ground term once v is
			// skolemised, so that inner quantifiers can be instantiated with it
			var marks []Term
			for _, pt := range pats {
				marks = append(marks, T("(ixmark "+pt[0].S+")", SBool))
			}
			if x.Op == "forall" {
				return ForallPat(vars, pats, Implies(And(marks...), body))
			}
			// exists v. B  ==  not forall v. not B (patterns attach to the forall)
			return Not(ForallPat(vars, pats, Not(And(append(marks, body)...))))
		}
		if x.Op == "forall" {
			return Forall(vars, body)
		}
		return Exists(vars, body)
	}
	sfail("cannot evaluate %s", x)
	return nil
}

func containsSym(text, sym string) bool {
	for _, s := range symbolsIn(text) {
		if s == sym {
			return true
		}
	}
	return false
}

func (e *Engine) specIdent(env *SpecEnv, name string) Value {
	if env.local != nil && !env.hasRes {
		if _, isBound := env.bound[name]; !isBound {
			if v, ok := env.local(name); ok {
				return v
			}
		}
	}
	if v, ok := env.vars[name]; ok {
		return v
	}
	switch name {
	case "true":
		return TTrue
	case "false":
		return TFalse
	case "nil":
		return NilV{}
	case "result":
		if !env.hasRes {
			sfail("result used outside of a postcondition")
		}
		return env.result
	case "calls":
		return TraceV{}
	}
	if strings.HasPrefix(name, "result") && env.hasRes {
		if n, err := strconv.Atoi(name[6:]); err == nil {
			tv, ok := env.result.(TupleV)
			if !ok || n >= len(tv) {
				sfail("%s: function has no such result", name)
			}
			return tv[n]
		}
	}
	if env.local != nil {
		if v, ok := env.local(name); ok {
			return v
		}
	}
	if g, ok := env.st.ghost[name]; ok {
		return g
	}
	// package-level objects
	if obj := env.pkg.Scope().Lookup(name); obj != nil {
		return e.specObject(env, obj)
	}
	if obj := types.Universe.Lookup(name); obj != nil {
		if tn, ok := obj.(*types.TypeName); ok {
			return TypeV{tn.Type()}
		}
	}
	// imported package name?
	for _, imp := range env.pkg.Imports() {
		if imp.Name() == name {
			return PkgV{imp}
		}
	}
	if al, ok := e.importAlias[env.pkg.Path()]; ok {
		if p, ok := al[name]; ok {
			return PkgV{p}
		}
	}
	if p, ok := e.extraPkgs[name]; ok {
		return PkgV{p}
	}
	sfail("unknown identifier %s", name)
	return nil
}

type NilV struct{}
type PkgV struct{ P *types.Package }

func (e *Engine) specObject(env *SpecEnv, obj types.Object) Value {
	switch o := obj.(type) {
	case *types.Const:
		return e.constToValue(env.st, o.Val(), o.Type())
	case *types.TypeName:
		return TypeV{o.Type()}
	case *types.Var:
		// package-level variable
		sp := e.prog.Package(o.Pkg())
		if sp == nil {
			sfail("no SSA package for %s", o.Pkg().Path())
		}
		g, ok := sp.Members[o.Name()].(interface{ Type() types.Type })
		_ = g
		if gl := sp.Var(o.Name()); ok && gl != nil {
			p := PtrV{Global: gl, RootT: o.Type(), Elem: o.Type()}
			if v, ok := e.globalConst(env.st, p, o.Type()); ok {
				return v
			}
			return e.load(env.st, p, o.Type())
		}
	case *types.Func:
		sp := e.prog.Package(o.Pkg())
		if sp != nil {
			if f := sp.Func(o.Name()); f != nil {
				return ClosureV{Fn: f}
			}
		}
	}
	sfail("unsupported package-level object %s", obj.Name())
	return nil
}

func (e *Engine) constToValue(st *State, v constant.Value, t types.Type) Value {
	switch v.Kind() {
	case constant.Bool:
		return BoolLit(constant.BoolVal(v))
	case constant.String:
		return e.strLit(st, constant.StringVal(v))
	case constant.Int:
		if isFloat(t) {
			f, _ := constant.Float64Val(v)
			return F64Lit(f)
		}
		return constIntTerm(v)
	case constant.Float:
		if isInteger(t) {
			return constIntTerm(v)
		}
		f, _ := constant.Float64Val(v)
		return F64Lit(f)
	}
	sfail("unsupported constant kind")
	return nil
}

func fieldByName(t types.Type, name string) (idx []int, ft types.Type, ok bool) {
	st, isS := t.Underlying().(*types.Struct)
	if !isS {
		return nil, nil, false
	}
	for i := 0; i < st.NumFields(); i++ {
		if st.Field(i).Name() == name {
			return []int{i}, st.Field(i).Type(), true
		}
	}
	for i := 0; i < st.NumFields(); i++ {
		if st.Field(i).Embedded() {
			ft := st.Field(i).Type()
			if _, isP := ft.Underlying().(*types.Pointer); isP {
				continue
			}
			if sub, t2, ok := fieldByName(ft, name); ok {
				return append([]int{i}, sub...), t2, true
			}
		}
	}
	return nil, nil, false
}

func (e *Engine) specSelect(env *SpecEnv, x *SExpr) Value {
	base := e.evalSpec(env, x.Args[0])
	switch b := base.(type) {
	case PkgV:
		obj := b.P.Scope().Lookup(x.Name)
		if obj == nil {
			sfail("%s.%s not found", b.P.Name(), x.Name)
		}
		return e.specObject(env, obj)
	case TypeV:
		// Type.Method : method reference (used by ev())
		return MethodRef{b.T, x.Name}
	case PtrV:
		idx, ft, ok := fieldByName(b.Elem, x.Name)
		if !ok {
			sfail("type %s has no field %s", b.Elem, x.Name)
		}
		p := b
		cur := b.Elem
		for _, i := range idx {
			f := cur.Underlying().(*types.Struct).Field(i)
			p = p.field(i, f.Type())
			cur = f.Type()
		}
		if _, isStruct := ft.Underlying().(*types.Struct); isStruct {
			if _, op := e.opaqueSort(ft); !op {
				return p // nested struct: keep as location
			}
		}
		return wrapTyped(e.load(env.st, p, ft), ft)
	case StructV:
		idx, ft, ok := fieldByName(b.T, x.Name)
		if !ok {
			sfail("struct %s has no field %s", b.T, x.Name)
		}
		var v Value = b
		for _, i := range idx {
			v = v.(StructV).F[i]
		}
		return wrapTyped(v, ft)
	case SliceV:
		switch x.Name {
		case "arr":
			return b.Arr
		case "off":
			return b.Off
		case "cap":
			return b.Cap
		}
	case IfaceV:
		switch x.Name {
		case "tag":
			return b.Tag
		case "pay":
			return b.Pay
		}
	}
	sfail("cannot select .%s from %T in %s", x.Name, base, x)
	return nil
}

type MethodRef struct {
	T    types.Type
	Name string
}

func (e *Engine) specIndex(env *SpecEnv, x *SExpr) Value {
	base := e.evalSpec(env, x.Args[0])
	switch b := base.(type) {
	case SliceV:
		i := e.evalSpecTerm(env, x.Args[1])
		p := e.elemPtr(b, i)
		if _, isStruct := b.Elem.Underlying().(*types.Struct); isStruct {
			if _, op := e.opaqueSort(b.Elem); !op {
				return p
			}
		}
		return wrapTyped(e.load(env.st, p, b.Elem), b.Elem)
	case TraceV:
		i := e.evalSpecTerm(env, x.Args[1])
		return Select(env.st.calls, i)
	case Term:
		if b.Sort.K == KStr {
			i := e.evalSpecTerm(env, x.Args[1])
			return T("(sbyte "+b.S+" "+i.S+")", SInt)
		}
		if b.Sort.K == KArray {
			i := e.evalSpecTerm(env, x.Args[1])
			return Select(b, i)
		}
		// map reference: need the static type → carried by MapV wrapper
	case MapV:
		k := e.evalSpecTerm(env, x.Args[1])
		return wrapTyped(e.mapGet(env.st, b.T, b.Ref, k), b.T.Elem())
	case PtrV:
		if at, ok := b.Elem.Underlying().(*types.Array); ok {
			i := e.evalSpecTerm(env, x.Args[1])
			p := b.index(i, at.Elem())
			return e.load(env.st, p, at.Elem())
		}
	case ArrayV:
		i := e.evalSpecTerm(env, x.Args[1])
		if n, ok := isIntLit(i); ok && int(n) < len(b.E) {
			return b.E[n]
		}
	}
	sfail("cannot index %T in %s", base, x)
	return nil
}

// MapV wraps a map reference with its type (spec evaluation only).
type MapV struct {
	Ref Term
	T   *types.Map
}

func (e *Engine) specBinary(env *SpecEnv, x *SExpr) Value {
	switch x.Name {
	case "&&":
		return And(e.evalSpecBool(env, x.Args[0]), e.evalSpecBool(env, x.Args[1]))
	case "||":
		return Or(e.evalSpecBool(env, x.Args[0]), e.evalSpecBool(env, x.Args[1]))
	case "==>":
		return Implies(e.evalSpecBool(env, x.Args[0]), e.evalSpecBool(env, x.Args[1]))
	case "<==>":
		return Iff(e.evalSpecBool(env, x.Args[0]), e.evalSpecBool(env, x.Args[1]))
	case "in":
		k := e.evalSpecTerm(env, x.Args[0])
		m := e.evalSpec(env, x.Args[1])
		switch mv := m.(type) {
		case MapV:
			return Select(e.mapDom(env.st, mv.T, mv.Ref), k)
		case Term:
			if mv.Sort.K == KArray && mv.Sort.Val.K == KBool {
				return Select(mv, k)
			}
		}
		sfail("'in' needs a map or a set, got %T", m)
	case "==", "!=":
		a := e.evalSpec(env, x.Args[0])
		b := e.evalSpec(env, x.Args[1])
		eq := e.specEq(env, a, b)
		if x.Name == "!=" {
			return Not(eq)
		}
		return eq
	}
	a := e.evalSpecTerm(env, x.Args[0])
	b := e.evalSpecTerm(env, x.Args[1])
	if a.Sort.K == KF64 || b.Sort.K == KF64 {
		if a.Sort.K == KInt {
			a = i2fTerm(a)
		}
		if b.Sort.K == KInt {
			b = i2fTerm(b)
		}
		switch x.Name {
		case "<":
			return app(SBool, "f64.lt", a, b)
		case "<=":
			return app(SBool, "f64.leq", a, b)
		case ">":
			return app(SBool, "f64.gt", a, b)
		case ">=":
			return app(SBool, "f64.geq", a, b)
		case "+":
			return app(SF64, "f64.add", a, b)
		case "-":
			return app(SF64, "f64.sub", a, b)
		case "*":
			return app(SF64, "f64.mul", a, b)
		case "/":
			return app(SF64, "f64.div", a, b)
		}
	}
	if a.Sort.K == KStr {
		switch x.Name {
		case "+", "++":
			return e.sconcat(env.st, a, b)
		case "<":
			return e.sless(a, b)
		case "<=":
			return Not(e.sless(b, a))
		case ">":
			return e.sless(b, a)
		case ">=":
			return Not(e.sless(a, b))
		}
	}
	switch x.Name {
	case "+":
		return Add(a, b)
	case "-":
		return Sub(a, b)
	case "*":
		return Mul(a, b)
	case "/":
		return T("(div "+a.S+" "+b.S+")", SInt)
	case "%":
		return T("(mod "+a.S+" "+b.S+")", SInt)
	case "<":
		return Lt(a, b)
	case "<=":
		return Le(a, b)
	case ">":
		return Gt(a, b)
	case ">=":
		return Ge(a, b)
	}
	sfail("unsupported operator %s", x.Name)
	return nil
}

// specEq: equality in specifications. Floats compare with fp.eq (Go's ==);
// use same(a,b) for structural identity.
func (e *Engine) specEq(env *SpecEnv, a, b Value) Term {
	if _, ok := a.(NilV); ok {
		a, b = b, a
	}
	if _, ok := b.(NilV); ok {
		switch v := a.(type) {
		case PtrV:
			if v.Cell > 0 || v.Global != nil || len(v.Path) > 0 {
				return TFalse
			}
			return Eq(v.Ref, IntLit(0))
		case IfaceV:
			return Eq(v.Tag, IntLit(0))
		case SliceV:
			return Eq(v.Arr, IntLit(0))
		case MapV:
			return Eq(v.Ref, IntLit(0))
		case Term:
			return Eq(v, IntLit(0))
		case OpaqueFn:
			return Eq(v.ID, IntLit(0))
		case NilV:
			return TTrue
		case ClosureV:
			return TFalse
		}
		sfail("cannot compare %T with nil", a)
	}
	if m, ok := a.(MapV); ok {
		a = m.Ref
	}
	if m, ok := b.(MapV); ok {
		b = m.Ref
	}
	if pa, ok := a.(PtrV); ok {
		if tb, ok := b.(Term); ok {
			return Eq(pa.Ref, tb)
		}
	}
	if pb, ok := b.(PtrV); ok {
		if ta, ok := a.(Term); ok {
			return Eq(ta, pb.Ref)
		}
	}
	if sa, ok := a.(SliceV); ok {
		sb, ok := b.(SliceV)
		if !ok {
			sfail("slice compared with %T", b)
		}
		return And(Eq(sa.Arr, sb.Arr), Eq(sa.Off, sb.Off), Eq(sa.Len, sb.Len))
	}
	if ia, ok := a.(IfaceV); ok {
		ib, ok := b.(IfaceV)
		if !ok {
			sfail("interface compared with %T", b)
		}
		return And(Eq(ia.Tag, ib.Tag), Eq(ia.Pay, ib.Pay))
	}
	if ta, ok := a.(Term); ok {
		if tb, ok := b.(Term); ok {
			if ta.Sort.K == KF64 && tb.Sort.K == KInt {
				tb = i2fTerm(tb)
			}
			if tb.Sort.K == KF64 && ta.Sort.K == KInt {
				ta = i2fTerm(ta)
			}
			if ta.Sort.K == KF64 {
				return app(SBool, "f64.eq", ta, tb)
			}
			if !ta.Sort.Eq(tb.Sort) {
				sfail("comparison of different sorts: %s : %s vs %s : %s", ta.S, ta.Sort, tb.S, tb.Sort)
			}
			return Eq(ta, tb)
		}
	}
	return e.valuesEqual(env.st, a, b, nil)
}

// wrapMap attaches the static map type to a map reference read from a typed place.
func wrapTyped(v Value, t types.Type) Value {
	if mt, ok := t.Underlying().(*types.Map); ok {
		if tm, ok := v.(Term); ok {
			return MapV{Ref: tm, T: mt}
		}
	}
	return v
}
