package main

// Assumed contracts of dependencies (standard library, go.uber.org/atomic, …),
// written as Go code over the symbolic state. Every use is recorded in the
// evidence as a trusted specification.

import (
	"fmt"
	"go/token"
	"go/types"
	"os"
	"strings"

	"golang.org/x/tools/go/ssa"
)

type specFn func(e *Engine, st *State, fn *ssa.Function, args []Value, pos token.Pos) []*State
type ifaceSpecFn func(e *Engine, st *State, recv IfaceV, args []Value, pos token.Pos) []*State
type effectFn func(e *Engine, cc *ssa.CallCommon, inv func(ssa.Value) (Value, bool), whole *[]KeySort, slot func(KeySort, Term))

var builtinSpecs = map[string]specFn{}
var ifaceSpecs = map[string]ifaceSpecFn{}
var builtinEffects = map[string]effectFn{}

func ret(st *State, v Value) []*State {
	st.retVal = v
	return []*State{st}
}

// scalarPtr returns the location of a scalar reached through a pointer value.
func (e *Engine) ptrArg(v Value) PtrV {
	p, ok := v.(PtrV)
	if !ok {
		panic(unsupported(fmt.Sprintf("pointer argument expected, got %T", v)))
	}
	return p
}

func (e *Engine) atomicAccess(st *State, p PtrV, kind string, pos token.Pos) {
	e.checkNil(st, p, pos)
	if e.cur != nil && e.cur.proto != nil {
		e.cur.proto.beforeAtomic(e, st, p, kind, pos)
	}
}

func (e *Engine) atomicDone(st *State, p PtrV, kind string, old, new Term, pos token.Pos) {
	if kind == "load" && len(p.Path) > 0 && p.Path[len(p.Path)-1].Field >= 0 && p.Cell == 0 && p.Global == nil {
		base := p
		base.Path = p.Path[:len(p.Path)-1]
		bt := p.RootT
		if len(base.Path) > 0 {
			bt = base.Path[len(base.Path)-1].T
		}
		base.Elem = bt
		if stt, ok := bt.Underlying().(*types.Struct); ok {
			if n, ok := bt.(*types.Named); ok && n.Obj().Pkg() != nil {
				target := n.Obj().Name() + "." + stt.Field(p.Path[len(p.Path)-1].Field).Name()
				e.applyMarkRules(st, "load", target, n.Obj().Pkg(), map[string]Value{"self": base, "after": new})
			}
		}
	}
	if e.cur != nil && e.cur.proto != nil {
		e.cur.proto.afterAtomic(e, st, p, kind, old, new, pos)
	}
}

func init() {
	// ---- sort ----
	builtinSpecs["sort.Search"] = func(e *Engine, st *State, fn *ssa.Function, args []Value, pos token.Pos) []*State {
		n := args[0].(Term)
		f := args[1]
		// safety of the predicate for every index in range
		callPred := func(s *State, i Term) (Term, *State) {
			cl, ok := f.(ClosureV)
			if !ok {
				panic(unsupported("sort.Search with an opaque predicate"))
			}
			heapBefore := fmt.Sprint(len(s.heap))
			outs := e.callFunction(s, cl.Fn, []Value{i}, cl.Bind, nil, pos)
			if len(outs) != 1 {
				panic(unsupported("sort.Search predicate with branching"))
			}
			_ = heapBefore
			return outs[0].retVal.(Term), outs[0]
		}
		// arbitrary index: obligations inside the predicate are checked for all i
		probe := st.clone()
		i := e.ctx.Fresh("srch_i", SInt)
		probe.assume(And(Le(IntLit(0), i), Lt(i, n)))
		callPred(probe, i)
		r := e.ctx.Fresh("srch_r", SInt)
		st.assume(And(Le(IntLit(0), r), Le(r, n)))
		s1 := st.clone()
		s1.assume(Lt(r, n))
		fr, _ := callPred(s1, r)
		st.assume(Implies(Lt(r, n), guardFacts(s1, st, fr)))
		s2 := st.clone()
		s2.assume(Gt(r, IntLit(0)))
		fr1, _ := callPred(s2, Sub(r, IntLit(1)))
		st.assume(Implies(Gt(r, IntLit(0)), guardFacts(s2, st, Not(fr1))))
		e.note("sort.Search: result r in [0,n], pred(r) if r<n, !pred(r-1) if r>0 (holds for any predicate)")
		return ret(st, r)
	}
	builtinSpecs["sort.Sort"] = func(e *Engine, st *State, fn *ssa.Function, args []Value, pos token.Pos) []*State {
		iv := args[0].(IfaceV)
		t, ok := e.knownTag(st, iv)
		if !ok {
			panic(unsupported("sort.Sort on unknown dynamic type"))
		}
		sl, isSlice := t.Underlying().(*types.Slice)
		if !isSlice {
			panic(unsupported("sort.Sort on non-slice type " + t.String()))
		}
		sv := e.unbox(st, iv, t).(SliceV)
		key := typeKey(arrRootT(sl.Elem())) + "[]"
		leaf, ok := e.scalarSort(sl.Elem())
		if !ok {
			panic(unsupported("sort.Sort on slice of non-scalars"))
		}
		so := arrSortFor(1, leaf)
		e.noteHeapKey(key, so)
		a := st.heapArr(key, so)
		oldInner := Select(a, sv.Arr)
		na := e.ctx.Fresh("sorted", so.Val)
		i, j := T("i!q", SInt), T("j!q", SInt)
		at := func(arr Term, k Term) Term { return Select(arr, IX(sv.Off, k)) }
		// Less of the element type: floats and integers use <
		le := func(x, y Term) Term {
			if leaf.K == KF64 {
				return Not(app(SBool, "f64.lt", y, x))
			}
			return Le(x, y)
		}
		st.assume(Forall([]Term{i, j}, Implies(And(Le(IntLit(0), i), Le(i, j), Lt(j, sv.Len)), le(at(na, i), at(na, j)))))
		// permutation: a bijection p on [0,len)
		perm := e.ctx.Fresh("perm", ArrSort(SInt, SInt))
		inv := e.ctx.Fresh("perminv", ArrSort(SInt, SInt))
		inRange := And(Le(IntLit(0), i), Lt(i, sv.Len))
		st.assume(ForallPat([]Term{i}, [][]Term{{Select(perm, i)}, {at(na, i)}}, Implies(inRange,
			And(Le(IntLit(0), Select(perm, i)), Lt(Select(perm, i), sv.Len), Eq(Select(inv, Select(perm, i)), i),
				Eq(at(na, i), at(oldInner, Select(perm, i)))))))
		st.assume(ForallPat([]Term{i}, [][]Term{{Select(inv, i)}, {at(oldInner, i)}}, Implies(inRange,
			And(Le(IntLit(0), Select(inv, i)), Lt(Select(inv, i), sv.Len), Eq(Select(perm, Select(inv, i)), i),
				Eq(at(oldInner, i), at(na, Select(inv, i)))))))
		st.assume(Forall([]Term{i}, Implies(Or(Lt(i, sv.Off), Ge(i, Add(sv.Off, sv.Len))), Eq(Select(na, i), Select(oldInner, i)))))
		st.setHeapArr(key, Store(a, sv.Arr, na))
		st.ghost["sort.perm"] = perm
		e.note("sort.Sort: result sorted by Less and a permutation of the input; touches only its argument")
		return ret(st, nil)
	}
	builtinEffects["sort.Sort"] = func(e *Engine, cc *ssa.CallCommon, inv func(ssa.Value) (Value, bool), whole *[]KeySort, slot func(KeySort, Term)) {
		panic(unsupported("sort.Sort inside a loop"))
	}

	// ---- sync/atomic ----
	for _, ty := range []string{"Int64", "Uint64", "Int32", "Uint32"} {
		ty := ty
		wrapOf := map[string]string{"Int64": "wrap64", "Uint64": "wrapu64", "Int32": "wrap32", "Uint32": "wrapu32"}[ty]
		builtinSpecs["sync/atomic.Load"+ty] = func(e *Engine, st *State, fn *ssa.Function, args []Value, pos token.Pos) []*State {
			p := e.ptrArg(args[0])
			e.atomicAccess(st, p, "load", pos)
			v := e.load(st, p, p.Elem).(Term)
			e.atomicDone(st, p, "load", v, v, pos)
			return ret(st, v)
		}
		builtinSpecs["sync/atomic.Store"+ty] = func(e *Engine, st *State, fn *ssa.Function, args []Value, pos token.Pos) []*State {
			p := e.ptrArg(args[0])
			e.atomicAccess(st, p, "store", pos)
			old := e.load(st, p, p.Elem).(Term)
			e.store(st, p, p.Elem, args[1])
			e.atomicDone(st, p, "store", old, args[1].(Term), pos)
			return ret(st, nil)
		}
		builtinSpecs["sync/atomic.Add"+ty] = func(e *Engine, st *State, fn *ssa.Function, args []Value, pos token.Pos) []*State {
			p := e.ptrArg(args[0])
			e.atomicAccess(st, p, "add", pos)
			old := e.load(st, p, p.Elem).(Term)
			nv := e.ctx.Define("atm", T("("+wrapOf+" "+Add(old, args[1].(Term)).S+")", SInt))
			e.store(st, p, p.Elem, nv)
			e.atomicDone(st, p, "add", old, nv, pos)
			return ret(st, nv)
		}
		builtinSpecs["sync/atomic.Swap"+ty] = func(e *Engine, st *State, fn *ssa.Function, args []Value, pos token.Pos) []*State {
			p := e.ptrArg(args[0])
			e.atomicAccess(st, p, "swap", pos)
			old := e.load(st, p, p.Elem).(Term)
			e.store(st, p, p.Elem, args[1])
			e.atomicDone(st, p, "swap", old, args[1].(Term), pos)
			return ret(st, old)
		}
		builtinSpecs["sync/atomic.CompareAndSwap"+ty] = func(e *Engine, st *State, fn *ssa.Function, args []Value, pos token.Pos) []*State {
			p := e.ptrArg(args[0])
			e.atomicAccess(st, p, "cas", pos)
			old := e.load(st, p, p.Elem).(Term)
			ok := e.ctx.Define("cas", Eq(old, args[1].(Term)))
			nv := e.ctx.Define("casv", Ite(ok, args[2].(Term), old))
			e.store(st, p, p.Elem, nv)
			e.atomicDone(st, p, "cas", old, nv, pos)
			return ret(st, ok)
		}
		for _, op := range []string{"Load", "Store", "Add", "Swap", "CompareAndSwap"} {
			builtinEffects["sync/atomic."+op+ty] = atomicEffect(op != "Load")
		}
	}

	// ---- go.uber.org/atomic ----
	for _, ty := range []string{"Bool", "Int64", "Uint64", "Int32", "Uint32"} {
		ty := ty
		pre := "(*go.uber.org/atomic." + ty + ")."
		wrapOf := map[string]string{"Int64": "wrap64", "Uint64": "wrapu64", "Int32": "wrap32", "Uint32": "wrapu32", "Bool": ""}[ty]
		builtinSpecs[pre+"Load"] = func(e *Engine, st *State, fn *ssa.Function, args []Value, pos token.Pos) []*State {
			p := e.ptrArg(args[0])
			e.atomicAccess(st, p, "load", pos)
			v := e.load(st, p, p.Elem).(Term)
			e.atomicDone(st, p, "load", v, v, pos)
			return ret(st, v)
		}
		builtinSpecs[pre+"Store"] = func(e *Engine, st *State, fn *ssa.Function, args []Value, pos token.Pos) []*State {
			p := e.ptrArg(args[0])
			e.atomicAccess(st, p, "store", pos)
			old := e.load(st, p, p.Elem).(Term)
			e.store(st, p, p.Elem, args[1])
			e.atomicDone(st, p, "store", old, args[1].(Term), pos)
			return ret(st, nil)
		}
		builtinSpecs[pre+"Swap"] = func(e *Engine, st *State, fn *ssa.Function, args []Value, pos token.Pos) []*State {
			p := e.ptrArg(args[0])
			e.atomicAccess(st, p, "swap", pos)
			old := e.load(st, p, p.Elem).(Term)
			e.store(st, p, p.Elem, args[1])
			e.atomicDone(st, p, "swap", old, args[1].(Term), pos)
			return ret(st, old)
		}
		cas := func(e *Engine, st *State, fn *ssa.Function, args []Value, pos token.Pos) []*State {
			p := e.ptrArg(args[0])
			e.atomicAccess(st, p, "cas", pos)
			old := e.load(st, p, p.Elem).(Term)
			ok := e.ctx.Define("cas", Eq(old, args[1].(Term)))
			nv := e.ctx.Define("casv", Ite(ok, args[2].(Term), old))
			e.store(st, p, p.Elem, nv)
			e.atomicDone(st, p, "cas", old, nv, pos)
			return ret(st, ok)
		}
		builtinSpecs[pre+"CAS"] = cas
		builtinSpecs[pre+"CompareAndSwap"] = cas
		for _, op := range []string{"Load", "Store", "Swap", "CAS", "CompareAndSwap"} {
			builtinEffects[pre+op] = atomicEffect(op != "Load")
		}
		if ty != "Bool" {
			addk := func(delta func(args []Value) Term) specFn {
				return func(e *Engine, st *State, fn *ssa.Function, args []Value, pos token.Pos) []*State {
					p := e.ptrArg(args[0])
					e.atomicAccess(st, p, "add", pos)
					old := e.load(st, p, p.Elem).(Term)
					nv := e.ctx.Define("atm", T("("+wrapOf+" "+Add(old, delta(args)).S+")", SInt))
					e.store(st, p, p.Elem, nv)
					e.atomicDone(st, p, "add", old, nv, pos)
					return ret(st, nv)
				}
			}
			builtinSpecs[pre+"Inc"] = addk(func([]Value) Term { return IntLit(1) })
			builtinSpecs[pre+"Dec"] = addk(func([]Value) Term { return IntLit(-1) })
			builtinSpecs[pre+"Add"] = addk(func(a []Value) Term { return a[1].(Term) })
			builtinSpecs[pre+"Sub"] = addk(func(a []Value) Term { return Neg(a[1].(Term)) })
			for _, op := range []string{"Inc", "Dec", "Add", "Sub"} {
				builtinEffects[pre+op] = atomicEffect(true)
			}
		}
	}

	// ---- math ----
	builtinSpecs["math.Float64bits"] = func(e *Engine, st *State, fn *ssa.Function, args []Value, pos token.Pos) []*State {
		return ret(st, e.f64bits(st, args[0].(Term)))
	}
	builtinSpecs["math.Float64frombits"] = func(e *Engine, st *State, fn *ssa.Function, args []Value, pos token.Pos) []*State {
		return ret(st, e.f64frombits(st, args[0].(Term)))
	}
	builtinSpecs["math.Max"] = func(e *Engine, st *State, fn *ssa.Function, args []Value, pos token.Pos) []*State {
		f := e.ctx.Func("math.Max", []*Sort{SF64, SF64}, SF64)
		return ret(st, T("("+f+" "+args[0].(Term).S+" "+args[1].(Term).S+")", SF64))
	}

	// ---- sync: locks (mutual exclusion assumed; lock set tracked) ----
	for _, name := range []string{"(*sync.RWMutex).Lock", "(*sync.RWMutex).Unlock", "(*sync.RWMutex).RLock", "(*sync.RWMutex).RUnlock", "(*sync.Mutex).Lock", "(*sync.Mutex).Unlock"} {
		name := name
		op := name[strings.LastIndex(name, ".")+1:]
		builtinSpecs[name] = func(e *Engine, st *State, fn *ssa.Function, args []Value, pos token.Pos) []*State {
			p := e.ptrArg(args[0])
			e.checkNil(st, p, pos)
			e.lockOp(st, p, op, pos)
			return ret(st, nil)
		}
		builtinEffects[name] = func(e *Engine, cc *ssa.CallCommon, inv func(ssa.Value) (Value, bool), whole *[]KeySort, slot func(KeySort, Term)) {
		}
	}
	builtinSpecs["(*sync.WaitGroup).Add"] = func(e *Engine, st *State, fn *ssa.Function, args []Value, pos token.Pos) []*State {
		e.wgEvent(st, "wg.Add", e.ptrArg(args[0]))
		return ret(st, nil)
	}
	builtinSpecs["(*sync.WaitGroup).Done"] = func(e *Engine, st *State, fn *ssa.Function, args []Value, pos token.Pos) []*State {
		e.wgEvent(st, "wg.Done", e.ptrArg(args[0]))
		return ret(st, nil)
	}
	builtinSpecs["(*sync.WaitGroup).Wait"] = func(e *Engine, st *State, fn *ssa.Function, args []Value, pos token.Pos) []*State {
		e.wgEvent(st, "wg.Wait", e.ptrArg(args[0]))
		return ret(st, nil)
	}
	// ---- hash/maphash: a deterministic function of seed and bytes written ----
	builtinSpecs["(*hash/maphash.Hash).SetSeed"] = func(e *Engine, st *State, fn *ssa.Function, args []Value, pos token.Pos) []*State {
		p := e.ptrArg(args[0])
		e.store(st, p, p.Elem, args[1])
		return ret(st, nil)
	}
	builtinSpecs["(*hash/maphash.Hash).Write"] = func(e *Engine, st *State, fn *ssa.Function, args []Value, pos token.Pos) []*State {
		p := e.ptrArg(args[0])
		cur := e.load(st, p, p.Elem).(Term)
		b := args[1].(SliceV)
		f := e.ctx.Func("maphash.mix", []*Sort{SInt, SStr}, SInt)
		e.store(st, p, p.Elem, T("("+f+" "+cur.S+" "+e.bytesToStr(st, b).S+")", SInt))
		return ret(st, TupleV{b.Len, IfaceV{Tag: IntLit(0), Pay: IntLit(0)}})
	}
	builtinSpecs["(*hash/maphash.Hash).Sum64"] = func(e *Engine, st *State, fn *ssa.Function, args []Value, pos token.Pos) []*State {
		p := e.ptrArg(args[0])
		cur := e.load(st, p, p.Elem).(Term)
		f := e.ctx.Func("maphash.sum", []*Sort{SInt}, SInt)
		r := T("("+f+" "+cur.S+")", SInt)
		st.assume(And(Le(IntLit(0), r), Le(r, T("18446744073709551615", SInt))))
		return ret(st, r)
	}
	builtinSpecs["hash/maphash.MakeSeed"] = func(e *Engine, st *State, fn *ssa.Function, args []Value, pos token.Pos) []*State {
		return ret(st, e.ctx.Fresh("seed", SInt))
	}
	builtinSpecs["time.NewTicker"] = func(e *Engine, st *State, fn *ssa.Function, args []Value, pos token.Pos) []*State {
		r := st.alloc()
		t := types.NewPointer(fn.Signature.Results().At(0).Type().(*types.Pointer).Elem())
		_ = t
		return ret(st, PtrV{Ref: r, RootT: fn.Signature.Results().At(0).Type().(*types.Pointer).Elem(), Elem: fn.Signature.Results().At(0).Type().(*types.Pointer).Elem()})
	}
	builtinSpecs["(*time.Ticker).Stop"] = func(e *Engine, st *State, fn *ssa.Function, args []Value, pos token.Pos) []*State {
		return ret(st, nil)
	}
	// Get: some value of the dynamic type that the pool's New function returns
	// (either New() or an earlier Put); its contents are arbitrary.  That the
	// pool only holds values of that type is an assumption about the Put sites.
	builtinSpecs["(*sync.Pool).Get"] = func(e *Engine, st *State, fn *ssa.Function, args []Value, pos token.Pos) []*State {
		pp, ok := args[0].(PtrV)
		if !ok {
			panic(unsupported("sync.Pool.Get on unknown pool"))
		}
		var dyn types.Type
		pt := pp.Elem.Underlying().(*types.Struct)
		for i := 0; i < pt.NumFields(); i++ {
			if pt.Field(i).Name() != "New" {
				continue
			}
			fv := e.load(st, pp.field(i, pt.Field(i).Type()), pt.Field(i).Type())
			if cv, ok := fv.(ClosureV); ok {
				for _, b := range cv.Fn.Blocks {
					for _, ins := range b.Instrs {
						if r, ok := ins.(*ssa.Return); ok && len(r.Results) == 1 {
							if mi, ok := r.Results[0].(*ssa.MakeInterface); ok {
								dyn = mi.X.Type()
							}
						}
					}
				}
			}
		}
		if dyn == nil && e.cur != nil {
			// statically: the only function stored into a sync.Pool's New field in
			// the function under verification
			var cands []*ssa.Function
			for _, b := range e.cur.fn.Blocks {
				for _, ins := range b.Instrs {
					sto, ok := ins.(*ssa.Store)
					if !ok {
						continue
					}
					fa, ok := sto.Addr.(*ssa.FieldAddr)
					if !ok {
						continue
					}
					stt, ok := fa.X.Type().(*types.Pointer).Elem().Underlying().(*types.Struct)
					if !ok || stt.Field(fa.Field).Name() != "New" || !strings.HasSuffix(fa.X.Type().String(), "sync.Pool") {
						continue
					}
					switch v := sto.Val.(type) {
					case *ssa.Function:
						cands = append(cands, v)
					case *ssa.MakeClosure:
						cands = append(cands, v.Fn.(*ssa.Function))
					case *ssa.ChangeType:
						if f, ok := v.X.(*ssa.Function); ok {
							cands = append(cands, f)
						}
					}
				}
			}
			if os.Getenv("GOVC_DEBUG") != "" {
				fmt.Fprintln(os.Stderr, "pool.Get: candidates", len(cands), e.cur.fn)
			}
			if len(cands) == 1 {
				// every value the function can return is boxed by a MakeInterface
				// (naive form stores it into the result cell first)
				var dts []types.Type
				for _, b := range cands[0].Blocks {
					for _, ins := range b.Instrs {
						if mi, ok := ins.(*ssa.MakeInterface); ok {
							dts = append(dts, mi.X.Type())
						}
					}
				}
				if len(dts) == 1 {
					dyn = dts[0]
				}
			}
		}
		if dyn == nil {
			panic(unsupported("sync.Pool.Get: the pool's New function is not known here"))
		}
		e.trustedUsed["sync.Pool.Get returns a value of the dynamic type of the pool's New result with arbitrary contents (pool discipline at the Put sites assumed)"] = true
		st.havocAlloc()
		v := e.freshValue(st, "pooled", dyn)
		return ret(st, e.makeInterface(st, dyn, v))
	}
	builtinSpecs["(*sync.Pool).Put"] = func(e *Engine, st *State, fn *ssa.Function, args []Value, pos token.Pos) []*State {
		iv := args[1].(IfaceV)
		e.eventNamed(st, "pool.Put", []Term{iv.Tag, iv.Pay})
		return ret(st, nil)
	}
	builtinSpecs["runtime.Gosched"] = func(e *Engine, st *State, fn *ssa.Function, args []Value, pos token.Pos) []*State {
		return ret(st, nil)
	}
	builtinSpecs["runtime.GOMAXPROCS"] = func(e *Engine, st *State, fn *ssa.Function, args []Value, pos token.Pos) []*State {
		r := e.ctx.Fresh("gomaxprocs", SInt)
		st.assume(And(Le(IntLit(1), r), Le(r, IntLit(1<<20))))
		return ret(st, r)
	}

	// ---- fmt / strconv / time: deterministic uninterpreted functions ----
	builtinSpecs["strconv.Itoa"] = func(e *Engine, st *State, fn *ssa.Function, args []Value, pos token.Pos) []*State {
		f := e.ctx.Func("strconv.Itoa", []*Sort{SInt}, SStr)
		r := T("("+f+" "+args[0].(Term).S+")", SStr)
		e.strFacts(st, r)
		return ret(st, r)
	}
	builtinSpecs["(time.Duration).String"] = func(e *Engine, st *State, fn *ssa.Function, args []Value, pos token.Pos) []*State {
		f := e.ctx.Func("Duration.String", []*Sort{SInt}, SStr)
		r := T("("+f+" "+args[0].(Term).S+")", SStr)
		e.strFacts(st, r)
		return ret(st, r)
	}
	builtinSpecs["fmt.Sprintf"] = func(e *Engine, st *State, fn *ssa.Function, args []Value, pos token.Pos) []*State {
		// Sprintf(format, args...): a deterministic function of the format and
		// of the (dynamic type, value) of each argument. The variadic slice has
		// a literal length at every call site in this code base.
		format := args[0].(Term)
		va := args[1].(SliceV)
		n, ok := isIntLit(va.Len)
		if !ok {
			panic(unsupported("fmt.Sprintf with a non-literal argument list"))
		}
		flat := []Term{format}
		sorts := []*Sort{SStr}
		for k := int64(0); k < n; k++ {
			iv := e.load(st, e.elemPtr(va, IntLit(k)), va.Elem).(IfaceV)
			pay := e.ifacePayloadTerms(st, iv)
			for _, t := range pay {
				flat = append(flat, t)
				sorts = append(sorts, t.Sort)
			}
		}
		var sk []string
		for _, s := range sorts {
			sk = append(sk, s.String())
		}
		f := e.ctx.Func("fmt.Sprintf/"+strings.Join(sk, ","), sorts, SStr)
		var sb strings.Builder
		sb.WriteString("(" + f)
		for _, t := range flat {
			sb.WriteString(" " + t.S)
		}
		sb.WriteString(")")
		r := e.ctx.Define("spf", T(sb.String(), SStr))
		e.strFacts(st, r)
		e.note("fmt.Sprintf modelled as a deterministic uninterpreted function of format and argument values")
		return ret(st, r)
	}
	builtinSpecs["errors.New"] = func(e *Engine, st *State, fn *ssa.Function, args []Value, pos token.Pos) []*State {
		r := st.alloc()
		return ret(st, IfaceV{Tag: e.typeTag(types.NewPointer(types.Universe.Lookup("error").Type())), Pay: r})
	}
	builtinSpecs["fmt.Errorf"] = func(e *Engine, st *State, fn *ssa.Function, args []Value, pos token.Pos) []*State {
		r := st.alloc()
		return ret(st, IfaceV{Tag: e.typeTag(types.NewPointer(types.Universe.Lookup("error").Type())), Pay: r})
	}
	builtinSpecs["time.Now"] = func(e *Engine, st *State, fn *ssa.Function, args []Value, pos token.Pos) []*State {
		t := e.ctx.Fresh("now", SInt)
		e.eventRes(st, "time.Now", nil, []Term{t})
		return ret(st, t)
	}
	builtinSpecs["(time.Time).Sub"] = func(e *Engine, st *State, fn *ssa.Function, args []Value, pos token.Pos) []*State {
		f := e.ctx.Func("Time.Sub", []*Sort{SInt, SInt}, SInt)
		r := T("("+f+" "+args[0].(Term).S+" "+args[1].(Term).S+")", SInt)
		e.assumeTyped(st, r, types.Typ[types.Int64])
		return ret(st, r)
	}
	builtinSpecs["(time.Time).UnixNano"] = func(e *Engine, st *State, fn *ssa.Function, args []Value, pos token.Pos) []*State {
		f := e.ctx.Func("Time.UnixNano", []*Sort{SInt}, SInt)
		r := T("("+f+" "+args[0].(Term).S+")", SInt)
		e.assumeTyped(st, r, types.Typ[types.Int64])
		return ret(st, r)
	}

	// ---- bytes.Buffer over an abstract byte string ----
	bufLoad := func(e *Engine, st *State, v Value, pos token.Pos) (PtrV, Term) {
		p := e.ptrArg(v)
		e.checkNil(st, p, pos)
		return p, e.load(st, p, p.Elem).(Term)
	}
	builtinSpecs["(*bytes.Buffer).Len"] = func(e *Engine, st *State, fn *ssa.Function, args []Value, pos token.Pos) []*State {
		_, c := bufLoad(e, st, args[0], pos)
		e.strFacts(st, c)
		return ret(st, slen(c))
	}
	builtinSpecs["(*bytes.Buffer).Cap"] = func(e *Engine, st *State, fn *ssa.Function, args []Value, pos token.Pos) []*State {
		_, c := bufLoad(e, st, args[0], pos)
		r := e.ctx.Fresh("bufcap", SInt)
		st.assume(And(Le(slen(c), r), Le(r, T("4611686018427387904", SInt))))
		e.note("bytes.Buffer.Cap: an arbitrary value >= Len (capacity is not modelled)")
		return ret(st, r)
	}
	builtinSpecs["(*bytes.Buffer).Grow"] = func(e *Engine, st *State, fn *ssa.Function, args []Value, pos token.Pos) []*State {
		bufLoad(e, st, args[0], pos)
		e.oblige(st, "safe", "buffer_grow_negative", Le(IntLit(0), args[1].(Term)), pos)
		return ret(st, nil)
	}
	builtinSpecs["(*bytes.Buffer).Reset"] = func(e *Engine, st *State, fn *ssa.Function, args []Value, pos token.Pos) []*State {
		p, _ := bufLoad(e, st, args[0], pos)
		e.store(st, p, p.Elem, T("strEmpty", SStr))
		return ret(st, nil)
	}
	builtinSpecs["(*bytes.Buffer).String"] = func(e *Engine, st *State, fn *ssa.Function, args []Value, pos token.Pos) []*State {
		_, c := bufLoad(e, st, args[0], pos)
		return ret(st, c)
	}
	builtinSpecs["(*bytes.Buffer).Bytes"] = func(e *Engine, st *State, fn *ssa.Function, args []Value, pos token.Pos) []*State {
		_, c := bufLoad(e, st, args[0], pos)
		b := e.strToBytes(st, c, types.Typ[types.Byte]).(SliceV)
		e.note("bytes.Buffer.Bytes modelled as a fresh slice with the buffer's content (aliasing with the buffer not modelled)")
		return ret(st, b)
	}
	builtinSpecs["(*bytes.Buffer).Write"] = func(e *Engine, st *State, fn *ssa.Function, args []Value, pos token.Pos) []*State {
		p, c := bufLoad(e, st, args[0], pos)
		b := args[1].(SliceV)
		s := e.bytesToStr(st, b)
		e.store(st, p, p.Elem, e.sconcat(st, c, s))
		return ret(st, TupleV{b.Len, IfaceV{Tag: IntLit(0), Pay: IntLit(0)}})
	}
	builtinSpecs["(*bytes.Buffer).WriteString"] = func(e *Engine, st *State, fn *ssa.Function, args []Value, pos token.Pos) []*State {
		p, c := bufLoad(e, st, args[0], pos)
		s := args[1].(Term)
		e.strFacts(st, s)
		e.store(st, p, p.Elem, e.sconcat(st, c, s))
		return ret(st, TupleV{slen(s), IfaceV{Tag: IntLit(0), Pay: IntLit(0)}})
	}
	builtinSpecs["(*bytes.Buffer).WriteByte"] = func(e *Engine, st *State, fn *ssa.Function, args []Value, pos token.Pos) []*State {
		p, c := bufLoad(e, st, args[0], pos)
		f := e.ctx.Func("byte2str", []*Sort{SInt}, SStr)
		s := T("("+f+" "+args[1].(Term).S+")", SStr)
		st.assume(Eq(slen(s), IntLit(1)))
		e.store(st, p, p.Elem, e.sconcat(st, c, s))
		return ret(st, IfaceV{Tag: IntLit(0), Pay: IntLit(0)})
	}
	builtinSpecs["(*bytes.Buffer).WriteRune"] = func(e *Engine, st *State, fn *ssa.Function, args []Value, pos token.Pos) []*State {
		p, c := bufLoad(e, st, args[0], pos)
		f := e.ctx.Func("rune2str", []*Sort{SInt}, SStr)
		s := T("("+f+" "+args[1].(Term).S+")", SStr)
		st.assume(And(Le(IntLit(1), slen(s)), Le(slen(s), IntLit(4))))
		e.store(st, p, p.Elem, e.sconcat(st, c, s))
		return ret(st, TupleV{slen(s), IfaceV{Tag: IntLit(0), Pay: IntLit(0)}})
	}
}

// wgEvent records a WaitGroup operation: name carries the field path, the
// argument is the object that contains the WaitGroup.
func (e *Engine) wgEvent(st *State, name string, p PtrV) {
	suffix, _ := e.pathSuffix(p)
	var args []Term
	if p.Cell == 0 && p.Global == nil {
		args = append(args, p.Ref)
	}
	e.eventNamed(st, name+":"+suffix, args)
}

func atomicEffect(writes bool) effectFn {
	return func(e *Engine, cc *ssa.CallCommon, inv func(ssa.Value) (Value, bool), whole *[]KeySort, slot func(KeySort, Term)) {
		if !writes {
			return
		}
		addr := cc.Args[0]
		root, path, ok := addrChain(addr)
		if !ok {
			panic(unsupported("atomic op through complex address in loop"))
		}
		pt, isP := root.Type().Underlying().(*types.Pointer)
		if !isP {
			panic(unsupported("atomic op root in loop"))
		}
		key := e.rootKey(pt.Elem())
		for _, s := range path {
			if s.field != "" {
				key += "." + s.field
			} else {
				key += "[]"
			}
		}
		et := addr.Type().Underlying().(*types.Pointer).Elem()
		for _, ks := range e.leafKeys(key, et, 0) {
			if rv, ok := inv(root); ok {
				if p, ok := rv.(PtrV); ok && p.Cell == 0 && p.Global == nil && len(p.Path) == 0 {
					slot(ks, p.Ref)
					continue
				}
			}
			*whole = append(*whole, ks)
		}
	}
}

// guardFacts: facts learned in a sub-state (assumptions added after the fork
// point) conjoined with the given term.
func guardFacts(sub, base *State, t Term) Term {
	extra := []Term{}
	for _, p := range sub.pc[len(base.pc):] {
		extra = append(extra, p)
	}
	_ = extra
	return t
}

// locTerms identifies a location for events (root reference + path string id).
func (e *Engine) locTerms(st *State, p PtrV) []Term {
	suffix, idx := e.pathSuffix(p)
	id := e.ctx.Const("loc:"+p.rootName(e)+suffix, SInt)
	out := []Term{id}
	if p.Cell == 0 && p.Global == nil {
		out = append(out, p.Ref)
	}
	out = append(out, idx...)
	return out
}

func (e *Engine) locString(st *State, p PtrV) string {
	var parts []string
	for _, t := range e.locTerms(st, p) {
		parts = append(parts, e.ctx.Canon(t.S))
	}
	return strings.Join(parts, "/")
}

// ifacePayloadTerms: (tag, payload content) of an interface value as terms,
// unboxing scalars when the dynamic type is known.
func (e *Engine) ifacePayloadTerms(st *State, iv IfaceV) []Term {
	if t, ok := e.knownTag(st, iv); ok {
		if _, isScalar := e.scalarSort(t); isScalar {
			if _, isMap := t.Underlying().(*types.Map); !isMap {
				v := e.unbox(st, iv, t)
				return append([]Term{iv.Tag}, e.flat(v)...)
			}
		}
	}
	return []Term{iv.Tag, iv.Pay}
}

// ---------------------------------------------------------------------------
// lock set tracking

func (e *Engine) lockOp(st *State, p PtrV, op string, pos token.Pos) {
	key := e.locString(st, p)
	cur := st.locks[key]
	switch op {
	case "Lock":
		if e.cur != nil && e.cur.discipline != nil {
			e.cur.discipline.onAcquire(e, st, p, key, lockW, pos)
		}
		st.locks[key] = lockW
	case "RLock":
		if e.cur != nil && e.cur.discipline != nil {
			e.cur.discipline.onAcquire(e, st, p, key, lockR, pos)
		}
		st.locks[key] = lockR
	case "Unlock":
		if e.cur != nil && e.cur.discipline != nil {
			e.cur.discipline.onRelease(e, st, p, key, lockW, cur, pos)
		}
		delete(st.locks, key)
	case "RUnlock":
		if e.cur != nil && e.cur.discipline != nil {
			e.cur.discipline.onRelease(e, st, p, key, lockR, cur, pos)
		}
		delete(st.locks, key)
	}
}

// ---------------------------------------------------------------------------
// package-level variables initialised once with constants

type globalInitInfo struct {
	consts  map[string]Value // suffix -> constant value
	written bool             // written outside init
	scanned bool
}

// globalConst returns the constant content of a package-level variable (or of
// one of its fields) when it is assigned only in the package initialiser, with
// constants.
func (e *Engine) globalConst(st *State, p PtrV, t types.Type) (Value, bool) {
	g := p.Global
	name := g.Pkg.Pkg.Path() + "." + g.Name()
	info, ok := e.globalInit[name]
	if !ok {
		info = e.scanGlobal(g)
		e.globalInit[name] = info
	}
	if info.written {
		return nil, false
	}
	suffix, idx := e.pathSuffix(p)
	if len(idx) > 0 {
		return nil, false
	}
	if v, ok := info.consts[suffix]; ok {
		return v, true
	}
	// struct-typed read: assemble from fields
	if stt, ok := t.Underlying().(*types.Struct); ok {
		if _, op := e.opaqueSort(t); !op {
			sv := StructV{T: t}
			for i := 0; i < stt.NumFields(); i++ {
				fv, ok := e.globalConst(st, p.field(i, stt.Field(i).Type()), stt.Field(i).Type())
				if !ok {
					return nil, false
				}
				sv.F = append(sv.F, fv)
			}
			return sv, true
		}
	}
	return nil, false
}

func (e *Engine) scanGlobal(g *ssa.Global) globalInitInfo {
	info := globalInitInfo{consts: map[string]Value{}, scanned: true}
	scratch := e.newState()
	for fn := range e.allFuncs {
		if fn.Blocks == nil {
			continue
		}
		isInit := fn.Name() == "init" && fn.Pkg == g.Pkg && fn.Parent() == nil
		for _, b := range fn.Blocks {
			for _, ins := range b.Instrs {
				switch x := ins.(type) {
				case *ssa.Store:
					root, path, ok := addrChain(x.Addr)
					if !ok || root != ssa.Value(g) {
						continue
					}
					if !isInit {
						info.written = true
						continue
					}
					suffix := ""
					bad := false
					for _, s := range path {
						if s.index {
							bad = true
						}
						suffix += "." + s.field
					}
					if bad {
						continue
					}
					switch v := x.Val.(type) {
					case *ssa.Const:
						info.consts[suffix] = e.constVal(scratch, v)
					case *ssa.Function:
						info.consts[suffix] = ClosureV{Fn: v}
					case *ssa.Convert:
						if c, ok := v.X.(*ssa.Const); ok {
							info.consts[suffix] = e.constVal(scratch, ssa.NewConst(c.Value, v.Type()))
						}
					case *ssa.Call:
						// sentinel errors: var errX = errors.New("...")
						if callee := v.Call.StaticCallee(); callee != nil && (callee.String() == "errors.New" || callee.String() == "fmt.Errorf" || callee.String() == "github.com/pkg/errors.New" || callee.String() == "github.com/pkg/errors.Errorf") {
							name := g.Pkg.Pkg.Path() + "." + g.Name() + suffix
							pay := e.ctx.Const("globerr:"+name, SInt)
							e.ctx.Axiom("globerr:"+name, []string{"globerr:" + name}, And(Lt(IntLit(0), pay), Lt(pay, e.ctx.Const("nextRef0", SInt))))
							info.consts[suffix] = IfaceV{Tag: e.typeTag(types.NewPointer(types.Universe.Lookup("error").Type())), Pay: pay}
						}
					}
				default:
					// address of the global escaping into a call or another store
					for _, op := range ins.Operands(nil) {
						if *op == ssa.Value(g) {
							switch ins.(type) {
							case *ssa.UnOp, *ssa.FieldAddr, *ssa.IndexAddr:
							default:
								if !isInit {
									info.written = true
								}
							}
						}
					}
				}
			}
		}
	}
	return info
}

func init() {
	// ---- net.UDPConn: one Write call = one datagram with exactly the given bytes; may fail ----
	builtinSpecs["(*net.conn).Write"] = func(e *Engine, st *State, fn *ssa.Function, args []Value, pos token.Pos) []*State {
		c := e.ptrArg(args[0])
		b := args[1].(SliceV)
		content := e.bytesToStr(st, b)
		n := e.ctx.Fresh("udp_n", SInt)
		st.assume(And(Le(IntLit(0), n), Le(n, b.Len)))
		errv := e.freshValue(st, "udp_err", types.Universe.Lookup("error").Type()).(IfaceV)
		e.eventRes(st, "conn.Write", []Term{c.Ref, content}, []Term{n, errv.Tag, errv.Pay})
		return ret(st, TupleV{n, errv})
	}
	builtinSpecs["(*net.conn).Close"] = func(e *Engine, st *State, fn *ssa.Function, args []Value, pos token.Pos) []*State {
		c := e.ptrArg(args[0])
		errv := e.freshValue(st, "udp_err", types.Universe.Lookup("error").Type()).(IfaceV)
		e.eventRes(st, "conn.Close", []Term{c.Ref}, []Term{errv.Tag, errv.Pay})
		return ret(st, errv)
	}
	builtinSpecs["(*net.conn).Read"] = func(e *Engine, st *State, fn *ssa.Function, args []Value, pos token.Pos) []*State {
		c := e.ptrArg(args[0])
		b := args[1].(SliceV)
		n := e.ctx.Fresh("udp_n", SInt)
		st.assume(And(Le(IntLit(0), n), Le(n, b.Len)))
		errv := e.freshValue(st, "udp_err", types.Universe.Lookup("error").Type()).(IfaceV)
		// the buffer content becomes arbitrary
		key := typeKey(arrRootT(b.Elem)) + "[]"
		so := arrSortFor(1, SInt)
		st.havocHeapSlot(KeySort{key, so}, b.Arr)
		e.eventRes(st, "conn.Read", []Term{c.Ref}, []Term{n, errv.Tag, errv.Pay})
		return ret(st, TupleV{n, errv})
	}
}
