package main

import (
	"fmt"
	"go/token"
	"go/types"
	"strings"

	"golang.org/x/tools/go/ssa"
)

func (e *Engine) doCall(st *State, cc *ssa.CallCommon, res ssa.Value, pos token.Pos) []*State {
	var args []Value
	for _, a := range cc.Args {
		args = append(args, e.val(st, a))
	}
	fnv := e.val(st, cc.Value)
	return e.doCallValues(st, cc, fnv, args, res, pos)
}

func setRes(st *State, res ssa.Value, v Value) {
	if res != nil {
		st.env[res] = v
	}
	st.lastCallRets = nil
}

// doCallValues performs a call with evaluated callee and arguments. The
// resulting states have env[res] set.
func (e *Engine) doCallValues(st *State, cc *ssa.CallCommon, fnv Value, args []Value, res ssa.Value, pos token.Pos) []*State {
	if cc.IsInvoke() {
		iv, ok := fnv.(IfaceV)
		if !ok {
			panic(unsupported("invoke on non-interface value"))
		}
		return e.invoke(st, iv, cc.Value.Type(), cc.Method, args, res, pos)
	}
	switch f := fnv.(type) {
	case *ssa.Builtin:
		v := e.builtin(st, f, cc, args, pos)
		setRes(st, res, v)
		return []*State{st}
	case ClosureV:
		return e.callFunction(st, f.Fn, args, f.Bind, res, pos)
	case OpaqueFn:
		return e.callOpaque(st, f, args, res, pos)
	}
	panic(unsupported(fmt.Sprintf("call of %T", fnv)))
}

func (e *Engine) relName(fn *ssa.Function) (pkg string, rel string) {
	p := fn.Pkg
	if p == nil && fn.Parent() != nil {
		p = fn.Parent().Pkg
	}
	if p == nil {
		// methods of instantiated / synthetic functions
		if fn.Signature.Recv() != nil {
			if o := fn.Object(); o != nil && o.Pkg() != nil {
				return o.Pkg().Path(), fn.RelString(o.Pkg())
			}
		}
		return "", fn.String()
	}
	return p.Pkg.Path(), fn.RelString(p.Pkg)
}

func (e *Engine) contractOf(fn *ssa.Function) *Contract {
	if c, ok := e.protoContract[fn]; ok {
		return c
	}
	pkg, rel := e.relName(fn)
	if ps, ok := e.specs[pkg]; ok {
		if c, ok := ps.Contracts[rel]; ok {
			return c
		}
	}
	if !e.inModule(pkgOf(fn)) {
		name := fn.String()
		for _, ps := range e.specs {
			if c, ok := ps.ExtFuncs[name]; ok {
				e.trustedUsed["ASSUMED contract of dependency function "+name+" (declared in "+ps.Pkg+")"] = true
				return c
			}
		}
	}
	return nil
}

func (e *Engine) specOf(p *types.Package) *PkgSpec {
	if p == nil {
		return nil
	}
	return e.specs[p.Path()]
}

func (e *Engine) callFunction(st *State, fn *ssa.Function, args []Value, bind []Value, res ssa.Value, pos token.Pos) []*State {
	name := fn.String()
	if bs, ok := builtinSpecs[name]; ok {
		e.trustedUsed["spec:"+name] = true
		outs := bs(e, st, fn, args, pos)
		for _, o := range outs {
			setRes(o, res, o.retVal)
		}
		return outs
	}
	c := e.contractOf(fn)
	if c != nil && !c.Inline && !(e.cur != nil && e.cur.fn == fn) {
		v := e.applyContract(st, fn, c, args, bind, pos)
		setRes(st, res, v)
		e.markCall(st, fn, args)
		return []*State{st}
	}
	if c != nil && e.cur != nil && e.cur.fn == fn {
		panic(unsupported("recursive call of the function under verification"))
	}
	if fn.Blocks == nil {
		panic(unsupported("call of external function without specification: " + name))
	}
	if !e.inModule(pkgOf(fn)) {
		if v, ok := e.pureDependencyCall(st, fn, args); ok {
			setRes(st, res, v)
			return []*State{st}
		}
		panic(unsupported("call of dependency function without specification: " + name))
	}
	if e.cur != nil {
		e.cur.inlined[name] = true
	}
	outs := e.runFunction(st, fn, args, bind, false)
	for _, o := range outs {
		setRes(o, res, o.retVal)
		e.markCall(o, fn, args)
	}
	return outs
}

// markCall applies the ghost-mark rules attached to calls of fn.
func (e *Engine) markCall(st *State, fn *ssa.Function, args []Value) {
	p := pkgOf(fn)
	if p == nil {
		return
	}
	ps, ok := e.specs[p.Path()]
	if !ok || len(ps.MarkRules) == 0 {
		return
	}
	_, rel := e.relName(fn)
	vars := map[string]Value{}
	for i, pa := range fn.Params {
		if i < len(args) {
			vars[pa.Name()] = wrapTyped(args[i], pa.Type())
		}
	}
	e.applyMarkRules(st, "call", rel, p, vars)
}

func pkgOf(fn *ssa.Function) *types.Package {
	if fn.Pkg != nil {
		return fn.Pkg.Pkg
	}
	if fn.Parent() != nil {
		return pkgOf(fn.Parent())
	}
	if o := fn.Object(); o != nil {
		return o.Pkg()
	}
	return nil
}

// callOpaque: a function value known only by identity. Modelled as a pure
// uninterpreted function of (identity, arguments) when the signature has
// scalar parameters and one scalar result; otherwise unsupported.
func (e *Engine) callOpaque(st *State, f OpaqueFn, args []Value, res ssa.Value, pos token.Pos) []*State {
	if cl, ok := e.closures[f.ID.S]; ok {
		return e.callFunction(st, cl.Fn, args, cl.Bind, res, pos)
	}
	sig := f.Sig
	e.oblige(st, "safe", "nil_func_call", Neq(f.ID, IntLit(0)), pos)
	flat := []Term{f.ID}
	sorts := []*Sort{SInt}
	for _, a := range args {
		for _, t := range e.flat(a) {
			flat = append(flat, t)
			sorts = append(sorts, t.Sort)
		}
	}
	if sig.Results().Len() == 1 {
		if rs, ok := e.scalarSort(sig.Results().At(0).Type()); ok {
			var sk []string
			for _, s := range sorts {
				sk = append(sk, s.String())
			}
			fn := e.ctx.Func("apply:"+strings.Join(sk, ",")+":"+rs.String(), sorts, rs)
			var sb strings.Builder
			sb.WriteString("(" + fn)
			for _, t := range flat {
				sb.WriteString(" " + t.S)
			}
			sb.WriteString(")")
			r := e.ctx.Define("app", T(sb.String(), rs))
			e.assumeTyped(st, r, sig.Results().At(0).Type())
			e.note("call of an opaque function value modelled as a pure function of its identity and arguments")
			setRes(st, res, r)
			return []*State{st}
		}
	}
	// general case: an unknown function. Recorded as a trace event "fn.call";
	// it is assumed not to touch this module's state (like extern interfaces).
	var rv Value
	switch sig.Results().Len() {
	case 0:
	case 1:
		st.havocAlloc()
		rv = e.freshValue(st, "ret_fn", sig.Results().At(0).Type())
	default:
		st.havocAlloc()
		rv = e.freshValue(st, "ret_fn", sig.Results())
	}
	e.eventRes(st, "fn.call", flat, e.flat(rv))
	e.trustedUsed["call of an unknown function value: modelled as a trace event fn.call; assumed not to touch tally state"] = true
	setRes(st, res, rv)
	return []*State{st}
}

// ---------------------------------------------------------------------------
// builtins

func (e *Engine) builtin(st *State, b *ssa.Builtin, cc *ssa.CallCommon, args []Value, pos token.Pos) Value {
	switch b.Name() {
	case "len":
		switch x := args[0].(type) {
		case SliceV:
			return x.Len
		case Term:
			if x.Sort.K == KStr {
				e.strFacts(st, x)
				return slen(x)
			}
			if mt, ok := cc.Args[0].Type().Underlying().(*types.Map); ok {
				return e.mapLen(st, mt, x)
			}
			if _, ok := cc.Args[0].Type().Underlying().(*types.Chan); ok {
				r := e.ctx.Fresh("chanlen", SInt)
				st.assume(Le(IntLit(0), r))
				return r
			}
		case ArrayV:
			return IntLit(int64(len(x.E)))
		case PtrV:
			if at, ok := x.Elem.Underlying().(*types.Array); ok {
				return IntLit(at.Len())
			}
		}
	case "cap":
		if x, ok := args[0].(SliceV); ok {
			return x.Cap
		}
	case "append":
		return e.appendOp(st, cc, args, pos)
	case "copy":
		return e.copyOp(st, cc, args, pos)
	case "delete":
		mt := cc.Args[0].Type().Underlying().(*types.Map)
		if e.cur != nil && e.cur.discipline != nil {
			e.cur.discipline.onMapWrite(e, st, cc.Args[0], pos)
		}
		e.mapDelete(st, mt, args[0].(Term), e.keyTerm(args[1]))
		return nil
	case "close":
		e.chanClose(st, args[0].(Term), pos)
		return nil
	case "panic":
		e.oblige(st, "safe", "no_explicit_panic", TFalse, pos)
		st.panicked = true
		return nil
	case "min", "max":
		a, b2 := args[0].(Term), args[1].(Term)
		if a.Sort.K == KInt {
			if b.Name() == "min" {
				return Ite(Le(a, b2), a, b2)
			}
			return Ite(Ge(a, b2), a, b2)
		}
	case "ssa:wrapnilchk":
		if p, ok := args[0].(PtrV); ok {
			e.checkNil(st, p, pos)
		}
		return args[0]
	case "ssa:deferstack":
		return IntLit(0)
	case "print", "println":
		return nil
	}
	panic(unsupported("builtin " + b.Name()))
}

// appendOp models append faithfully: in place when capacity allows, otherwise
// a fresh backing array holding a copy.
func (e *Engine) appendOp(st *State, cc *ssa.CallCommon, args []Value, pos token.Pos) Value {
	s := args[0].(SliceV)
	var add SliceV
	switch x := args[1].(type) {
	case SliceV:
		add = x
	case Term:
		if x.Sort.K == KStr { // append([]byte, string...)
			add = e.strToBytes(st, x, s.Elem).(SliceV)
		} else {
			panic(unsupported("append argument"))
		}
	default:
		panic(unsupported("append argument"))
	}
	if add.Len.S == "0" {
		return s
	}
	// string view of a byte append: str(result) == str(s) ++ (appended text)
	var oldStr, addStr Term
	byteAppend := false
	if b, ok := s.Elem.Underlying().(*types.Basic); ok && b.Kind() == types.Uint8 {
		byteAppend = true
		oldStr = e.bytesToStr(st, s)
		if x, isStr := args[1].(Term); isStr && x.Sort.K == KStr {
			addStr = x
		} else {
			addStr = e.bytesToStr(st, add)
		}
	}
	newLen := Add(s.Len, add.Len)
	fits := Le(newLen, s.Cap)
	fresh := st.alloc()
	// fresh constants (not macros): they occur inside quantifier patterns
	// (ix resOff j), where an inlined ite would never match
	resArr := e.ctx.Fresh("app_arr", SInt)
	resOff := e.ctx.Fresh("app_off", SInt)
	st.assume(Eq(resArr, Ite(fits, s.Arr, fresh)))
	st.assume(Eq(resOff, Ite(fits, s.Off, IntLit(0))))
	resCap := e.ctx.Fresh("app_cap", SInt)
	st.assume(And(Le(newLen, resCap), Implies(fits, Eq(resCap, s.Cap))))
	st.assume(Le(resCap, T("4611686018427387904", SInt)))
	// contents: for every leaf array of the element type
	for _, ks := range e.leafKeys(typeKey(arrRootT(s.Elem))+"[]", s.Elem, 1) {
		e.noteHeapKey(ks.Key, ks.Sort)
		a := st.heapArr(ks.Key, ks.Sort)
		inner := ks.Sort.Val // Array Int leaf
		oldRes := Select(a, resArr)
		src := Select(a, add.Arr)
		sOld := Select(a, s.Arr)
		{
			na := e.ctx.Fresh("app_cont", inner)
			j := T("j!q", SInt)
			st.assume(ForallPat([]Term{j}, [][]Term{{IX(resOff, j)}, {IX(s.Off, j)}}, Implies(And(Le(IntLit(0), j), Lt(j, s.Len)),
				Eq(Select(na, IX(resOff, j)), Select(sOld, IX(s.Off, j))))))
			if n, ok := isIntLit(add.Len); ok && n <= 4 {
				// short append: one explicit fact per appended element
				for k := int64(0); k < n; k++ {
					st.assume(Eq(Select(na, IX(resOff, Add(s.Len, IntLit(k)))), Select(src, IX(add.Off, IntLit(k)))))
				}
			} else {
				st.assume(ForallPat([]Term{j}, [][]Term{{IX(resOff, Add(s.Len, j))}, {IX(add.Off, j)}}, Implies(And(Le(IntLit(0), j), Lt(j, add.Len)),
					Eq(Select(na, IX(resOff, Add(s.Len, j))), Select(src, IX(add.Off, j))))))
			}
			// in-place append leaves the rest of the array untouched
			st.assume(Implies(fits, Forall([]Term{j}, Implies(Or(Lt(j, Add(s.Off, s.Len)), Ge(j, Add(s.Off, newLen))),
				Eq(Select(na, j), Select(oldRes, j))))))
			st.setHeapArr(ks.Key, Store(a, resArr, na))
		}
	}
	res := SliceV{Arr: resArr, Off: resOff, Len: newLen, Cap: resCap, Elem: s.Elem}
	if byteAppend {
		st.assume(Eq(e.bytesToStr(st, res), e.sconcat(st, oldStr, addStr)))
	}
	return res
}

// copiedPrefix: a fresh inner array whose [0,n) equals src[off, off+n).
func (e *Engine) copiedPrefix(st *State, inner *Sort, src Term, off, n Term) Term {
	na := e.ctx.Fresh("cpy", inner)
	if k, ok := isIntLit(n); ok && k == 0 {
		return na
	}
	j := T("j!q", SInt)
	st.assume(ForallPat([]Term{j}, [][]Term{{IX(IntLit(0), j)}, {IX(off, j)}}, Implies(And(Le(IntLit(0), j), Lt(j, n)), Eq(Select(na, IX(IntLit(0), j)), Select(src, IX(off, j))))))
	return na
}

func (e *Engine) copyOp(st *State, cc *ssa.CallCommon, args []Value, pos token.Pos) Value {
	dst := args[0].(SliceV)
	var src SliceV
	switch x := args[1].(type) {
	case SliceV:
		src = x
	case Term:
		src = e.strToBytes(st, x, dst.Elem).(SliceV)
	}
	n := e.ctx.Define("cpn", Ite(Le(dst.Len, src.Len), dst.Len, src.Len))
	for _, ks := range e.leafKeys(typeKey(arrRootT(dst.Elem))+"[]", dst.Elem, 1) {
		e.noteHeapKey(ks.Key, ks.Sort)
		a := st.heapArr(ks.Key, ks.Sort)
		inner := ks.Sort.Val
		na := e.ctx.Fresh("cp_cont", inner)
		d := Select(a, dst.Arr)
		s := Select(a, src.Arr)
		j := T("j!q", SInt)
		st.assume(ForallPat([]Term{j}, [][]Term{{Select(na, IX(dst.Off, j))}, {Select(s, IX(src.Off, j))}}, Implies(And(Le(IntLit(0), j), Lt(j, n)),
			Eq(Select(na, IX(dst.Off, j)), Select(s, IX(src.Off, j))))))
		st.assume(Forall([]Term{j}, Implies(Or(Lt(j, dst.Off), Ge(j, Add(dst.Off, n))),
			Eq(Select(na, j), Select(d, j)))))
		st.setHeapArr(ks.Key, Store(a, dst.Arr, na))
	}
	return n
}

// ---------------------------------------------------------------------------
// interface method calls

func (e *Engine) invoke(st *State, recv IfaceV, ifaceT types.Type, m *types.Func, args []Value, res ssa.Value, pos token.Pos) []*State {
	e.oblige(st, "safe", "nil_interface_call", Neq(recv.Tag, IntLit(0)), pos)
	// closed interfaces: dispatch on the dynamic type
	if ci := e.closedIface(ifaceT); ci != nil {
		return e.dispatchClosed(st, recv, ifaceT, ci, m, args, res, pos)
	}
	// a tag known on this path?
	if t, ok := e.knownTag(st, recv); ok {
		if fn := e.prog.LookupMethod(t, m.Pkg(), m.Name()); fn != nil {
			return e.callFunction(st, fn, append([]Value{e.unbox(st, recv, t)}, args...), nil, res, pos)
		}
	}
	if e.isPureMethod(m) {
		rv := e.pureMethodResult(st, m, recv, args)
		e.trustedUsed["pure interface method "+m.FullName()+": deterministic function of receiver and arguments, no effects"] = true
		setRes(st, res, rv)
		return []*State{st}
	}
	depIface := !e.inModule(m.Pkg())
	if _, hasSpec := ifaceSpecs[m.FullName()]; hasSpec {
		depIface = false
	}
	if e.isExternIface(ifaceT, m) || depIface {
		if depIface && !e.isExternIface(ifaceT, m) {
			e.trustedUsed["call of "+m.FullName()+" (an interface of a dependency without specification): modelled like an extern interface - a trace event with an arbitrary result"] = true
		}
		sig := m.Type().(*types.Signature)
		var rv Value
		switch sig.Results().Len() {
		case 0:
		case 1:
			st.havocAlloc()
			rv = e.freshValue(st, "ret_"+m.Name(), sig.Results().At(0).Type())
		default:
			st.havocAlloc()
			rv = e.freshValue(st, "ret_"+m.Name(), sig.Results())
		}
		flat := e.flat(recv)
		for _, a := range args {
			flat = append(flat, e.flat(a)...)
		}
		e.eventRes(st, m.FullName(), flat, e.flat(rv))
		e.assumeExternPost(st, m, rv)
		e.trustedUsed["extern interface call "+m.FullName()+": modelled as a trace event; assumed not to touch tally state"] = true
		if e.cur != nil && e.cur.discipline != nil {
			e.cur.discipline.onExternCall(e, st, m, pos)
		}
		setRes(st, res, rv)
		return []*State{st}
	}
	if bs, ok := ifaceSpecs[m.FullName()]; ok {
		e.trustedUsed["spec:"+m.FullName()] = true
		outs := bs(e, st, recv, args, pos)
		for _, o := range outs {
			setRes(o, res, o.retVal)
		}
		return outs
	}
	panic(unsupported("interface call without specification: " + m.FullName()))
}

func (e *Engine) knownTag(st *State, iv IfaceV) (types.Type, bool) {
	if n, ok := isIntLit(iv.Tag); ok && n > 0 {
		t, ok := e.tagTypes[int(n)]
		return t, ok
	}
	for id, t := range e.tagTypes {
		if st.known[Eq(iv.Tag, IntLit(int64(id))).S] {
			return t, true
		}
	}
	return nil, false
}

func ifaceName(t types.Type) (pkg, name string) {
	if n, ok := t.(*types.Named); ok {
		if n.Obj().Pkg() != nil {
			return n.Obj().Pkg().Path(), n.Obj().Name()
		}
		return "", n.Obj().Name()
	}
	return "", ""
}

func (e *Engine) closedIface(t types.Type) *ClosedIface {
	pkg, name := ifaceName(t)
	if ps, ok := e.specs[pkg]; ok {
		if ci, ok := ps.Closed[name]; ok {
			return ci
		}
	}
	return nil
}

func (e *Engine) isExternIface(t types.Type, m *types.Func) bool {
	pkg, name := ifaceName(t)
	if ps, ok := e.specs[pkg]; ok && ps.Extern[name] {
		return true
	}
	// the interface that declares the method (embedded interfaces)
	if recv := m.Type().(*types.Signature).Recv(); recv != nil {
		p2, n2 := ifaceName(recv.Type())
		if ps, ok := e.specs[p2]; ok && ps.Extern[n2] {
			return true
		}
	}
	// cross-package: "extern interface tally.StatsReporter" declared by a user package
	for _, ps := range e.specs {
		if ps.Extern[pkgBase(pkg)+"."+name] {
			return true
		}
	}
	return false
}

func pkgBase(p string) string {
	if p == "" {
		return ""
	}
	parts := strings.Split(p, "/")
	last := parts[len(parts)-1]
	if strings.HasPrefix(last, "v") && len(parts) > 1 && len(last) <= 3 {
		return parts[len(parts)-2]
	}
	return last
}

// dispatchClosed: case split over the declared implementations of a closed
// interface; the obligation that the dynamic type is one of them is emitted.
func (e *Engine) dispatchClosed(st *State, recv IfaceV, ifaceT types.Type, ci *ClosedIface, m *types.Func, args []Value, res ssa.Value, pos token.Pos) []*State {
	pkgPath, _ := ifaceName(ifaceT)
	var tp *types.Package
	for _, p := range e.allTypesPkgs {
		if p.Path() == pkgPath {
			tp = p
		}
	}
	if tp == nil {
		panic(unsupported("closed interface package not found"))
	}
	var impls []types.Type
	var isOne []Term
	for _, name := range ci.Impls {
		t := e.resolveType(tp, name)
		impls = append(impls, t)
		isOne = append(isOne, Eq(recv.Tag, e.typeTag(t)))
	}
	e.oblige(st, "pre", "closed_interface_"+ci.Name, Or(isOne...), pos)
	var outs []*State
	if kt, ok := e.knownTag(st, recv); ok {
		for _, t := range impls {
			if types.Identical(t, kt) {
				fn := e.prog.LookupMethod(t, m.Pkg(), m.Name())
				if fn == nil {
					panic(unsupported("no method " + m.Name() + " on " + t.String()))
				}
				return e.callFunction(st, fn, append([]Value{e.unbox(st, recv, t)}, args...), nil, res, pos)
			}
		}
	}
	for i, t := range impls {
		s := st
		if i < len(impls)-1 {
			s = st.clone()
		}
		c := isOne[i]
		if st.known[Not(c).S] {
			continue
		}
		s.assume(c)
		fn := e.prog.LookupMethod(t, m.Pkg(), m.Name())
		if fn == nil {
			panic(unsupported("no method " + m.Name() + " on " + t.String()))
		}
		outs = append(outs, e.callFunction(s, fn, append([]Value{e.unbox(s, recv, t)}, args...), nil, res, pos)...)
	}
	return outs
}

// ---------------------------------------------------------------------------
// applying a callee contract at a call site

func (e *Engine) paramNames(fn *ssa.Function) []string {
	var names []string
	for _, p := range fn.Params {
		names = append(names, p.Name())
	}
	return names
}

func (e *Engine) applyContract(st *State, fn *ssa.Function, c *Contract, args []Value, bind []Value, pos token.Pos) Value {
	pre := st.clone()
	vars := map[string]Value{}
	for i, p := range fn.Params {
		vars[p.Name()] = wrapTyped(args[i], p.Type())
	}
	boxes := map[string]PtrV{}
	for i, fv := range fn.FreeVars {
		// free variables are pointers to the captured cells
		if pv, ok := bind[i].(PtrV); ok {
			vars[fv.Name()] = wrapTyped(e.load(st, pv, pv.Elem), pv.Elem)
			boxes[fv.Name()] = pv
		}
	}
	qn := &e.qn
	specPkg := pkgOf(fn)
	if c.ExternDep {
		// assumed contract of a dependency function: names resolve in the package that declares it
		for _, tp := range e.allTypesPkgs {
			if tp.Path() == c.Pkg {
				specPkg = tp
			}
		}
	}
	env := &SpecEnv{e: e, st: st, old: pre, vars: vars, oldVar: vars, pkg: specPkg, qn: qn, boxes: boxes}
	callee := fn.RelString(pkgOf(fn))
	if e.cur != nil {
		e.cur.usedContracts[fn.String()] = true
	}
	for i, r := range c.Requires {
		g := e.evalSpecBool(env, r.Expr)
		e.oblige(st, "pre", fmt.Sprintf("call[%s].%s", callee, clauseName(r, i)), g, pos)
	}
	for _, h := range c.Holds {
		key := e.holdKey(env, h)
		held := st.locks[key]
		if held == lockNone || (h.Mode == lockW && held != lockW) {
			e.oblige(st, "lock", fmt.Sprintf("call[%s].caller_holds_%s", callee, h.Field), TFalse, pos)
		}
	}
	// case preconditions: at least one case must apply when there are only cases
	// effects
	e.havocModifies(st, env, c)
	e.interfereAcquired(st, env, c)
	if c.Emits {
		st.havocTrace()
	}
	anyMod := c.ModAny
	for _, m := range c.Modifies {
		if m.Any {
			anyMod = true
		}
	}
	if c.Allocs || anyMod {
		st.havocAlloc()
	}
	var rv Value
	sig := fn.Signature
	switch sig.Results().Len() {
	case 0:
	case 1:
		if !c.Allocs {
			st.havocAlloc()
		}
		rv = e.freshValue(st, "ret_"+fn.Name(), sig.Results().At(0).Type())
	default:
		if !c.Allocs {
			st.havocAlloc()
		}
		rv = e.freshValue(st, "ret_"+fn.Name(), sig.Results())
	}
	post := &SpecEnv{e: e, st: st, old: pre, vars: vars, oldVar: vars, pkg: specPkg, qn: qn, hasRes: true}
	if sig.Results().Len() == 1 {
		post.result = wrapTyped(rv, sig.Results().At(0).Type())
	} else {
		post.result = rv
	}
	if len(c.Witness) > 0 {
		post.vars = map[string]Value{}
		for k, v := range vars {
			post.vars[k] = v
		}
		for _, w := range c.Witness {
			t := e.resolveType(specPkg, w.Type)
			wv := wrapTyped(e.freshValue(st, "wit_"+w.Name, t), t)
			post.vars[w.Name] = wv
			st.ghost["wit:"+callee+"."+w.Name] = wv
		}
	}
	for _, en := range c.Ensures {
		st.assume(e.evalSpecBool(post, en.Expr))
	}
	for _, ab := range c.Abstracts {
		st.assume(e.evalSpecBool(post, ab.Expr))
		e.trustedUsed["UNCHECKED abstraction assumed about "+callee+": "+ab.Src] = true
	}
	for _, cs := range c.Cases {
		var rq []Term
		preEnv := &SpecEnv{e: e, st: pre, old: pre, vars: vars, oldVar: vars, pkg: specPkg, qn: qn}
		for _, r := range cs.Requires {
			rq = append(rq, e.evalSpecBool(preEnv, r.Expr))
		}
		var es []Term
		for _, en := range cs.Ensures {
			es = append(es, e.evalSpecBool(post, en.Expr))
		}
		st.assume(Implies(And(rq...), And(es...)))
	}
	return rv
}

func clauseName(c *Clause, i int) string {
	if c.Label != "" {
		return c.Label
	}
	return fmt.Sprintf("%d", i+1)
}

// havocModifies applies the frame of a contract: listed locations get fresh
// contents, everything else is unchanged.
func (e *Engine) havocModifies(st *State, env *SpecEnv, c *Contract) {
	if c.ModAny {
		e.havocAll(st, nil)
		e.note("callee with 'modifies *': all known heap arrays havocked except init-only fields; monotone flags only raised")
		return
	}
	for _, m := range c.Modifies {
		var cond Term
		hasCond := false
		if m.When != nil {
			cond = e.evalSpecBool(env.inOld(), m.When)
			hasCond = true
			if cond.S == "false" {
				continue
			}
			if cond.S == "true" {
				hasCond = false
			}
		}
		havocKey := func(ks KeySort) {
			if !hasCond {
				st.havocHeapKey(ks)
				return
			}
			e.noteHeapKey(ks.Key, ks.Sort)
			a := st.heapArr(ks.Key, ks.Sort)
			fresh := e.ctx.Fresh(heapSym(ks.Key)+"@c", ks.Sort)
			st.setHeapArr(ks.Key, Ite(cond, fresh, a))
		}
		havocSlot := func(ks KeySort, ref Term) {
			if !hasCond {
				st.havocHeapSlot(ks, ref)
				return
			}
			e.noteHeapKey(ks.Key, ks.Sort)
			a := st.heapArr(ks.Key, ks.Sort)
			fresh := e.ctx.Fresh(heapSym(ks.Key)+"@s", ks.Sort.Val)
			st.setHeapArr(ks.Key, Ite(cond, Store(a, ref, fresh), a))
		}
		if m.Any {
			if hasCond {
				e.havocAll(st, &cond)
			} else {
				e.havocAll(st, nil)
			}
			e.note("callee with conditional 'modifies *': all known heap arrays havocked under the condition except init-only fields")
			continue
		}
		if m.All != "" {
			for _, ks := range e.resolveAllLoc(env, m.All) {
				havocKey(ks)
			}
			continue
		}
		for _, tgt := range e.modTargets(env, m.Expr) {
			if tgt.whole {
				havocKey(tgt.ks)
			} else {
				havocSlot(tgt.ks, tgt.ref)
			}
		}
	}
}

type modTarget struct {
	ks    KeySort
	ref   Term
	whole bool
}

// modTargets resolves a modifies expression to heap arrays (and root refs).
// Forms: p.f (field of the object p points to), p (whole object), m (map),
// s[*] (all elements of slice s), x.f[*].g ...
func (e *Engine) modTargets(env *SpecEnv, x *SExpr) []modTarget {
	// s[*] is parsed as index with ident "*"?  we accept the call form elems(s)
	if x.Op == "call" && x.Args[0].Op == "ident" && x.Args[0].Name == "chanstate" {
		ch := e.evalSpecTerm(env, x.Args[1])
		return []modTarget{{ks: e.chanKey("closed"), ref: ch}}
	}
	if x.Op == "call" && x.Args[0].Op == "ident" && x.Args[0].Name == "elems" {
		sv, ok := e.evalSpec(env, x.Args[1]).(SliceV)
		if !ok {
			sfail("elems() needs a slice")
		}
		var out []modTarget
		for _, ks := range e.leafKeys(typeKey(arrRootT(sv.Elem))+"[]", sv.Elem, 1) {
			out = append(out, modTarget{ks: ks, ref: sv.Arr})
		}
		return out
	}
	if x.Op == "sel" {
		base := e.evalSpec(env, x.Args[0])
		if p, ok := base.(PtrV); ok && p.Cell == 0 {
			idx, ft, ok := fieldByName(p.Elem, x.Name)
			if !ok {
				sfail("modifies: no field %s", x.Name)
			}
			cur := p.Elem
			for _, i := range idx {
				f := cur.Underlying().(*types.Struct).Field(i)
				p = p.field(i, f.Type())
				cur = f.Type()
			}
			suffix, ix := e.pathSuffix(p)
			var out []modTarget
			initOnly, _ := e.stableKeys()
			reassigned := false
			if len(idx) == 1 {
				// a declared init-only field that some function nevertheless stores
				// through a non-fresh object (the lock acquire then havocs it too) is
				// an ordinary location for the frame
				reassigned = e.fieldReassigned(base.(PtrV).Elem, x.Name)
			}
			for _, ks := range e.leafKeys(p.rootName(e)+suffix, ft, len(ix)) {
				if initOnly[ks.Key] && !reassigned {
					continue // the field itself never changes; only what it refers to
				}
				out = append(out, modTarget{ks: ks, ref: e.rootRef(env.st, p), whole: len(ix) > 0 && false})
			}
			// a map-typed field: the contents of the map it refers to may change too
			if mt, ok := ft.Underlying().(*types.Map); ok && len(ix) == 0 {
				if m, ok := e.load(env.st, p, ft).(Term); ok {
					out = append(out, modTarget{ks: e.mapDomKS(mt), ref: m}, modTarget{ks: e.mapLenKS(mt), ref: m})
					for _, ks := range e.mapValKS(mt) {
						out = append(out, modTarget{ks: ks, ref: m})
					}
				}
			}
			return out
		}
	}
	if x.Op == "ident" {
		// a captured variable of a closure: the box that holds it
		if p, ok := env.boxes[x.Name]; ok && !env.bound[x.Name] {
			suffix, ix := e.pathSuffix(p)
			var out []modTarget
			for _, ks := range e.leafKeys(p.rootName(e)+suffix, p.Elem, len(ix)) {
				out = append(out, modTarget{ks: ks, ref: e.rootRef(env.st, p)})
			}
			return out
		}
	}
	v := e.evalSpec(env, x)
	switch t := v.(type) {
	case PtrV:
		if t.Cell > 0 {
			return nil
		}
		suffix, ix := e.pathSuffix(t)
		var out []modTarget
		for _, ks := range e.leafKeys(t.rootName(e)+suffix, t.Elem, len(ix)) {
			out = append(out, modTarget{ks: ks, ref: e.rootRef(env.st, t)})
		}
		return out
	case MapV:
		var out []modTarget
		out = append(out, modTarget{ks: e.mapDomKS(t.T), ref: t.Ref}, modTarget{ks: e.mapLenKS(t.T), ref: t.Ref})
		for _, ks := range e.mapValKS(t.T) {
			out = append(out, modTarget{ks: ks, ref: t.Ref})
		}
		return out
	case SliceV:
		var out []modTarget
		for _, ks := range e.leafKeys(typeKey(arrRootT(t.Elem))+"[]", t.Elem, 1) {
			out = append(out, modTarget{ks: ks, ref: t.Arr})
		}
		return out
	case IfaceV:
		sfail("modifies through an interface value is not supported")
	}
	sfail("modifies: unsupported location %s", x)
	return nil
}

// resolveAllLoc: "T.f" → every heap array under field f of struct type T.
func (e *Engine) resolveAllLoc(env *SpecEnv, s string) []KeySort {
	parts := strings.Split(s, ".")
	if len(parts) < 2 {
		sfail("modifies all: expected Type.field")
	}
	t := e.resolveType(env.pkg, parts[0])
	key := e.rootKey(t)
	cur := t
	for _, f := range parts[1:] {
		_, ft, ok := fieldByName(cur, f)
		if !ok {
			sfail("modifies all: %s has no field %s", cur, f)
		}
		key += "." + f
		cur = ft
	}
	return e.leafKeys(key, cur, 0)
}

func (e *Engine) isPureMethod(m *types.Func) bool {
	recv := m.Type().(*types.Signature).Recv()
	if recv == nil {
		return false
	}
	pkg, name := ifaceName(recv.Type())
	if ps, ok := e.specs[pkg]; ok && ps.PureM[name+"."+m.Name()] {
		return true
	}
	return false
}

// pureMethodResult: the result of a pure interface method as an uninterpreted
// function of receiver and arguments.
func (e *Engine) pureMethodResult(st *State, m *types.Func, recv IfaceV, args []Value) Value {
	flat := e.flat(recv)
	for _, a := range args {
		flat = append(flat, e.flat(a)...)
	}
	var sorts []*Sort
	var sk []string
	for _, t := range flat {
		sorts = append(sorts, t.Sort)
		sk = append(sk, t.Sort.String())
	}
	mk := func(suffix string, rs *Sort) Term {
		f := e.ctx.Func("pm:"+m.FullName()+suffix+"/"+strings.Join(sk, ","), sorts, rs)
		var sb strings.Builder
		sb.WriteString("(" + f)
		for _, t := range flat {
			sb.WriteString(" " + t.S)
		}
		sb.WriteString(")")
		return T(sb.String(), rs)
	}
	sig := m.Type().(*types.Signature)
	if sig.Results().Len() != 1 {
		panic(unsupported("pure method with != 1 results: " + m.FullName()))
	}
	rt := sig.Results().At(0).Type()
	if rs, ok := e.scalarSort(rt); ok {
		r := mk("", rs)
		e.assumeTyped(st, r, rt)
		return r
	}
	if _, ok := rt.Underlying().(*types.Interface); ok {
		iv := IfaceV{Tag: mk("#tag", SInt), Pay: mk("#pay", SInt)}
		st.assume(Le(IntLit(0), iv.Tag))
		return iv
	}
	panic(unsupported("pure method result type " + rt.String()))
}

// assumeExternPost adds the declared assumptions about the result of an extern
// interface method ("assume Iface.Method ensures ...").
func (e *Engine) assumeExternPost(st *State, m *types.Func, rv Value) {
	recv := m.Type().(*types.Signature).Recv()
	if recv == nil {
		return
	}
	pkg, name := ifaceName(recv.Type())
	ps, ok := e.specs[pkg]
	if !ok {
		return
	}
	cls := ps.ExtPost[name+"."+m.Name()]
	if len(cls) == 0 {
		return
	}
	sig := m.Type().(*types.Signature)
	env := &SpecEnv{e: e, st: st, vars: map[string]Value{}, pkg: m.Pkg(), qn: &e.qn, hasRes: true, result: rv}
	if sig.Results().Len() == 1 {
		env.result = wrapTyped(rv, sig.Results().At(0).Type())
	}
	for _, c := range cls {
		st.assume(e.evalSpecBool(env, c.Expr))
		e.trustedUsed["assumed about results of "+m.FullName()+": "+c.Src] = true
	}
}

// pureDependencyCall: functions of a few side-effect-free standard packages
// whose parameters and results are all scalars are modelled as deterministic
// uninterpreted functions of their arguments.
var purePkgs = map[string]bool{"math": true, "strconv": true, "strings": true, "unicode": true, "unicode/utf8": true, "math/bits": true, "time": true}

func (e *Engine) pureDependencyCall(st *State, fn *ssa.Function, args []Value) (Value, bool) {
	p := pkgOf(fn)
	if p == nil || !purePkgs[p.Path()] {
		return nil, false
	}
	sig := fn.Signature
	if sig.Results().Len() != 1 {
		return nil, false
	}
	rs, ok := e.scalarSort(sig.Results().At(0).Type())
	if !ok {
		return nil, false
	}
	if _, isMap := sig.Results().At(0).Type().Underlying().(*types.Map); isMap {
		return nil, false
	}
	var flat []Term
	var sorts []*Sort
	for i, a := range args {
		t, ok := a.(Term)
		if !ok {
			return nil, false
		}
		var pt types.Type
		if sig.Recv() != nil {
			if i == 0 {
				pt = sig.Recv().Type()
			} else {
				pt = sig.Params().At(i - 1).Type()
			}
		} else {
			pt = sig.Params().At(i).Type()
		}
		switch pt.Underlying().(type) {
		case *types.Map, *types.Chan, *types.Pointer:
			return nil, false
		}
		flat = append(flat, t)
		sorts = append(sorts, t.Sort)
	}
	f := e.ctx.Func("dep:"+fn.String(), sorts, rs)
	var sb strings.Builder
	if len(flat) == 0 {
		sb.WriteString(f)
	} else {
		sb.WriteString("(" + f)
		for _, t := range flat {
			sb.WriteString(" " + t.S)
		}
		sb.WriteString(")")
	}
	r := T(sb.String(), rs)
	e.assumeTyped(st, r, sig.Results().At(0).Type())
	e.trustedUsed["dependency function "+fn.String()+" modelled as a deterministic uninterpreted function of its arguments"] = true
	return r, true
}
