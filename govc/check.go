package main

// `govc check`: the registered per-property check. Regenerates every
// obligation of the property from /repo's working tree, discharges them,
// compares with the committed ledger and known-findings file, prints
// KNOWN-FINDING / VIOLATION lines and writes the evidence file.

import (
	"encoding/json"
	"fmt"
	"golang.org/x/tools/go/ssa"
	"os"
	"path/filepath"
	"sort"
	"strings"
	"time"
)

type LedgerEntry struct {
	Name   string `json:"name"`
	Status string `json:"status"` // discharged | known-finding
}

type Ledger struct {
	Property    string        `json:"property"`
	Functions   []string      `json:"functions"`
	Obligations []LedgerEntry `json:"obligations"`
	Lemmas      []string      `json:"lemmas,omitempty"`
	// LoopKeys: for every verified function with two or more loops, the source
	// text of its loop headers in source order (see loopRemap)
	LoopKeys map[string][]string `json:"loop_keys,omitempty"`
}

type KnownFinding struct {
	Property   string `json:"property"`
	Obligation string `json:"obligation"`
	Status     string `json:"status"` // finding | fixed
	Witness    string `json:"witness"`
	Commit     string `json:"commit,omitempty"`
	Note       string `json:"note,omitempty"`
}

type checkOpts struct {
	repo, verif, prop, tier string
	timeout, workers        int
	writeLedger             bool
	seed                    int
	verbose                 bool
}

type aggOb struct {
	name    string
	queries []*Obligation
	verdict string // discharged refuted unknown
}

func runCheck(o checkOpts) int {
	t0 := time.Now()
	e, err := NewEngine(o.repo, []string{"./..."})
	if err != nil {
		fmt.Printf("BROKEN property=%s cannot load /repo: %v\n", o.prop, err)
		return 2
	}
	loadS := time.Since(t0).Seconds()
	if !o.writeLedger {
		if b, err := os.ReadFile(filepath.Join(o.verif, "ledger", o.prop+".json")); err == nil {
			var l0 Ledger
			if json.Unmarshal(b, &l0) == nil {
				e.ledgerLoopKeys = l0.LoopKeys
			}
		}
	}
	var results []*FuncResult
	var pkgs []string
	for p := range e.specs {
		pkgs = append(pkgs, p)
	}
	sort.Strings(pkgs)
	for _, p := range pkgs {
		ps := e.specs[p]
		for _, key := range ps.Order {
			c := ps.Contracts[key]
			if c.Trusted || c.Inline || !contains(c.Props, o.prop) {
				continue
			}
			fn := e.findFunc(p, key)
			if fn == nil {
				results = append(results, &FuncResult{Func: pkgBase(p) + "." + key, Props: c.Props, Undecided: "contract target not found in the current source"})
				continue
			}
			results = append(results, e.VerifyFunc(fn, c))
		}
		for _, lm := range ps.Lemmas {
			if lm.Axiom || !contains(lm.Props, o.prop) {
				continue
			}
			if msg := e.verifyLemma(ps, lm); msg != "" {
				results = append(results, &FuncResult{Func: "lemma " + lm.Name, Undecided: msg})
			}
		}
		for _, rt := range ps.RoundTrips {
			if contains(rt.Props, o.prop) {
				results = append(results, e.verifyRoundTrip(ps, rt))
			}
		}
	}
	results = append(results, e.verifyProtocols(o.prop)...)
	extra := e.extraChecks(o.prop)
	results = append(results, extra...)
	if b, err := os.ReadFile(filepath.Join(o.verif, "known_findings.json")); err == nil {
		var pre []KnownFinding
		if json.Unmarshal(b, &pre) == nil {
			for _, k := range pre {
				if k.Status == "finding" && k.Property == o.prop {
					knownFailing[k.Obligation] = true
				}
			}
		}
	}
	genS := time.Since(t0).Seconds() - loadS
	dir, _ := os.MkdirTemp("", "govc-"+o.prop)
	defer os.RemoveAll(dir)
	all := append(append([]*Obligation{}, e.obls...), e.covers...)
	t1 := time.Now()
	dischargeSeeded(all, dir, o.timeout, o.workers, o.seed)
	solveS := time.Since(t1).Seconds()
	if o.verbose {
		sl := append([]*Obligation{}, all...)
		sort.Slice(sl, func(i, j int) bool { return sl[i].Time > sl[j].Time })
		for i, ob := range sl {
			if i >= 25 {
				break
			}
			fmt.Fprintf(os.Stderr, "slow %6.1fs %-10s %-22s %s\n", ob.Time, ob.Verdict, ob.Solver, ob.Name)
		}
		fmt.Fprintf(os.Stderr, "load %.1fs gen %.1fs solve %.1fs queries %d\n", loadS, genS, solveS, len(all))
	}

	// the init-only discipline the proofs rely on (declared fields are stored only
	// through objects the storing function allocated itself, i.e. before
	// publication) is a syntactic engine check over the whole package; it belongs
	// to every property that verifies functions of that package
	{
		e.stableKeys()
		inPlay := map[string]bool{}
		for _, r := range results {
			if i := strings.Index(r.Func, "."); i > 0 {
				inPlay[r.Func[:i]] = true
			}
		}
		for _, ob := range e.initOnlyObls {
			if i := strings.Index(ob.Name, "."); i > 0 && inPlay[ob.Name[:i]] {
				c := *ob
				c.Props = []string{o.prop}
				e.engineObls = append(e.engineObls, &c)
			}
		}
	}

	// aggregate per obligation name
	agg := map[string]*aggOb{}
	var names []string
	for _, ob := range append(append([]*Obligation{}, e.obls...), e.engineObls...) {
		a := agg[ob.Name]
		if a == nil {
			a = &aggOb{name: ob.Name, verdict: "discharged"}
			agg[ob.Name] = a
			names = append(names, ob.Name)
		}
		a.queries = append(a.queries, ob)
		switch ob.Verdict {
		case "refuted":
			a.verdict = "refuted"
		case "unknown":
			if a.verdict != "refuted" {
				a.verdict = "unknown"
			}
		}
	}
	sort.Strings(names)

	ledgerPath := filepath.Join(o.verif, "ledger", o.prop+".json")
	if o.writeLedger {
		var l Ledger
		l.Property = o.prop
		for _, r := range results {
			if r.Undecided == "" {
				l.Functions = append(l.Functions, r.Func)
			}
		}
		seen := map[string]bool{}
		for _, n := range names {
			st := "discharged"
			if agg[n].verdict != "discharged" {
				st = "known-finding"
			}
			l.Obligations = append(l.Obligations, LedgerEntry{n, st})
			seen[n] = true
		}
		for n := range e.trivial {
			if !seen[n] {
				l.Obligations = append(l.Obligations, LedgerEntry{n, "discharged"})
			}
		}
		sort.Slice(l.Obligations, func(i, j int) bool { return l.Obligations[i].Name < l.Obligations[j].Name })
		l.LoopKeys = map[string][]string{}
		for fn := range e.loopCache {
			if len(e.loopCache[fn]) >= 1 {
				if hs := e.loopHeaders(fn); len(hs) == len(e.loopCache[fn]) {
					l.LoopKeys[fn.String()] = hs
				}
			}
		}
		os.MkdirAll(filepath.Dir(ledgerPath), 0o755)
		b, _ := json.MarshalIndent(l, "", " ")
		os.WriteFile(ledgerPath, append(b, '\n'), 0o644)
		fmt.Printf("ledger written: %s (%d obligations, %d functions)\n", ledgerPath, len(l.Obligations), len(l.Functions))
	}
	var ledger Ledger
	if b, err := os.ReadFile(ledgerPath); err == nil {
		json.Unmarshal(b, &ledger)
	}
	var kfs []KnownFinding
	if b, err := os.ReadFile(filepath.Join(o.verif, "known_findings.json")); err == nil {
		if err := json.Unmarshal(b, &kfs); err != nil {
			fmt.Printf("BROKEN property=%s known_findings.json: %v\n", o.prop, err)
			return 2
		}
	}
	isKnown := func(name string) *KnownFinding {
		for i := range kfs {
			if kfs[i].Property == o.prop && kfs[i].Obligation == name && kfs[i].Status == "finding" {
				return &kfs[i]
			}
		}
		return nil
	}

	exit := 0
	violations := 0
	var undecided []string
	for _, r := range results {
		if r.Undecided != "" {
			undecided = append(undecided, r.Func+": "+r.Undecided)
		}
	}
	// ledger functions / obligations that vanished
	have := map[string]bool{}
	for _, r := range results {
		if r.Undecided == "" {
			have[r.Func] = true
		}
	}
	for _, f := range ledger.Functions {
		if !have[f] {
			found := false
			for _, u := range undecided {
				if strings.HasPrefix(u, f+":") {
					found = true
				}
			}
			if !found {
				undecided = append(undecided, f+": function under contract in the ledger is no longer verified")
			}
		}
	}
	for _, le := range ledger.Obligations {
		if _, ok := agg[le.Name]; ok {
			continue
		}
		if _, ok := e.trivial[le.Name]; ok {
			continue
		}
		kind := le.Name[strings.LastIndex(le.Name, "/")+1:]
		if strings.HasPrefix(kind, "safe.") || strings.HasPrefix(kind, "pre.") || strings.HasPrefix(kind, "frame.") || strings.HasPrefix(kind, "unwind.") {
			continue // site-dependent obligations may legitimately disappear
		}
		fn := le.Name[:strings.LastIndex(le.Name, "/")]
		und := false
		for _, u := range undecided {
			if strings.HasPrefix(u, fn+":") {
				und = true
			}
		}
		if !und {
			undecided = append(undecided, fn+": ledger obligation "+le.Name+" is no longer generated")
		}
	}

	// A contract whose function has disappeared (renamed, turned into a function,
	// removed) leaves its callers calling something without a contract: the callee
	// is then executed in place and the caller's obligations were written against
	// the contract, not the body.  Failing obligations of such a caller cannot be
	// judged - the contract file needs maintenance first - so they make the caller
	// undecided instead of being reported as violations.  (A caller that merely
	// stops calling a function that still exists is NOT covered by this rule.)
	orphans := map[string][]string{}
	for p, ps := range e.specs {
		for _, key := range ps.Order {
			if c := ps.Contracts[key]; c != nil && !c.ExternDep && e.findFunc(p, key) == nil {
				orphans[p] = append(orphans[p], key)
			}
		}
	}
	if len(orphans) > 0 {
		for _, n := range names {
			a := agg[n]
			if a.verdict == "discharged" || isKnown(n) != nil || len(a.queries) == 0 {
				continue
			}
			fname := a.queries[0].Func
			var fn *ssa.Function
			for f := range e.allFuncs {
				_, rel := e.relName(f)
				if pkgOf(f) != nil && pkgBase(pkgOf(f).Path())+"."+rel == fname {
					fn = f
				}
			}
			if fn == nil || len(orphans[pkgOf(fn).Path()]) == 0 {
				continue
			}
			callee := ""
			for _, b := range fn.Blocks {
				for _, ins := range b.Instrs {
					if ci, ok := ins.(ssa.CallInstruction); ok {
						if g := ci.Common().StaticCallee(); g != nil && g.Blocks != nil && pkgOf(g) == pkgOf(fn) && e.contractOf(g) == nil {
							callee = g.Name()
						}
					}
				}
			}
			if callee == "" {
				continue
			}
			a.verdict = "undecided"
			msg := fmt.Sprintf("%s: obligation %s cannot be judged: the function calls %s, which has no contract, while the contract of %s has lost its function (renamed or removed?)", fname, n, callee, strings.Join(orphans[pkgOf(fn).Path()], ", "))
			dup := false
			for _, u := range undecided {
				if strings.HasPrefix(u, fname+":") {
					dup = true
				}
			}
			if !dup {
				undecided = append(undecided, msg)
			}
		}
	}

	// bounded drivers: replay / fall-back / thorough differential
	needDriver := o.tier == "thorough" || len(undecided) > 0 || quickTierDriver(o)
	for _, n := range names {
		if agg[n].verdict != "discharged" && isKnown(n) == nil {
			needDriver = true
		}
	}
	var drv []DriverRun
	// why the drivers run: timing-dependent stress sections of a driver run only
	// as a fall-back (an undecided function, a failing obligation) or in the
	// thorough tier, never as part of the routine quick check
	driverReason = "quick"
	if o.tier == "thorough" {
		driverReason = "thorough"
	} else if len(undecided) > 0 {
		driverReason = "fallback"
	} else {
		for _, n := range names {
			if agg[n].verdict != "discharged" && isKnown(n) == nil {
				driverReason = "fallback"
			}
		}
	}
	driverModelValues = nil
	for _, ob := range e.obls {
		if ob.Verdict == "refuted" && (ob.Kind == "roundtrip" || strings.HasPrefix(ob.Query, "(set-option :produce-models true)\n(set-logic QF_BV)")) {
			driverModelValues = append(driverModelValues, modelIntArgs(ob.Model)...)
		}
	}
	if needDriver {
		drv = runDrivers(o)
	}
	driverFailed := false
	for _, d := range drv {
		if d.Failed {
			driverFailed = true
		}
	}
	e.driverRuns = drv
	replayDir := filepath.Join(o.verif, "out", "replay")
	os.MkdirAll(replayDir, 0o755)
	nReplay := 0
	var samples []interface{}
	known := 0
	for _, n := range names {
		a := agg[n]
		if a.verdict == "discharged" || a.verdict == "undecided" {
			continue
		}
		if kf := isKnown(n); kf != nil {
			fmt.Printf("KNOWN-FINDING: property=%s %s %s\n", o.prop, n, kf.Witness)
			known++
			continue
		}
		// a failing obligation that is not a listed finding
		var bad *Obligation
		for _, q := range a.queries {
			if q.Verdict == "refuted" {
				bad = q
				break
			}
		}
		if bad == nil {
			for _, q := range a.queries {
				if q.Verdict == "unknown" {
					bad = q
					break
				}
			}
		}
		nReplay++
		rp := filepath.Join(replayDir, fmt.Sprintf("%s-%d.json", o.prop, nReplay))
		concrete := e.tryReplay(o, bad, rp) || driverFailed
		suffix := ""
		if !concrete {
			suffix = " no-failing-input-found"
		}
		fmt.Printf("VIOLATION property=%s replay=%s obligation=%s verdict=%s pos=%s%s\n", o.prop, rp, n, bad.Verdict, bad.Pos, suffix)
		violations++
		exit = 1
	}
	// vacuity guards
	vacuous := 0
	coverOK := map[string]bool{}
	var coverNames []string
	for _, c := range e.covers {
		if _, ok := coverOK[c.Name]; !ok {
			coverOK[c.Name] = false
			coverNames = append(coverNames, c.Name)
		}
		if c.Verdict != "vacuous" {
			coverOK[c.Name] = true
		}
	}
	for _, n := range coverNames {
		if !coverOK[n] && violations == 0 {
			fmt.Printf("BROKEN property=%s vacuity: %s: every path condition is unsatisfiable\n", o.prop, n)
			vacuous++
		}
	}
	if len(e.obls) == 0 && len(e.trivial) == 0 {
		fmt.Printf("BROKEN property=%s no obligations generated\n", o.prop)
		vacuous++
	}
	if exit == 0 && (vacuous > 0) {
		exit = 2
	}
	if violations == 0 && driverFailed {
		// no obligation could be blamed (undecided function, or thorough-tier
		// differential): the bounded driver found a concrete failing input on
		// the real code
		nReplay++
		rp := filepath.Join(replayDir, fmt.Sprintf("%s-%d.json", o.prop, nReplay))
		rec := map[string]interface{}{"property": o.prop, "obligation": "(none: found by the bounded driver)", "undecided": undecided, "drivers": drv, "concrete_failing_input": true}
		b, _ := json.MarshalIndent(rec, "", " ")
		os.WriteFile(rp, append(b, '\n'), 0o644)
		first := ""
		for _, d := range drv {
			if d.Failed && len(d.Fails) > 0 {
				first = d.Fails[0]
			}
		}
		fmt.Printf("VIOLATION property=%s replay=%s found-by=bounded-driver %s\n", o.prop, rp, printable(trunc(first, 200)))
		violations++
		exit = 1
	}
	for _, u := range undecided {
		fmt.Printf("UNDECIDED property=%s %s\n", o.prop, u)
	}
	if exit == 0 && len(undecided) > 0 {
		// The code of a function under contract has left the verifier's subset, its
		// contract no longer matches the source (a renamed local, a moved statement a
		// hook is anchored on), or an obligation of the ledger is no longer generated.
		// That is "not proved", not a violation: nothing that was explored (the other
		// functions, the bounded fall-back drivers) contradicts the property, so the
		// exit status stays 0; the evidence file of this run is downgraded from proof
		// and lists the undecided functions.
		ran := 0
		for _, d := range drv {
			if d.Ran {
				ran++
			}
		}
		fmt.Printf("NOT-PROVED property=%s %d function(s)/obligation(s) undecided on this tree (contract maintenance needed); no violation found in what was explored; bounded fall-back drivers run: %d\n", o.prop, len(undecided), ran)
	}
	// known findings that no longer fail must be re-classified by a human, not silently
	for _, kf := range kfs {
		if kf.Property == o.prop && kf.Status == "finding" {
			if a, ok := agg[kf.Obligation]; ok && a.verdict == "discharged" {
				fmt.Printf("NOTE property=%s known finding %s now discharges (canary no longer failing)\n", o.prop, kf.Obligation)
			}
		}
	}

	// evidence
	discharged, total := 0, 0
	bySolver := map[string]int{}
	solverTime := 0.0
	for _, n := range names {
		a := agg[n]
		if isKnown(n) != nil && a.verdict != "discharged" {
			continue
		}
		total++
		if a.verdict == "discharged" {
			discharged++
		}
	}
	for _, ob := range e.obls {
		solverTime += ob.Time
		if ob.Verdict == "discharged" {
			bySolver[ob.Solver]++
		}
	}
	triv := 0
	for n := range e.trivial {
		if _, ok := agg[n]; !ok {
			triv++
		}
	}
	for i, n := range names {
		if i%(len(names)/6+1) == 0 && len(samples) < 8 {
			q := agg[n].queries[0]
			samples = append(samples, map[string]interface{}{"obligation": n, "pos": q.Pos, "goal": trunc(q.Goal, 400), "verdict": agg[n].verdict, "solver": q.Solver, "queries": len(agg[n].queries)})
		}
	}
	var funcs, notes, inlined, usedC []string
	nset, iset, uset := map[string]bool{}, map[string]bool{}, map[string]bool{}
	for _, r := range results {
		if r.Undecided == "" {
			funcs = append(funcs, r.Func)
		}
		for _, x := range r.Notes {
			nset[x] = true
		}
		for _, x := range r.Inlined {
			iset[x] = true
		}
		for _, x := range r.Used {
			uset[x] = true
		}
	}
	notes, inlined, usedC = sortedKeys(nset), sortedKeys(iset), sortedKeys(uset)
	trusted := []string{
		"govc VC generator (this repository's /verif/govc) and its Go semantics; golang.org/x/tools go/ssa v0.29.0",
		"SMT solvers z3 4.8.12, z3 5.1.0, cvc5 1.0 (a verdict is accepted from any one of them)",
		"meta-argument: per-function obligations imply the property by induction over call histories (DESIGN.md §1)",
	}
	trusted = append(trusted, sortedKeys(e.trustedUsed)...)
	assumptions := append([]string{}, notes...)
	assumptions = append(assumptions, "integers: mathematical Int with exact wrap-around (wrapN) on every arithmetic result; floats: abstract sort with IEEE comparison semantics (NaN flag + monotone order key, +0 == -0); float arithmetic and int<->float conversions are uninterpreted functions (congruence only)")
	pkgsInPlay := map[string]bool{}
	for _, r := range results {
		if i := strings.Index(r.Func, "."); i > 0 {
			pkgsInPlay[r.Func[:i]] = true
		}
	}
	for _, ps := range e.specs {
		if !pkgsInPlay[pkgBase(ps.Pkg)] {
			continue // axioms of a package none of whose functions this property puts under contract
		}
		for _, lm := range ps.Lemmas {
			if lm.Axiom && (len(lm.Props) == 0 || contains(lm.Props, o.prop)) {
				assumptions = append(assumptions, "axiom "+lm.Name+": "+lm.Expr.String())
			}
		}
	}
	for _, x := range e.extraAssumptions[o.prop] {
		assumptions = append(assumptions, x)
	}
	for _, u := range usedC {
		for fn := range e.allFuncs {
			if fn.String() == u {
				if c := e.contractOf(fn); c != nil && c.Trusted {
					assumptions = append(assumptions, "TRUSTED (assumed, not verified) contract of "+u)
				}
			}
		}
	}
	sort.Strings(assumptions)
	cov := map[string]interface{}{
		"obligations":                        total + triv,
		"discharged":                         discharged + triv,
		"discharged_by_solver":               discharged,
		"discharged_syntactically_by_engine": triv,
		"smt_queries":                        len(e.obls),
		"known_findings":                     known,
		"checker_cmd":                        fmt.Sprintf("bin/govc check -property %s -tier %s  (per query: z3 4.8.12 | z3-new 5.1.0 | cvc5 1.0 raced, timeout %ds)", o.prop, o.tier, o.timeout),
		"trusted_base":                       trusted,
		"functions_under_contract":           funcs,
		"undecided_functions":                undecided,
		"queries_by_backend":                 bySolver,
		"solver_time_s":                      round2(solverTime),
		"load_s":                             round2(loadS),
		"vcgen_s":                            round2(genS),
		"solve_wall_s":                       round2(solveS),
		"inlined_callees":                    inlined,
		"callee_contracts_used":              usedC,
		"vacuity_covers":                     map[string]int{"covered": countVerdict(e.covers, "covered"), "vacuous": countVerdict(e.covers, "vacuous"), "unknown": countVerdict(e.covers, "cover-unknown")},
		"samples":                            samples,
		"ledger_obligations":                 len(ledger.Obligations),
		"explanation":                        "every obligation generated from /repo's working tree for the functions under contract of this property was sent to the solver portfolio; discharged == obligations means all were refuted-negation (unsat)",
	}
	if len(drv) > 0 {
		var ds []map[string]interface{}
		for _, d := range drv {
			ds = append(ds, map[string]interface{}{"driver": d.File, "package_dir": d.PkgDir, "ran": d.Ran, "failed": d.Failed, "seconds": round2(d.Seconds), "label": "bounded (small-scope enumeration); never counted as proved"})
		}
		cov["bounded_drivers"] = ds
	}
	for k, v := range e.extraCoverage[o.prop] {
		cov[k] = v
	}
	level := "proof"
	if len(undecided) > 0 {
		level = "other"
		cov["not_proved"] = true
		cov["explanation"] = fmt.Sprintf("NOT A PROOF ON THIS TREE: %d function(s)/obligation(s) under contract are undecided (listed under undecided_functions); the remaining obligations were discharged and the bounded fall-back drivers (if any) were run", len(undecided))
	}
	ev := map[string]interface{}{
		"property_id": o.prop,
		"tier":        o.tier,
		"seed":        o.seed,
		"level":       level,
		"coverage":    cov,
		"assumptions": assumptions,
		"wall_s":      round2(time.Since(t0).Seconds()),
		"violations":  violations,
	}
	os.MkdirAll(filepath.Join(o.verif, "evidence"), 0o755)
	b, _ := json.MarshalIndent(ev, "", " ")
	os.WriteFile(filepath.Join(o.verif, "evidence", o.prop+".json"), append(b, '\n'), 0o644)
	fmt.Printf("property=%s tier=%s functions=%d obligations=%d discharged=%d known-findings=%d violations=%d undecided=%d wall=%.1fs\n",
		o.prop, o.tier, len(funcs), total+triv, discharged+triv, known, violations, len(undecided), time.Since(t0).Seconds())
	if o.verbose {
		for _, n := range names {
			if agg[n].verdict != "discharged" {
				for _, q := range agg[n].queries {
					if q.Verdict != "discharged" {
						fmt.Printf("  %s %s %s\n     goal: %s\n", q.Verdict, n, q.Pos, trunc(q.Goal, 300))
						for _, t := range q.Trail {
							fmt.Println("       path:", t)
						}
					}
				}
			}
		}
	}
	return exit
}

func round2(f float64) float64 { return float64(int(f*100+0.5)) / 100 }

func countVerdict(l []*Obligation, v string) int {
	n := 0
	for _, o := range l {
		if o.Verdict == v {
			n++
		}
	}
	return n
}

// tryReplay writes the replay file for a failed obligation. Returns true when
// a concrete failing input was reproduced on the real code.
func (e *Engine) tryReplay(o checkOpts, ob *Obligation, path string) bool {
	rec := map[string]interface{}{
		"property":      o.prop,
		"obligation":    ob.Name,
		"kind":          ob.Kind,
		"pos":           ob.Pos,
		"verdict":       ob.Verdict,
		"goal":          ob.Goal,
		"path":          ob.Trail,
		"solver":        ob.Solver,
		"solver_output": ob.Output,
		"model":         ob.Model,
	}
	concrete := false
	if d, ok := replayDrivers[o.prop]; ok {
		res := d(e, o, ob)
		rec["replay"] = res
		if res != nil && res.Reproduced {
			concrete = true
		}
	}
	if len(e.driverRuns) > 0 {
		rec["drivers"] = e.driverRuns
		for _, d := range e.driverRuns {
			if d.Failed {
				concrete = true
			}
		}
	}
	rec["concrete_failing_input"] = concrete
	b, _ := json.MarshalIndent(rec, "", " ")
	os.WriteFile(path, append(b, '\n'), 0o644)
	return concrete
}

// printable keeps a line that other tools parse free of control and non-ASCII
// bytes (driver messages may quote arbitrary metric names).
func printable(s string) string {
	b := []byte(s)
	for i, c := range b {
		if c < 0x20 || c > 0x7e {
			b[i] = '?'
		}
	}
	return string(b)
}

type ReplayResult struct {
	Reproduced bool     `json:"reproduced"`
	Inputs     string   `json:"inputs"`
	Cmd        string   `json:"cmd"`
	Output     string   `json:"output"`
	Tried      []string `json:"tried,omitempty"`
}

var replayDrivers = map[string]func(e *Engine, o checkOpts, ob *Obligation) *ReplayResult{}

func dischargeSeeded(obls []*Obligation, dir string, timeoutS, workers, seed int) {
	solverSeed = seed % 1000000
	discharge(obls, dir, timeoutS, workers)
}

// quickTierDriver: a bounded driver whose header says "quick-tier: yes" (fast,
// deterministic, no I/O) also runs in the quick tier.  It stays a labelled
// bounded check; it never turns an undischarged obligation into a pass.
func quickTierDriver(o checkOpts) bool {
	ents, err := os.ReadDir(filepath.Join(o.verif, "drivers", o.prop))
	if err != nil {
		return false
	}
	for _, ent := range ents {
		b, err := os.ReadFile(filepath.Join(o.verif, "drivers", o.prop, ent.Name()))
		if err == nil && strings.Contains(string(b), "quick-tier: yes") {
			return true
		}
	}
	return false
}
