package main

// Round-trip harnesses over bit-vectors with the loops unrolled by operand width.
//
//	//@ roundtrip varint64 [C16]: encode (*TCompactProtocol).writeVarint64 decode (*TCompactProtocol).readVarint64 unroll 10
//
// The encoder's SSA is executed symbolically over its integer arguments (fixed
// width bit-vectors; loop counters, buffer indices and shift distances stay
// concrete because every loop is unrolled), forking at each symbolic branch.
// Every encoder path yields a path condition and the bytes handed to the
// transport's Write.  The decoder's SSA is then executed with exactly those
// bytes behind the transport's ReadByte.  Obligations (QF_BV, one query per pair
// of paths):
//   - the encoder cannot take more than `unroll` iterations (unwinding assertion:
//     with it the unrolling is complete, not a bound),
//   - the encoder never indexes its buffer out of range and calls Write once,
//   - the decoder never asks for a byte beyond the encoded ones, never needs more
//     than `unroll` iterations, consumes every encoded byte, reports no error
//     and returns the encoder's argument.
//
// Functions of the same package called from either side are executed in place
// (no contracts involved: this is a whole-path proof of a pair of small
// functions), so readVarint32 -> readVarint64 -> readByteDirect -> ReadByte is
// followed through the real code.

import (
	"fmt"
	"go/constant"
	"go/token"
	"go/types"
	"math"
	"regexp"
	"sort"
	"strconv"
	"strings"

	"golang.org/x/tools/go/ssa"
)

type RoundTrip struct {
	Name     string
	Props    []string
	Enc      string
	Dec      string
	Unroll   int
	WherePos string
	// Longest: an argument value whose encoding must have the maximal length
	// (`unroll` bytes); with the unwinding assertion this makes it an upper
	// bound of every encoding's length.
	Longest *int64
	// MaxLen: precondition on the length of a string argument (the wire format
	// carries lengths as int32).
	MaxLen *int64
	// Where: preconditions `where NAME in v1,v2,...` / `where NAME in lo..hi` on an
	// integer argument of the encoder or on an integer field of the receiver
	Where []rtWhere
}

type rtWhere struct {
	Name   string
	Vals   []int64
	Lo, Hi int64
	Range  bool
}

var endianRe = regexp.MustCompile(`^\(encoding/binary\.(little|big)Endian\)\.(Put)?Uint(16|32|64)$`)

var roundTripRe = regexp.MustCompile(`^encode\s+(\S+)\s+decode\s+(\S+)\s+unroll\s+(\d+)(?:\s+longest\s+(-?\d+))?(?:\s+maxlen\s+(\d+))?$`)

func parseRoundTrip(head, body, where string) (*RoundTrip, error) {
	var props []string
	if b := strings.Index(head, "["); b >= 0 {
		props = strings.Split(strings.Trim(head[b:], "[]"), ",")
		head = strings.TrimSpace(head[:b])
	}
	parts := strings.Split(strings.TrimSpace(body), " where ")
	body = parts[0]
	var wheres []rtWhere
	for _, w := range parts[1:] {
		f := strings.Fields(w)
		if len(f) != 3 || f[1] != "in" {
			return nil, fmt.Errorf("%s: roundtrip: want `where NAME in v1,v2,...` or `where NAME in lo..hi`", where)
		}
		wc := rtWhere{Name: f[0]}
		if i := strings.Index(f[2], ".."); i > 0 {
			wc.Range = true
			wc.Lo, _ = strconv.ParseInt(f[2][:i], 10, 64)
			wc.Hi, _ = strconv.ParseInt(f[2][i+2:], 10, 64)
		} else {
			for _, v := range strings.Split(f[2], ",") {
				n, err := strconv.ParseInt(v, 10, 64)
				if err != nil {
					return nil, fmt.Errorf("%s: roundtrip: where: %v", where, err)
				}
				wc.Vals = append(wc.Vals, n)
			}
		}
		wheres = append(wheres, wc)
	}
	m := roundTripRe.FindStringSubmatch(strings.TrimSpace(body))
	if m == nil {
		return nil, fmt.Errorf("%s: roundtrip: want `encode F decode G unroll N`", where)
	}
	n, _ := strconv.Atoi(m[3])
	rt := &RoundTrip{Name: head, Props: props, Enc: m[1], Dec: m[2], Unroll: n, Where: wheres, WherePos: where}
	if m[4] != "" {
		v, err := strconv.ParseInt(m[4], 10, 64)
		if err != nil {
			return nil, fmt.Errorf("%s: roundtrip: longest: %v", where, err)
		}
		rt.Longest = &v
	}
	if m[5] != "" {
		v, err := strconv.ParseInt(m[5], 10, 64)
		if err != nil {
			return nil, fmt.Errorf("%s: roundtrip: maxlen: %v", where, err)
		}
		rt.MaxLen = &v
	}
	return rt, nil
}

// values of the harness
type rtKind int

const (
	rtBV rtKind = iota
	rtBool
	rtNilErr
	rtOpaque // receiver, transport, defer stack ...
	rtBufPtr // pointer to the receiver's byte array
	rtSlice  // slice of a byte buffer with concrete bounds
	rtBytePtr
	rtTuple
	rtFieldPtr
	rtStr      // a string: symbolic length (bv, 64 bit signed); idx 1 = the bytes of the encoder's argument
	rtErr      // a non-nil error value
	rtSymSlice // a byte slice of symbolic length (bv); contents opaque
)

type rtVal struct {
	k     rtKind
	bv    bvVal
	konst *int64 // concrete value of an integer, when known
	b     string // boolean term
	bk    *bool  // concrete boolean, when known
	name  string
	buf   *rtBuf
	lo    int
	hi    int
	idx   int
	elems []rtVal
	glob  *ssa.Global
}

type rtBuf struct{ id int }

type rtFrame struct {
	fn     *ssa.Function
	env    map[ssa.Value]rtVal
	cells  map[*ssa.Alloc]rtVal
	visits map[*ssa.BasicBlock]int
	pred   *ssa.BasicBlock // the block control came from (for phi)
}

type rtState struct {
	pc       []string
	bufs     map[*rtBuf]map[int]bvVal
	out      []bvVal
	writes   int
	in       []bvVal
	pos      int
	over     bool             // a loop went beyond the unrolling
	starved  bool             // the decoder asked for a byte beyond the input
	panicked string           // index out of range etc.
	fields   map[string]rtVal // integer / boolean fields of the receiver (by name): current values
	side     []rtSide         // conditions that must hold on this path (bounds of symbolic slices ...)
	filled   map[string]bool  // symbolic slices (by length term) filled from the argument's bytes
}

// rtSide: under the path condition at that point, neg must be unsatisfiable.
type rtSide struct {
	pc    []string
	neg   string
	label string
}

// an item of the byte stream: a byte (w == 8) or a blob (w == rtBlob) of s bytes,
// the opaque contents of the encoder's string argument
const rtBlob = -1

func (s *rtState) require(neg, label string) {
	s.side = append(s.side, rtSide{pc: append([]string{}, s.pc...), neg: neg, label: label})
}

// remaining: number of bytes not yet consumed from the input, as a 64-bit term
func (s *rtState) remaining() string {
	n := 0
	t := ""
	for _, it := range s.in[s.pos:] {
		if it.w == rtBlob {
			if t == "" {
				t = it.s
			} else {
				t = "(bvadd " + t + " " + it.s + ")"
			}
		} else {
			n++
		}
	}
	if t == "" {
		return bvConst(int64(n), 64)
	}
	if n == 0 {
		return t
	}
	return "(bvadd " + t + " " + bvConst(int64(n), 64) + ")"
}

func (s *rtState) clone() *rtState {
	n := &rtState{pc: append([]string{}, s.pc...), out: append([]bvVal{}, s.out...), writes: s.writes, in: s.in, pos: s.pos,
		over: s.over, starved: s.starved, panicked: s.panicked, bufs: map[*rtBuf]map[int]bvVal{},
		side: append([]rtSide{}, s.side...), filled: map[string]bool{}}
	for k := range s.filled {
		n.filled[k] = true
	}
	if s.fields != nil {
		n.fields = map[string]rtVal{}
		for k, v := range s.fields {
			n.fields[k] = v
		}
	}
	for b, m := range s.bufs {
		c := map[int]bvVal{}
		for i, v := range m {
			c[i] = v
		}
		n.bufs[b] = c
	}
	return n
}

func (f *rtFrame) clone() *rtFrame {
	n := &rtFrame{fn: f.fn, env: map[ssa.Value]rtVal{}, cells: map[*ssa.Alloc]rtVal{}, visits: map[*ssa.BasicBlock]int{}, pred: f.pred}
	for k, v := range f.env {
		n.env[k] = v
	}
	for k, v := range f.cells {
		n.cells[k] = v
	}
	for k, v := range f.visits {
		n.visits[k] = v
	}
	return n
}

type rtRet struct {
	st  *rtState
	res []rtVal
}

type rtExec struct {
	e      *Engine
	pkg    *ssa.Package
	unroll int
	recv   *rtBuf
	steps  int
	// stateDecls: symbolic initial values of receiver fields read before written
	// (name -> width; 0 = Bool); the same symbols start the encoder and the decoder
	stateDecls map[string]int
	tables     map[*ssa.Global]map[int64]int64 // package-level maps with constant contents (from init)
}

func rtInt(n int64, w int, signed bool) rtVal {
	k := n
	return rtVal{k: rtBV, bv: bvVal{bvConst(n, w), w, signed}, konst: &k}
}

func rtWrap(n int64, w int, signed bool) int64 {
	if w >= 64 {
		return n
	}
	m := uint64(n) & (uint64(1)<<uint(w) - 1)
	if signed && m>>(uint(w)-1) == 1 {
		return int64(m) - int64(1)<<uint(w)
	}
	return int64(m)
}

func (x *rtExec) val(f *rtFrame, v ssa.Value) rtVal {
	if c, ok := v.(*ssa.Const); ok {
		if c.Value == nil {
			if types.IsInterface(c.Type()) {
				return rtVal{k: rtNilErr}
			}
			return rtVal{k: rtOpaque, name: "nil"}
		}
		if w, sg, ok := bvTypeOf(c.Type()); ok {
			if n, exact := constant.Int64Val(constant.ToInt(c.Value)); exact {
				return rtInt(n, w, sg)
			}
			u, _ := constant.Uint64Val(constant.ToInt(c.Value))
			return rtVal{k: rtBV, bv: bvVal{fmt.Sprintf("(_ bv%d %d)", u, w), w, sg}}
		}
		if c.Value.Kind() == constant.Float || (isFloat(c.Type()) && c.Value.Kind() == constant.Int) {
			fv, _ := constant.Float64Val(c.Value)
			return rtVal{k: rtBV, bv: bvVal{fmt.Sprintf("(_ bv%d 64)", math.Float64bits(fv)), 64, false}}
		}
		if c.Value.Kind() == constant.String {
			n := int64(len(constant.StringVal(c.Value)))
			return rtVal{k: rtStr, bv: bvVal{bvConst(n, 64), 64, true}, konst: &n}
		}
		if c.Value.Kind() == constant.Bool {
			b := constant.BoolVal(c.Value)
			return rtVal{k: rtBool, b: fmt.Sprint(b), bk: &b}
		}
		panic(unsupported("roundtrip: constant " + c.String()))
	}
	if r, ok := f.env[v]; ok {
		return r
	}
	if _, ok := v.(*ssa.Function); ok {
		return rtVal{k: rtOpaque, name: v.Name()}
	}
	if g, ok := v.(*ssa.Global); ok {
		return rtVal{k: rtFieldPtr, name: "global " + g.Name()}
	}
	panic(unsupported("roundtrip: value " + v.Name() + " (" + v.String() + ") in " + f.fn.String()))
}

// run executes fn on args and returns one entry per path reaching a return (or
// ending in over / starved / panicked).
func (x *rtExec) run(fn *ssa.Function, args []rtVal, st *rtState) []rtRet {
	if len(fn.Blocks) == 0 {
		panic(unsupported("roundtrip: no body for " + fn.String()))
	}
	f := &rtFrame{fn: fn, env: map[ssa.Value]rtVal{}, cells: map[*ssa.Alloc]rtVal{}, visits: map[*ssa.BasicBlock]int{}}
	for i, p := range fn.Params {
		f.env[p] = args[i]
	}
	return x.from(f, fn.Blocks[0], 0, st)
}

func (x *rtExec) from(f *rtFrame, b *ssa.BasicBlock, start int, st *rtState) []rtRet {
	for {
		if start == 0 {
			f.visits[b]++
			if f.visits[b] > x.unroll {
				st.over = true
				return []rtRet{{st: st}}
			}
		}
		var next *ssa.BasicBlock
		for i := start; i < len(b.Instrs); i++ {
			x.steps++
			if x.steps > 200000 {
				panic(unsupported("roundtrip: too many steps"))
			}
			switch ins := b.Instrs[i].(type) {
			case *ssa.DebugRef, *ssa.RunDefers:
			case *ssa.Alloc:
				f.env[ins] = rtVal{k: rtOpaque, name: "cell"}
			case *ssa.Store:
				switch a := ins.Addr.(type) {
				case *ssa.Alloc:
					f.cells[a] = x.val(f, ins.Val)
				default:
					p := x.val(f, ins.Addr)
					if p.k == rtFieldPtr && !strings.HasPrefix(p.name, "global ") {
						// a field of the receiver
						if st.fields == nil {
							st.fields = map[string]rtVal{}
						}
						st.fields[p.name] = x.val(f, ins.Val)
						continue
					}
					if p.k == rtOpaque {
						continue // element of such an array
					}
					if p.k != rtBytePtr {
						panic(unsupported("roundtrip: store through " + ins.Addr.String()))
					}
					v := x.val(f, ins.Val)
					if v.k != rtBV || v.bv.w != 8 {
						panic(unsupported("roundtrip: non-byte store"))
					}
					st.bufs[p.buf][p.idx] = v.bv
				}
			case *ssa.UnOp:
				switch ins.Op {
				case token.MUL:
					if a, ok := ins.X.(*ssa.Alloc); ok {
						c, ok := f.cells[a]
						if !ok {
							// zero value of the cell's type
							et := a.Type().Underlying().(*types.Pointer).Elem()
							if isString(et) {
								z := int64(0)
								c = rtVal{k: rtStr, bv: bvVal{bvConst(0, 64), 64, true}, konst: &z}
							} else if b, ok := et.Underlying().(*types.Basic); ok && b.Kind() == types.Bool {
								f0 := false
								c = rtVal{k: rtBool, b: "false", bk: &f0}
							} else if isFloat(et) {
								c = rtVal{k: rtBV, bv: bvVal{bvConst(0, 64), 64, false}}
							} else if w, sg, isInt := bvTypeOf(et); isInt {
								c = rtInt(0, w, sg)
							} else if types.IsInterface(et) {
								c = rtVal{k: rtNilErr}
							} else {
								c = rtVal{k: rtOpaque, name: "zero"}
							}
						}
						f.env[ins] = c
						continue
					}
					p := x.val(f, ins.X)
					switch p.k {
					case rtFieldPtr:
						if !strings.HasPrefix(p.name, "global ") {
							if v, ok := x.loadField(st, p.name, ins.Type()); ok {
								f.env[ins] = v
								continue
							}
						}
						if g, ok := ins.X.(*ssa.Global); ok {
							if _, isMap := ins.Type().Underlying().(*types.Map); isMap {
								f.env[ins] = rtVal{k: rtOpaque, name: "globalmap", glob: g}
								continue
							}
						}
						if it, ok := ins.Type().Underlying().(*types.Interface); ok && strings.HasPrefix(p.name, "global ") {
							isErr := false
							for i := 0; i < it.NumMethods(); i++ {
								if it.Method(i).Name() == "Error" {
									isErr = true
								}
							}
							if isErr {
								// package-level error values are non-nil sentinels
								f.env[ins] = rtVal{k: rtErr, name: p.name}
								continue
							}
						}
						f.env[ins] = rtVal{k: rtOpaque, name: p.name}
					case rtBytePtr:
						v, ok := st.bufs[p.buf][p.idx]
						if !ok {
							panic(unsupported("roundtrip: read of an unwritten buffer byte"))
						}
						f.env[ins] = rtVal{k: rtBV, bv: v}
					default:
						panic(unsupported("roundtrip: load through " + ins.X.String()))
					}
				case token.SUB, token.XOR:
					v := x.val(f, ins.X)
					op := "bvneg"
					if ins.Op == token.XOR {
						op = "bvnot"
					}
					r := rtVal{k: rtBV, bv: bvVal{"(" + op + " " + v.bv.s + ")", v.bv.w, v.bv.signed}}
					if v.konst != nil {
						n := -*v.konst
						if ins.Op == token.XOR {
							n = ^*v.konst
						}
						r = rtInt(rtWrap(n, v.bv.w, v.bv.signed), v.bv.w, v.bv.signed)
					}
					f.env[ins] = r
				case token.NOT:
					v := x.val(f, ins.X)
					r := rtVal{k: rtBool, b: "(not " + v.b + ")"}
					if v.bk != nil {
						nb := !*v.bk
						r = rtVal{k: rtBool, b: fmt.Sprint(nb), bk: &nb}
					}
					f.env[ins] = r
				default:
					panic(unsupported("roundtrip: unary " + ins.Op.String()))
				}
			case *ssa.BinOp:
				f.env[ins] = x.binop(ins, x.val(f, ins.X), x.val(f, ins.Y))
			case *ssa.Convert:
				v := x.val(f, ins.X)
				if v.k == rtSymSlice && isString(ins.Type()) {
					r := rtVal{k: rtStr, bv: v.bv}
					if st.filled[v.bv.s] {
						r.idx = 1
					}
					f.env[ins] = r
					continue
				}
				w, sg, ok := bvTypeOf(ins.Type())
				if !ok || v.k != rtBV {
					panic(unsupported("roundtrip: conversion to " + ins.Type().String()))
				}
				r := rtVal{k: rtBV, bv: bvVal{bvResize(v.bv, w), w, sg}}
				if v.konst != nil {
					r = rtInt(rtWrap(*v.konst, w, sg), w, sg)
				}
				f.env[ins] = r
			case *ssa.Phi:
				k := -1
				for i, p := range b.Preds {
					if p == f.pred {
						k = i
					}
				}
				if k < 0 {
					panic(unsupported("roundtrip: phi without a known predecessor"))
				}
				f.env[ins] = x.val(f, ins.Edges[k])
			case *ssa.Lookup:
				f.env[ins] = x.lookup(f, ins)
			case *ssa.ChangeType:
				f.env[ins] = x.val(f, ins.X)
			case *ssa.ChangeInterface:
				f.env[ins] = x.val(f, ins.X)
			case *ssa.MakeInterface:
				f.env[ins] = x.val(f, ins.X)
			case *ssa.MakeSlice:
				n := x.val(f, ins.Len)
				if n.k != rtBV || !isByteSlice(ins.Type()) {
					panic(unsupported("roundtrip: make of " + ins.Type().String()))
				}
				l := bvVal{bvResize(n.bv, 64), 64, true}
				st.require("(bvslt "+l.s+" "+bvConst(0, 64)+")", "make([]byte, n) with negative n at "+x.e.pos(ins.Pos()))
				f.env[ins] = rtVal{k: rtSymSlice, bv: l}
			case *ssa.FieldAddr:
				fld := ins.X.Type().Underlying().(*types.Pointer).Elem().Underlying().(*types.Struct).Field(ins.Field)
				if at, ok := fld.Type().Underlying().(*types.Array); ok {
					if bt, ok := at.Elem().Underlying().(*types.Basic); ok && bt.Kind() == types.Uint8 {
						f.env[ins] = rtVal{k: rtBufPtr, buf: x.recv, hi: int(at.Len()), name: fld.Name()}
						continue
					}
				}
				f.env[ins] = rtVal{k: rtFieldPtr, name: fld.Name()}
			case *ssa.Slice:
				base := x.val(f, ins.X)
				if base.k == rtOpaque {
					f.env[ins] = rtVal{k: rtOpaque, name: "slice"}
					continue
				}
				lo, hi := 0, base.hi
				if base.k == rtSlice {
					lo = 0
					hi = base.hi - base.lo
				} else if base.k != rtBufPtr {
					panic(unsupported("roundtrip: slice of " + ins.X.String()))
				}
				if ins.Low != nil {
					v := x.val(f, ins.Low)
					if v.konst == nil {
						panic(unsupported("roundtrip: symbolic slice bound"))
					}
					lo = int(*v.konst)
				}
				if ins.High != nil {
					v := x.val(f, ins.High)
					if v.konst == nil {
						if base.k != rtBufPtr || lo != 0 || v.k != rtBV {
							panic(unsupported("roundtrip: symbolic slice bound"))
						}
						l := bvVal{bvResize(v.bv, 64), 64, true}
						st.require("(or (bvslt "+l.s+" "+bvConst(0, 64)+") (bvsgt "+l.s+" "+bvConst(int64(base.hi), 64)+"))",
							fmt.Sprintf("slice bounds [0:n] of a %d-byte buffer at %s", base.hi, x.e.pos(ins.Pos())))
						f.env[ins] = rtVal{k: rtSymSlice, bv: l}
						continue
					}
					hi = int(*v.konst)
				}
				capHi := base.hi
				off := 0
				if base.k == rtSlice {
					off = base.lo
					capHi = base.hi - base.lo // slicing beyond len up to cap is not needed here
				}
				if lo < 0 || hi < lo || hi > capHi {
					st.panicked = fmt.Sprintf("slice bounds out of range [%d:%d] with capacity %d at %s", lo, hi, capHi, x.e.pos(ins.Pos()))
					return []rtRet{{st: st}}
				}
				f.env[ins] = rtVal{k: rtSlice, buf: base.buf, lo: off + lo, hi: off + hi}
			case *ssa.IndexAddr:
				s := x.val(f, ins.X)
				if s.k == rtOpaque {
					// an array the code builds for a variadic call (error formatting): not data
					f.env[ins] = rtVal{k: rtOpaque, name: "elem"}
					continue
				}
				iv := x.val(f, ins.Index)
				if s.k != rtSlice || iv.konst == nil {
					panic(unsupported("roundtrip: index " + ins.String() + " in " + f.fn.String()))
				}
				if *iv.konst < 0 || int(*iv.konst) >= s.hi-s.lo {
					st.panicked = fmt.Sprintf("index out of range [%d] with length %d at %s", *iv.konst, s.hi-s.lo, x.e.pos(ins.Pos()))
					return []rtRet{{st: st}}
				}
				f.env[ins] = rtVal{k: rtBytePtr, buf: s.buf, idx: s.lo + int(*iv.konst)}
			case *ssa.Extract:
				t := x.val(f, ins.Tuple)
				f.env[ins] = t.elems[ins.Index]
			case *ssa.Call:
				rets := x.call(f, ins, st)
				if rets == nil {
					continue
				}
				var out []rtRet
				for j, r := range rets {
					if r.st.over || r.st.starved || r.st.panicked != "" {
						out = append(out, rtRet{st: r.st})
						continue
					}
					nf := f
					if j < len(rets)-1 {
						nf = f.clone()
					}
					switch len(r.res) {
					case 0:
					case 1:
						nf.env[ins] = r.res[0]
					default:
						nf.env[ins] = rtVal{k: rtTuple, elems: r.res}
					}
					out = append(out, x.from(nf, b, i+1, r.st)...)
				}
				return out
			case *ssa.Jump:
				next = b.Succs[0]
			case *ssa.If:
				c := x.val(f, ins.Cond)
				if c.bk != nil {
					if *c.bk {
						next = b.Succs[0]
					} else {
						next = b.Succs[1]
					}
					break
				}
				f.pred = b
				f2, st2 := f.clone(), st.clone()
				st.pc = append(st.pc, c.b)
				st2.pc = append(st2.pc, "(not "+c.b+")")
				out := x.from(f, b.Succs[0], 0, st)
				return append(out, x.from(f2, b.Succs[1], 0, st2)...)
			case *ssa.Return:
				var res []rtVal
				for _, r := range ins.Results {
					res = append(res, x.val(f, r))
				}
				return []rtRet{{st: st, res: res}}
			default:
				panic(unsupported(fmt.Sprintf("roundtrip: instruction %T in %s", ins, f.fn)))
			}
		}
		if next == nil {
			panic(unsupported("roundtrip: block without successor in " + f.fn.String()))
		}
		f.pred = b
		b, start = next, 0
	}
}

func (x *rtExec) binop(ins *ssa.BinOp, l, r rtVal) rtVal {
	switch ins.Op {
	case token.EQL, token.NEQ, token.LSS, token.LEQ, token.GTR, token.GEQ:
		if (l.k == rtNilErr || l.k == rtErr) && (r.k == rtNilErr || r.k == rtErr) && (l.k == rtNilErr || r.k == rtNilErr) {
			b := (l.k == r.k) == (ins.Op == token.EQL)
			return rtVal{k: rtBool, b: fmt.Sprint(b), bk: &b}
		}
		if l.k == rtNilErr || r.k == rtNilErr {
			if l.k != r.k {
				panic(unsupported("roundtrip: comparison of an unknown error value"))
			}
			b := ins.Op == token.EQL
			return rtVal{k: rtBool, b: fmt.Sprint(b), bk: &b}
		}
		if l.k != rtBV || r.k != rtBV {
			panic(unsupported("roundtrip: comparison " + ins.String()))
		}
		if l.konst != nil && r.konst != nil {
			a, c := *l.konst, *r.konst
			var b bool
			if !l.bv.signed && l.bv.w == 64 {
				ua, uc := uint64(a), uint64(c)
				b = map[token.Token]bool{token.EQL: ua == uc, token.NEQ: ua != uc, token.LSS: ua < uc, token.LEQ: ua <= uc, token.GTR: ua > uc, token.GEQ: ua >= uc}[ins.Op]
			} else {
				b = map[token.Token]bool{token.EQL: a == c, token.NEQ: a != c, token.LSS: a < c, token.LEQ: a <= c, token.GTR: a > c, token.GEQ: a >= c}[ins.Op]
			}
			return rtVal{k: rtBool, b: fmt.Sprint(b), bk: &b}
		}
		rs := bvResize(r.bv, l.bv.w)
		var t string
		switch ins.Op {
		case token.EQL:
			t = "(= " + l.bv.s + " " + rs + ")"
		case token.NEQ:
			t = "(not (= " + l.bv.s + " " + rs + "))"
		default:
			op := map[token.Token]string{token.LSS: "bvslt", token.LEQ: "bvsle", token.GTR: "bvsgt", token.GEQ: "bvsge"}[ins.Op]
			if !l.bv.signed {
				op = map[token.Token]string{token.LSS: "bvult", token.LEQ: "bvule", token.GTR: "bvugt", token.GEQ: "bvuge"}[ins.Op]
			}
			t = "(" + op + " " + l.bv.s + " " + rs + ")"
		}
		return rtVal{k: rtBool, b: t}
	}
	if l.k != rtBV || r.k != rtBV {
		panic(unsupported("roundtrip: binary " + ins.String()))
	}
	w, sg := l.bv.w, l.bv.signed
	// the shift distance has its own type: bring it to the operand's width
	// (unsigned distances only; a distance >= w gives 0 / sign fill in Go and in SMT-LIB alike)
	rs := bvResize(r.bv, w)
	if ins.Op == token.SHL || ins.Op == token.SHR {
		if r.bv.signed && r.konst == nil {
			panic(unsupported("roundtrip: symbolic signed shift distance"))
		}
		if r.bv.w > w && r.konst == nil {
			panic(unsupported("roundtrip: symbolic shift distance wider than the operand"))
		}
		if r.konst != nil {
			d := *r.konst
			if d < 0 {
				panic(unsupported("roundtrip: negative shift"))
			}
			if d > int64(w) {
				d = int64(w)
			}
			rs = bvConst(d, w)
		}
	}
	var op string
	switch ins.Op {
	case token.ADD:
		op = "bvadd"
	case token.SUB:
		op = "bvsub"
	case token.MUL:
		op = "bvmul"
	case token.AND:
		op = "bvand"
	case token.OR:
		op = "bvor"
	case token.XOR:
		op = "bvxor"
	case token.SHL:
		op = "bvshl"
	case token.SHR:
		op = "bvlshr"
		if sg {
			op = "bvashr"
		}
	case token.AND_NOT:
		return rtVal{k: rtBV, bv: bvVal{"(bvand " + l.bv.s + " (bvnot " + rs + "))", w, sg}}
	default:
		panic(unsupported("roundtrip: binary " + ins.Op.String()))
	}
	out := rtVal{k: rtBV, bv: bvVal{"(" + op + " " + l.bv.s + " " + rs + ")", w, sg}}
	if l.konst != nil && r.konst != nil && (ins.Op == token.ADD || ins.Op == token.SUB) {
		n := *l.konst + *r.konst
		if ins.Op == token.SUB {
			n = *l.konst - *r.konst
		}
		return rtInt(rtWrap(n, w, sg), w, sg)
	}
	return out
}

func (x *rtExec) call(f *rtFrame, ins *ssa.Call, st *rtState) []rtRet {
	cc := ins.Call
	if cc.IsInvoke() {
		switch cc.Method.Name() {
		case "Write":
			s := x.val(f, cc.Args[0])
			if s.k != rtSlice {
				panic(unsupported("roundtrip: Write of " + cc.Args[0].String()))
			}
			for i := s.lo; i < s.hi; i++ {
				v, ok := st.bufs[s.buf][i]
				if !ok {
					panic(unsupported("roundtrip: Write of an unwritten buffer byte"))
				}
				st.out = append(st.out, v)
			}
			st.writes++
			return []rtRet{{st: st, res: []rtVal{rtInt(int64(s.hi-s.lo), 64, true), {k: rtNilErr}}}}
		case "WriteByte":
			b := x.val(f, cc.Args[0])
			if b.k != rtBV || b.bv.w != 8 {
				panic(unsupported("roundtrip: WriteByte of " + cc.Args[0].String()))
			}
			st.out = append(st.out, b.bv)
			st.writes++
			return []rtRet{{st: st, res: []rtVal{{k: rtNilErr}}}}
		case "WriteString":
			s := x.val(f, cc.Args[0])
			if s.k != rtStr {
				panic(unsupported("roundtrip: WriteString of " + cc.Args[0].String()))
			}
			st.out = append(st.out, bvVal{s.bv.s, rtBlob, false})
			st.writes++
			r := rtVal{k: rtBV, bv: s.bv, konst: s.konst}
			return []rtRet{{st: st, res: []rtVal{r, {k: rtNilErr}}}}
		case "RemainingBytes":
			return []rtRet{{st: st, res: []rtVal{{k: rtBV, bv: bvVal{st.remaining(), 64, false}}}}}
		case "ReadByte":
			if st.pos < len(st.in) && st.in[st.pos].w == rtBlob {
				// a byte of the string's contents would be taken for protocol data
				st.starved = true
				return []rtRet{{st: st}}
			}
			if st.pos >= len(st.in) {
				st.starved = true
				return []rtRet{{st: st}}
			}
			v := st.in[st.pos]
			st.pos++
			return []rtRet{{st: st, res: []rtVal{{k: rtBV, bv: v}, {k: rtNilErr}}}}
		}
		panic(unsupported("roundtrip: interface call " + cc.Method.Name()))
	}
	if b, ok := cc.Value.(*ssa.Builtin); ok {
		if strings.HasPrefix(b.Name(), "ssa:") {
			f.env[ins] = rtVal{k: rtOpaque, name: b.Name()}
			return nil
		}
		if b.Name() == "len" {
			a := x.val(f, cc.Args[0])
			switch a.k {
			case rtStr, rtSymSlice:
				f.env[ins] = rtVal{k: rtBV, bv: a.bv, konst: a.konst}
				return nil
			case rtSlice:
				f.env[ins] = rtInt(int64(a.hi-a.lo), 64, true)
				return nil
			}
		}
		panic(unsupported("roundtrip: builtin " + b.Name()))
	}
	callee := cc.StaticCallee()
	if callee != nil && callee.Name() == "NewTProtocolException" && len(cc.Args) == 1 {
		// wraps a non-nil error into a non-nil error, maps nil to nil
		if a := x.val(f, cc.Args[0]); a.k == rtErr || a.k == rtNilErr {
			return []rtRet{{st: st, res: []rtVal{a}}}
		}
	}
	if callee != nil && callee.Pkg != x.pkg && callee.Signature.Results().Len() == 1 && !strings.HasPrefix(callee.String(), "math.") && !strings.HasPrefix(callee.String(), "(encoding/binary.") {
		if it, ok := callee.Signature.Results().At(0).Type().Underlying().(*types.Interface); ok {
			for i := 0; i < it.NumMethods(); i++ {
				if it.Method(i).Name() == "Error" {
					// a dependency function that builds an error value (fmt.Errorf, errors.New)
					return []rtRet{{st: st, res: []rtVal{{k: rtErr, name: callee.String()}}}}
				}
			}
		}
	}
	if callee != nil {
		switch callee.String() {
		case "math.Float64bits", "math.Float64frombits":
			// a float64 is carried as its IEEE bit pattern: both are the identity here
			v := x.val(f, cc.Args[0])
			if v.k != rtBV || v.bv.w != 64 {
				panic(unsupported("roundtrip: " + callee.String() + " of " + cc.Args[0].String()))
			}
			return []rtRet{{st: st, res: []rtVal{{k: rtBV, bv: bvVal{v.bv.s, 64, false}}}}}
		}
		if m := endianRe.FindStringSubmatch(callee.String()); m != nil {
			// ASSUMED contract of encoding/binary: the fixed-width byte split / join
			big := m[1] == "big"
			w, _ := strconv.Atoi(m[3])
			nb := w / 8
			sl := x.val(f, cc.Args[1])
			if sl.k != rtSlice {
				panic(unsupported("roundtrip: " + callee.String() + " on " + cc.Args[1].String()))
			}
			if sl.hi-sl.lo < nb {
				st.panicked = fmt.Sprintf("%s on a slice of %d bytes", callee.Name(), sl.hi-sl.lo)
				return []rtRet{{st: st}}
			}
			pos := func(i int) int { // buffer position of byte i (i = 0: least significant)
				if big {
					return sl.lo + nb - 1 - i
				}
				return sl.lo + i
			}
			if m[2] == "Put" {
				v := x.val(f, cc.Args[2])
				if v.k != rtBV || v.bv.w != w {
					panic(unsupported("roundtrip: " + callee.String() + " value"))
				}
				for i := 0; i < nb; i++ {
					st.bufs[sl.buf][pos(i)] = bvVal{fmt.Sprintf("((_ extract %d %d) %s)", 8*i+7, 8*i, v.bv.s), 8, false}
				}
				return []rtRet{{st: st}}
			}
			t := ""
			for i := nb - 1; i >= 0; i-- {
				b, ok := st.bufs[sl.buf][pos(i)]
				if !ok {
					panic(unsupported("roundtrip: " + callee.String() + " of an unwritten buffer byte"))
				}
				if t == "" {
					t = b.s
				} else {
					t = "(concat " + t + " " + b.s + ")"
				}
			}
			return []rtRet{{st: st, res: []rtVal{{k: rtBV, bv: bvVal{t, w, false}}}}}
		}
	}
	if callee != nil && callee.String() == "io.ReadFull" {
		if sl := x.val(f, cc.Args[1]); sl.k == rtSlice {
			// a slice of concrete length: that many protocol bytes go into the buffer
			n := sl.hi - sl.lo
			for i := 0; i < n; i++ {
				if st.pos >= len(st.in) || st.in[st.pos].w == rtBlob {
					st.starved = true
					return []rtRet{{st: st}}
				}
				st.bufs[sl.buf][sl.lo+i] = st.in[st.pos]
				st.pos++
			}
			return []rtRet{{st: st, res: []rtVal{rtInt(int64(n), 64, true), {k: rtNilErr}}}}
		}
		buf := x.val(f, cc.Args[1])
		if buf.k != rtSymSlice {
			panic(unsupported("roundtrip: io.ReadFull into " + cc.Args[1].String()))
		}
		if st.pos >= len(st.in) || st.in[st.pos].w != rtBlob {
			// protocol bytes would be taken for the string's contents (or nothing is left)
			st.starved = true
			return []rtRet{{st: st}}
		}
		blob := st.in[st.pos]
		// the blob must hold that many bytes (else ErrUnexpectedEOF), and what is
		// left of it afterwards is accounted for by the final obligation
		st.require("(bvsgt "+buf.bv.s+" "+blob.s+")", "io.ReadFull asks for more bytes than the string has")
		st.filled[buf.bv.s] = true
		rest := "(bvsub " + blob.s + " " + buf.bv.s + ")"
		in := append([]bvVal{}, st.in...)
		in[st.pos] = bvVal{rest, rtBlob, false}
		st.in = in
		return []rtRet{{st: st, res: []rtVal{{k: rtBV, bv: buf.bv}, {k: rtNilErr}}}}
	}
	if callee == nil || callee.Pkg != x.pkg {
		panic(unsupported("roundtrip: call of " + cc.Value.String()))
	}
	var args []rtVal
	for _, a := range cc.Args {
		args = append(args, x.val(f, a))
	}
	return x.run(callee, args, st)
}

// loadField: the current value of an integer or boolean field of the receiver; a
// field read before it is written gets a symbolic initial value shared by the
// encoder and the decoder run.
func (x *rtExec) loadField(st *rtState, name string, t types.Type) (rtVal, bool) {
	if v, ok := st.fields[name]; ok {
		return v, true
	}
	if w, sg, ok := bvTypeOf(t); ok {
		sym := "st_" + name
		x.stateDecls[sym] = w
		return rtVal{k: rtBV, bv: bvVal{sym, w, sg}}, true
	}
	if b, ok := t.Underlying().(*types.Basic); ok && b.Kind() == types.Bool {
		sym := "st_" + name
		x.stateDecls[sym] = 0
		return rtVal{k: rtBool, b: sym}, true
	}
	return rtVal{}, false
}

// lookup: m[k] on a package-level map whose contents are the constant entries
// stored by the package's init function (missing key: zero).
func (x *rtExec) lookup(f *rtFrame, ins *ssa.Lookup) rtVal {
	m := x.val(f, ins.X)
	if m.glob == nil || ins.CommaOk {
		panic(unsupported("roundtrip: lookup " + ins.String()))
	}
	tab, ok := x.tables[m.glob]
	if !ok {
		tab = x.scanTable(m.glob)
		x.tables[m.glob] = tab
	}
	if tab == nil {
		panic(unsupported("roundtrip: contents of " + m.glob.Name() + " are not constant entries of init"))
	}
	k := x.val(f, ins.Index)
	w, sg, ok := bvTypeOf(ins.Type())
	if k.k != rtBV || !ok {
		panic(unsupported("roundtrip: lookup key/value types"))
	}
	var keys []int64
	for kk := range tab {
		keys = append(keys, kk)
	}
	sort.Slice(keys, func(i, j int) bool { return keys[i] < keys[j] })
	t := bvConst(0, w)
	for _, kk := range keys {
		t = "(ite (= " + k.bv.s + " " + bvConst(kk, k.bv.w) + ") " + bvConst(tab[kk], w) + " " + t + ")"
	}
	return rtVal{k: rtBV, bv: bvVal{t, w, sg}}
}

// scanTable: the constant entries init stores into the map assigned to g.
func (x *rtExec) scanTable(g *ssa.Global) map[int64]int64 {
	var mk ssa.Value
	for _, mem := range x.pkg.Members {
		fn, ok := mem.(*ssa.Function)
		if !ok || !strings.HasPrefix(fn.Name(), "init") {
			continue
		}
		for _, b := range fn.Blocks {
			for _, ins := range b.Instrs {
				if st, ok := ins.(*ssa.Store); ok && st.Addr == ssa.Value(g) {
					if mk != nil {
						return nil // assigned twice
					}
					mk = st.Val
				}
			}
		}
	}
	if _, ok := mk.(*ssa.MakeMap); !ok {
		return nil
	}
	out := map[int64]int64{}
	for _, ref := range *mk.(*ssa.MakeMap).Referrers() {
		switch u := ref.(type) {
		case *ssa.MapUpdate:
			kc, ok1 := u.Key.(*ssa.Const)
			vc, ok2 := u.Value.(*ssa.Const)
			if !ok1 || !ok2 || kc.Value == nil || vc.Value == nil {
				return nil
			}
			k, e1 := constant.Int64Val(constant.ToInt(kc.Value))
			v, e2 := constant.Int64Val(constant.ToInt(vc.Value))
			if !e1 || !e2 {
				return nil
			}
			out[k] = v
		case *ssa.Store, *ssa.DebugRef:
		default:
			return nil
		}
	}
	// nothing else may assign the variable or update the map it holds
	for fn := range x.e.allFuncs {
		if fn.Pkg != x.pkg || strings.HasPrefix(fn.Name(), "init") {
			continue
		}
		for _, b := range fn.Blocks {
			for _, ins := range b.Instrs {
				switch u := ins.(type) {
				case *ssa.Store:
					if u.Addr == ssa.Value(g) {
						return nil
					}
				case *ssa.MapUpdate:
					if ld, ok := u.Map.(*ssa.UnOp); ok && ld.X == ssa.Value(g) {
						return nil
					}
				}
			}
		}
	}
	return out
}

// whereTerms: the preconditions on one named integer.
func whereTerms(ws []rtWhere, name string, v bvVal) []string {
	var out []string
	for _, w := range ws {
		if w.Name != name {
			continue
		}
		if w.Range {
			le, ge := "bvsle", "bvsge"
			if !v.signed {
				le, ge = "bvule", "bvuge"
			}
			out = append(out, "("+ge+" "+v.s+" "+bvConst(w.Lo, v.w)+")", "("+le+" "+v.s+" "+bvConst(w.Hi, v.w)+")")
			continue
		}
		var alts []string
		for _, n := range w.Vals {
			alts = append(alts, "(= "+v.s+" "+bvConst(n, v.w)+")")
		}
		out = append(out, "(or "+strings.Join(alts, " ")+" false)")
	}
	return out
}

// stateDeclText: declarations (and where-preconditions) of the symbolic initial
// values of receiver fields that were read before being written.
func (x *rtExec) stateDeclText(ws []rtWhere) string {
	var names []string
	for n := range x.stateDecls {
		names = append(names, n)
	}
	sort.Strings(names)
	var sb strings.Builder
	for _, n := range names {
		w := x.stateDecls[n]
		if w == 0 {
			sb.WriteString("(declare-fun " + n + " () Bool)\n")
			// a precondition on a boolean field: `where f in 0` (false) / `where f in 1` (true)
			for _, wh := range ws {
				if wh.Name != strings.TrimPrefix(n, "st_") || wh.Range || len(wh.Vals) != 1 {
					continue
				}
				if wh.Vals[0] == 0 {
					sb.WriteString("(assert (not " + n + "))\n")
				} else {
					sb.WriteString("(assert " + n + ")\n")
				}
			}
			continue
		}
		sb.WriteString(fmt.Sprintf("(declare-fun %s () (_ BitVec %d))\n", n, w))
		for _, t := range whereTerms(ws, strings.TrimPrefix(n, "st_"), bvVal{n, w, true}) {
			sb.WriteString("(assert " + t + ")\n")
		}
	}
	return sb.String()
}

func isByteSlice(t types.Type) bool {
	sl, ok := t.Underlying().(*types.Slice)
	if !ok {
		return false
	}
	b, ok := sl.Elem().Underlying().(*types.Basic)
	return ok && b.Kind() == types.Uint8
}

// verifyRoundTrip generates the obligations of one roundtrip directive.
func (e *Engine) verifyRoundTrip(ps *PkgSpec, rt *RoundTrip) (res *FuncResult) {
	res = &FuncResult{Func: pkgBase(ps.Pkg) + ".roundtrip " + rt.Name, Props: rt.Props}
	defer func() {
		if r := recover(); r != nil {
			switch x := r.(type) {
			case specErr:
				res.Undecided = x.Error()
			case unsupportedErr:
				res.Undecided = x.Error()
			default:
				panic(r)
			}
		}
	}()
	enc, dec := e.findFunc(ps.Pkg, rt.Enc), e.findFunc(ps.Pkg, rt.Dec)
	if enc == nil || dec == nil {
		res.Undecided = "roundtrip: encode/decode function not found in the current source"
		return res
	}
	x := &rtExec{e: e, pkg: enc.Pkg, unroll: rt.Unroll, recv: &rtBuf{id: 1}, stateDecls: map[string]int{}, tables: map[*ssa.Global]map[int64]int64{}}
	var decls, pre []string
	var args []rtVal
	var dataArgs []rtVal
	for _, p := range enc.Params {
		if w, sg, ok := bvTypeOf(p.Type()); ok {
			name := "arg_" + p.Name()
			decls = append(decls, fmt.Sprintf("(declare-fun %s () (_ BitVec %d))", name, w))
			v := rtVal{k: rtBV, bv: bvVal{name, w, sg}}
			args = append(args, v)
			dataArgs = append(dataArgs, v)
			pre = append(pre, whereTerms(rt.Where, p.Name(), v.bv)...)
		} else if isFloat(p.Type()) {
			// a float64: its IEEE bit pattern (the code only moves the bits around)
			name := "arg_bits_" + p.Name()
			decls = append(decls, fmt.Sprintf("(declare-fun %s () (_ BitVec 64))", name))
			v := rtVal{k: rtBV, bv: bvVal{name, 64, false}}
			args = append(args, v)
			dataArgs = append(dataArgs, v)
		} else if isString(p.Type()) {
			// a string: its length is symbolic, its bytes are an opaque blob
			name := "arg_len_" + p.Name()
			decls = append(decls, fmt.Sprintf("(declare-fun %s () (_ BitVec 64))", name))
			pre = append(pre, "(bvsle "+bvConst(0, 64)+" "+name+")")
			if rt.MaxLen != nil {
				pre = append(pre, "(bvsle "+name+" "+bvConst(*rt.MaxLen, 64)+")")
			}
			v := rtVal{k: rtStr, bv: bvVal{name, 64, true}, idx: 1}
			args = append(args, v)
			dataArgs = append(dataArgs, v)
		} else if bt, ok := p.Type().Underlying().(*types.Basic); ok && bt.Kind() == types.Bool {
			// a bool: a symbolic truth value, compared with the decoder's bool result
			name := "arg_" + p.Name()
			decls = append(decls, fmt.Sprintf("(declare-fun %s () Bool)", name))
			v := rtVal{k: rtBool, b: name}
			args = append(args, v)
			dataArgs = append(dataArgs, v)
		} else {
			args = append(args, rtVal{k: rtOpaque, name: p.Name()})
		}
	}
	// several data arguments: the integer ones are compared, in order, with the
	// decoder's integer results; a string among them is not part of the comparison
	// (the compact protocol does not write field names)
	var bvArgs []rtVal
	for _, a := range dataArgs {
		if a.k == rtBV {
			bvArgs = append(bvArgs, a)
		}
	}
	multi := len(dataArgs) > 1
	if len(dataArgs) == 0 || (multi && len(bvArgs) == 0) {
		panic(unsupported("roundtrip: encoder without a data argument"))
	}
	arg := dataArgs[0]
	if multi {
		arg = bvArgs[0]
	}
	base := pkgBase(ps.Pkg) + ".roundtrip/" + rt.Name
	add := func(clause string, pc []string, negGoal string, trail ...string) {
		ob := &Obligation{Kind: "roundtrip", Clause: clause, Pos: rt.WherePos, Props: rt.Props, Trail: trail}
		ob.Name = base + "." + clause
		ob.Func = "roundtrip " + rt.Name
		var sb strings.Builder
		sb.WriteString("(set-option :produce-models true)\n(set-logic QF_BV)\n" + strings.Join(decls, "\n") + "\n")
		sb.WriteString(x.stateDeclText(rt.Where))
		for _, p := range pre {
			sb.WriteString("(assert " + p + ")\n")
		}
		for _, p := range pc {
			sb.WriteString("(assert " + p + ")\n")
		}
		sb.WriteString("(assert " + negGoal + ")\n(check-sat)\n")
		ob.Query = sb.String()
		ob.NegGoal = negGoal
		e.obls = append(e.obls, ob)
	}
	sides := func(clause string, prefix []string, st *rtState) {
		for _, sd := range st.side {
			add(clause, append(append([]string{}, prefix...), sd.pc...), sd.neg, sd.label)
		}
	}
	nbytes := func(items []bvVal) (int, int) {
		b, bl := 0, 0
		for _, it := range items {
			if it.w == rtBlob {
				bl++
			} else {
				b++
			}
		}
		return b, bl
	}
	st0 := &rtState{bufs: map[*rtBuf]map[int]bvVal{x.recv: {}}, filled: map[string]bool{}}
	encPaths := x.run(enc, args, st0)
	nEnc, nDec := 0, 0
	var lens []string
	seenLen := map[int]bool{}
	for _, ep := range encPaths {
		sides("encoder_does_not_panic", nil, ep.st)
		switch {
		case ep.st.over:
			add("encoder_needs_at_most_"+strconv.Itoa(rt.Unroll)+"_iterations", ep.st.pc, "true", "encoder path beyond the unrolling")
			continue
		case ep.st.panicked != "":
			add("encoder_does_not_panic", ep.st.pc, "true", ep.st.panicked)
			continue
		}
		nEnc++
		k, blobs := nbytes(ep.st.out)
		if !seenLen[k] {
			seenLen[k] = true
			lens = append(lens, strconv.Itoa(k))
		}
		wantWrites := 1
		if multi {
			wantWrites = ep.st.writes // several writes are fine for composite headers
		}
		if arg.k == rtStr {
			// the length prefix, then the bytes of the string, in this order
			wantWrites = 2
			if blobs != 1 || ep.st.out[len(ep.st.out)-1].w != rtBlob || ep.st.out[len(ep.st.out)-1].s != arg.bv.s {
				add("encoder_writes_the_prefix_then_the_string", ep.st.pc, "true", fmt.Sprintf("%d string writes", blobs))
				continue
			}
		}
		if ep.st.writes != wantWrites {
			add("encoder_writes_once", ep.st.pc, "true", fmt.Sprintf("%d Write calls", ep.st.writes))
		}
		if len(ep.res) > 0 && ep.res[len(ep.res)-1].k != rtNilErr {
			add("encoder_reports_no_error", ep.st.pc, "true", "the encoder returns an error that is not the transport's")
			continue
		}
		if rt.Longest != nil && k != rt.Unroll {
			a := arg.bv
			add(fmt.Sprintf("longest_encoding_at_%d", *rt.Longest), ep.st.pc, "(= "+a.s+" "+bvConst(*rt.Longest, a.w)+")", fmt.Sprintf("encoder path of length %d", k))
		}
		// cover: the path is feasible (vacuity guard)
		cv := &Obligation{Kind: "cover", Cover: true, Clause: "len" + strconv.Itoa(k), Pos: rt.WherePos, Props: rt.Props}
		cv.Name = base + ".cover.len" + strconv.Itoa(k)
		if len(rt.Where) > 0 {
			cv.Name = base + ".cover" // preconditions may exclude whole paths: one feasible path suffices
		}
		cv.Func = "roundtrip " + rt.Name
		cv.Query = "(set-logic QF_BV)\n" + strings.Join(decls, "\n") + "\n" + x.stateDeclText(rt.Where)
		for _, p := range append(append([]string{}, pre...), ep.st.pc...) {
			cv.Query += "(assert " + p + ")\n"
		}
		cv.Query += "(check-sat)\n"
		e.covers = append(e.covers, cv)
		// decode exactly these bytes
		dst := &rtState{bufs: map[*rtBuf]map[int]bvVal{x.recv: {}}, in: ep.st.out, filled: map[string]bool{}}
		var dargs []rtVal
		for _, p := range dec.Params {
			if _, _, ok := bvTypeOf(p.Type()); ok {
				panic(unsupported("roundtrip: decoder with integer parameters"))
			}
			dargs = append(dargs, rtVal{k: rtOpaque, name: p.Name()})
		}
		clause := fmt.Sprintf("decode_of_encode.len%d", k)
		for _, dp := range x.run(dec, dargs, dst) {
			nDec++
			pc := append(append([]string{}, ep.st.pc...), dp.st.pc...)
			sides(clause, ep.st.pc, dp.st)
			switch {
			case dp.st.starved:
				add(clause, pc, "true", fmt.Sprintf("decoder asks for protocol byte %d of %d", dp.st.pos+1, k))
			case dp.st.over:
				add(clause, pc, "true", "decoder path beyond the unrolling")
			case dp.st.panicked != "":
				add(clause, pc, "true", "decoder: "+dp.st.panicked)
			default:
				if multi {
					var rbv []rtVal
					for _, r := range dp.res {
						if r.k == rtBV {
							rbv = append(rbv, r)
						}
					}
					db, _ := nbytes(dp.st.in[:dp.st.pos])
					trail := fmt.Sprintf("decoder consumed %d of %d protocol bytes", db, k)
					if db != k || len(rbv) != len(bvArgs) || dp.res[len(dp.res)-1].k != rtNilErr {
						add(clause, pc, "true", trail+" (or reports an error, or returns other results)")
						continue
					}
					var conj []string
					for i := range rbv {
						if rbv[i].bv.w != bvArgs[i].bv.w {
							panic(unsupported("roundtrip: decoder result width differs from the encoder argument"))
						}
						conj = append(conj, "(= "+rbv[i].bv.s+" "+bvArgs[i].bv.s+")")
					}
					// the receiver state the two sides keep must stay in step: every integer
					// field either side wrote has the same final value on both sides (a side
					// that never wrote it still has the common initial value)
					seen := map[string]bool{}
					var names []string
					for n := range ep.st.fields {
						if !seen[n] {
							seen[n] = true
							names = append(names, n)
						}
					}
					for n := range dp.st.fields {
						if !seen[n] {
							seen[n] = true
							names = append(names, n)
						}
					}
					sort.Strings(names)
					for _, n := range names {
						ev, eok := ep.st.fields[n]
						dv, dok := dp.st.fields[n]
						ref := ev
						if !eok {
							ref = dv
						}
						if ref.k != rtBV {
							continue
						}
						initial := rtVal{k: rtBV, bv: bvVal{"st_" + n, ref.bv.w, ref.bv.signed}}
						if !eok || !dok {
							x.stateDecls["st_"+n] = ref.bv.w
						}
						if !eok {
							ev = initial
						}
						if !dok {
							dv = initial
						}
						if ev.k == rtBV && dv.k == rtBV && dv.bv.w == ev.bv.w {
							conj = append(conj, "(= "+dv.bv.s+" "+ev.bv.s+")")
							trail += "; field " + n + " in step"
						}
					}
					add(clause, pc, "(not (and "+strings.Join(conj, " ")+"))", trail)
					continue
				}
				if len(dp.res) < 1 || (dp.res[0].k != rtBV && dp.res[0].k != rtStr && dp.res[0].k != rtBool) || dp.res[0].k != arg.k {
					panic(unsupported("roundtrip: decoder result"))
				}
				db, _ := nbytes(dp.st.in[:dp.st.pos])
				trail := fmt.Sprintf("decoder consumed %d of %d protocol bytes", db, k)
				if db != k || (len(dp.res) > 1 && dp.res[len(dp.res)-1].k != rtNilErr) {
					add(clause, pc, "true", trail+" (or reports an error)")
					continue
				}
				if arg.k == rtBool {
					add(clause, pc, "(not (= "+dp.res[0].b+" "+arg.b+"))", trail)
					continue
				}
				a := arg.bv
				r := dp.res[0].bv
				if r.w != a.w {
					panic(unsupported("roundtrip: decoder result width differs from the encoder argument"))
				}
				if strings.HasPrefix(a.s, "arg_bits_") {
					trail += " (float64 compared bit for bit)"
				}
				if arg.k == rtStr {
					// same length, the bytes are the argument's (or there are none), nothing left unread
					neg := "(not (and (= " + r.s + " " + a.s + ") (= " + dp.st.remaining() + " " + bvConst(0, 64) + ")))"
					if dp.res[0].idx != 1 {
						neg = "(not (and (= " + r.s + " " + bvConst(0, 64) + ") (= " + a.s + " " + bvConst(0, 64) + ")))"
					}
					add(clause, pc, neg, trail)
					continue
				}
				add(clause, pc, "(not (= "+r.s+" "+a.s+"))", trail)
			}
		}
	}
	if nEnc == 0 {
		panic(unsupported("roundtrip: no encoder path"))
	}
	note := fmt.Sprintf("roundtrip %s: %d encoder paths (lengths %s), %d decoder paths, loops unrolled %d times with unwinding assertions; exact machine arithmetic (QF_BV), all inputs; same-package callees executed in place", rt.Name, nEnc, strings.Join(lens, ","), nDec, rt.Unroll)
	if arg.k == rtStr {
		note += "; the string argument is a symbolic length and an opaque blob of that many bytes handed to the transport's WriteString and fetched by io.ReadFull"
		if rt.MaxLen != nil {
			note += fmt.Sprintf("; PRECONDITION: the string has at most %d bytes", *rt.MaxLen)
		}
	}
	res.Notes = append(res.Notes, note)
	e.trustedUsed["roundtrip harnesses: the transport is modelled as exactly Write / WriteByte / WriteString / ReadByte / RemainingBytes without errors; io.ReadFull, encoding/binary PutUintN / UintN (byte split and join of either endianness) and math.Float64bits / Float64frombits (identity on the IEEE bit pattern) are ASSUMED contracts of dependencies"] = true
	res.Paths = nEnc + nDec
	return res
}
