package main

import (
	"go/token"
	"go/types"

	"golang.org/x/tools/go/ssa"
)

// Placeholders for the concurrency forms (filled in later).

type Protocol struct {
	Name, Pkg, On, Where string
	Lines                []protoLine
}

type protoLine struct{ kw, rest, where string }

func (p *Protocol) parseLine(kw, rest, where string) error {
	p.Lines = append(p.Lines, protoLine{kw, rest, where})
	return nil
}

type LockSpec struct {
	Pkg, Where, Lock string
	Protects         []string
	Lines            []protoLine
}

func (l *LockSpec) parseLine(kw, rest, where string) error {
	l.Lines = append(l.Lines, protoLine{kw, rest, where})
	return nil
}

type Discipline struct{}

func (e *Engine) newDiscipline(fn *ssa.Function) *Discipline { return &Discipline{} }
func (d *Discipline) onAccess(e *Engine, st *State, p PtrV, write bool, pos token.Pos) {}
func (d *Discipline) onMapWrite(e *Engine, st *State, m ssa.Value, pos token.Pos)      {}
func (d *Discipline) onExternCall(e *Engine, st *State, m *types.Func, pos token.Pos)  {}
func (d *Discipline) atReturn(e *Engine, st *State, pos token.Pos)                     {}

type protoRun struct{}

func (e *Engine) newProtoRun(st *State, fn *ssa.Function, c *Contract) *protoRun { return &protoRun{} }
func (p *protoRun) onSend(e *Engine, st *State, ch Term, pos token.Pos)            {}
func (p *protoRun) atReturn(e *Engine, st *State, pos token.Pos)                   {}

func (e *Engine) specHeld(env *SpecEnv, args []*SExpr) Value { return TTrue }

func (d *Discipline) onAcquire(e *Engine, st *State, p PtrV, key string, mode lockMode, pos token.Pos) {}
func (d *Discipline) onRelease(e *Engine, st *State, p PtrV, key string, mode, held lockMode, pos token.Pos) {
}
func (p *protoRun) beforeAtomic(e *Engine, st *State, loc PtrV, kind string, pos token.Pos)          {}
func (p *protoRun) afterAtomic(e *Engine, st *State, loc PtrV, kind string, old, nv Term, pos token.Pos) {}
