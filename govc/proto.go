package main

// Atomic-step protocols (thread-modular reasoning, Owicki–Gries style with a
// global invariant over shared + ghost state and rely conditions).
//
// For each participating real function, before every atomic access to a
// protocol location the shared locations and the protocol's global ghost
// variables are havocked (arbitrary interference by any number of other
// threads), the invariant and the relies are assumed; the atomic operation and
// the ghost updates attached to (operation kind, location) execute as one
// step; the invariant (and the relies other threads depend on) are asserted.

import (
	"fmt"
	"go/token"
	"go/types"
	"sort"
	"strings"

	"golang.org/x/tools/go/ssa"
)

type protoLine struct{ kw, rest, where string }

type ghostAssign struct {
	Name  string
	Index *SExpr // name[index] = value (sets / maps)
	Value *SExpr
}

type onClause struct {
	Kind    string // load store add swap cas send close any
	Loc     string // field path relative to self, e.g. "curr" ; or channel field
	In      []string
	Assigns []ghostAssign
	Where   string
}

type tagged struct {
	In []string
	Cl *Clause
}

type Protocol struct {
	Name, Pkg, On, Where string
	Props                []string
	SelfName             string
	SelfType             string
	Shared               []string
	Ghost                []BoundVar
	Local                []BoundVar
	Inv                  []*Clause
	AssumeInv            []*Clause
	Rely                 []tagged
	Threads              []string
	Single               map[string]bool
	OnCl                 []onClause
	Posts                []tagged
	Entry                []tagged // assumptions at thread entry
	LoopInv              map[string]map[int][]*Clause
	Readers              []string    // functions allowed to read shared locations non-atomically? (none by default)
	Init                 []string    // constructor functions (may allocate the object)
	Counters             [][2]string // ghost counters: global = sum over threads of local
	Tokens               []tokenDecl // exclusive ghost tokens (at most one holder) and the ghosts they own
	StepReq              []stepReq   // preconditions of steps (checked after interference, before the operation)
}

// tokenDecl: `token T owns g1,g2 acquire <kind> <loc> when <cond>`.
// Ghost bool T_held (global) and thread-local my_T.  The step (kind, loc)
// acquires the token when cond holds: obligation !T_held.  Owned ghosts may be
// changed only by the holder (obligation at every step); in exchange the holder
// sees them unchanged across interference.  Exclusivity of the holder (at most
// one thread has my_T) is the meta-argument: my_T is set only by a step that
// proved !T_held and T_held is never reset.
type tokenDecl struct {
	Name    string
	Owns    []string
	AcqKind string
	AcqLoc  string
	When    *SExpr
	Where   string
}

type stepReq struct {
	Kind, Loc string
	In        []string
	Cl        *Clause
}

func parseIn(rest string) ([]string, string) {
	rest = strings.TrimSpace(rest)
	if strings.HasPrefix(rest, "in ") {
		i := strings.Index(rest, ":")
		if i > 0 {
			var fs []string
			for _, f := range strings.Split(rest[3:i], ",") {
				fs = append(fs, strings.TrimSpace(f))
			}
			return fs, strings.TrimSpace(rest[i+1:])
		}
	}
	return nil, rest
}

func (p *Protocol) parseLine(kw, rest, where string) error {
	switch kw {
	case "property":
		for _, x := range strings.Split(rest, ",") {
			p.Props = append(p.Props, strings.TrimSpace(x))
		}
	case "shared":
		for _, x := range strings.Split(rest, ",") {
			p.Shared = append(p.Shared, strings.TrimSpace(x))
		}
	case "ghost":
		p.Ghost = append(p.Ghost, parseParams(rest)...)
	case "threads":
		for _, x := range splitTop(rest) {
			p.Threads = append(p.Threads, strings.TrimSpace(x))
		}
	case "inv":
		cl, err := parseLabelled(rest, where)
		if err != nil {
			return err
		}
		p.Inv = append(p.Inv, cl)
	case "assume":
		in, r := parseIn(rest)
		cl, err := parseLabelled(r, where)
		if err != nil {
			return err
		}
		if in == nil {
			p.AssumeInv = append(p.AssumeInv, cl)
		} else {
			p.Entry = append(p.Entry, tagged{in, cl})
		}
	case "rely":
		in, r := parseIn(rest)
		cl, err := parseLabelled(r, where)
		if err != nil {
			return err
		}
		p.Rely = append(p.Rely, tagged{in, cl})
	case "ensures":
		in, r := parseIn(rest)
		cl, err := parseLabelled(r, where)
		if err != nil {
			return err
		}
		p.Posts = append(p.Posts, tagged{in, cl})
	case "on":
		// on <kind> <loc> [in F,G]: a = e; b[i] = e
		i := strings.Index(rest, ":")
		if i < 0 {
			return fmt.Errorf("%s: on <kind> <loc>: assignments", where)
		}
		head := strings.Fields(rest[:i])
		if len(head) < 2 {
			return fmt.Errorf("%s: on <kind> <loc>", where)
		}
		oc := onClause{Kind: head[0], Loc: head[1], Where: where}
		if len(head) >= 4 && head[2] == "in" {
			for _, f := range strings.Split(strings.Join(head[3:], " "), ",") {
				oc.In = append(oc.In, strings.TrimSpace(f))
			}
		}
		for _, a := range strings.Split(rest[i+1:], ";") {
			a = strings.TrimSpace(a)
			if a == "" {
				continue
			}
			eq := strings.Index(a, "=")
			for eq >= 0 && eq+1 < len(a) && (a[eq+1] == '=' || (eq > 0 && strings.ContainsRune("!<>=", rune(a[eq-1])))) {
				n := strings.Index(a[eq+2:], "=")
				if n < 0 {
					eq = -1
				} else {
					eq = eq + 2 + n
				}
			}
			if eq < 0 {
				return fmt.Errorf("%s: ghost assignment expected: %s", where, a)
			}
			lhs := strings.TrimSpace(a[:eq])
			val, err := parseSpec(a[eq+1:])
			if err != nil {
				return fmt.Errorf("%s: %v", where, err)
			}
			ga := ghostAssign{Value: val}
			if b := strings.Index(lhs, "["); b >= 0 {
				ga.Name = strings.TrimSpace(lhs[:b])
				ix, err := parseSpec(strings.TrimSuffix(lhs[b+1:], "]"))
				if err != nil {
					return fmt.Errorf("%s: %v", where, err)
				}
				ga.Index = ix
			} else {
				ga.Name = lhs
			}
			oc.Assigns = append(oc.Assigns, ga)
		}
		p.OnCl = append(p.OnCl, oc)
	case "loop":
		// loop <func> <n> invariant <expr>
		f := strings.Fields(rest)
		if len(f) < 4 || f[2] != "invariant" {
			return fmt.Errorf("%s: loop <func> <n> invariant <expr>", where)
		}
		var n int
		fmt.Sscanf(f[1], "%d", &n)
		body := strings.TrimSpace(rest[strings.Index(rest, "invariant")+len("invariant"):])
		cl, err := parseLabelled(body, where)
		if err != nil {
			return err
		}
		if p.LoopInv == nil {
			p.LoopInv = map[string]map[int][]*Clause{}
		}
		if p.LoopInv[f[0]] == nil {
			p.LoopInv[f[0]] = map[int][]*Clause{}
		}
		p.LoopInv[f[0]][n] = append(p.LoopInv[f[0]][n], cl)
	case "token":
		// token T owns a,b acquire <kind> <loc> when <expr>
		f := strings.Fields(rest)
		io, ia, iw := -1, -1, -1
		for i, x := range f {
			switch x {
			case "owns":
				io = i
			case "acquire":
				ia = i
			case "when":
				if iw < 0 {
					iw = i
				}
			}
		}
		if len(f) < 6 || io != 1 || ia < 0 || iw != ia+3 {
			return fmt.Errorf("%s: token T owns a,b acquire <kind> <loc> when <expr>", where)
		}
		td := tokenDecl{Name: f[0], AcqKind: f[ia+1], AcqLoc: f[ia+2], Where: where}
		for _, o := range strings.Split(strings.Join(f[io+1:ia], ""), ",") {
			if o != "" {
				td.Owns = append(td.Owns, o)
			}
		}
		w, err := parseSpec(rest[strings.Index(rest, " when ")+6:])
		if err != nil {
			return fmt.Errorf("%s: %v", where, err)
		}
		td.When = w
		p.Tokens = append(p.Tokens, td)
		p.Ghost = append(p.Ghost, BoundVar{Name: td.Name + "_held", Type: "bool"})
		p.Local = append(p.Local, BoundVar{Name: "my_" + td.Name, Type: "bool"})
	case "require":
		// require <kind> <loc> [in F,G]: @label expr
		i := strings.Index(rest, ":")
		if i < 0 {
			return fmt.Errorf("%s: require <kind> <loc>: expr", where)
		}
		head := strings.Fields(rest[:i])
		if len(head) < 2 {
			return fmt.Errorf("%s: require <kind> <loc>", where)
		}
		sr := stepReq{Kind: head[0], Loc: head[1]}
		if len(head) >= 4 && head[2] == "in" {
			for _, f := range strings.Split(strings.Join(head[3:], " "), ",") {
				sr.In = append(sr.In, strings.TrimSpace(f))
			}
		}
		cl, err := parseLabelled(rest[i+1:], where)
		if err != nil {
			return err
		}
		sr.Cl = cl
		p.StepReq = append(p.StepReq, sr)
	case "counter":
		f := strings.Fields(rest)
		if len(f) != 3 || f[1] != "by" {
			return fmt.Errorf("%s: counter <global> by <local>", where)
		}
		p.Counters = append(p.Counters, [2]string{f[0], f[2]})
	case "self":
		f := strings.Fields(rest)
		if len(f) < 2 {
			return fmt.Errorf("%s: self <name> <type>", where)
		}
		p.SelfName, p.SelfType = f[0], strings.Join(f[1:], " ")
	case "local":
		p.Local = append(p.Local, parseParams(rest)...)
	case "single":
		if p.Single == nil {
			p.Single = map[string]bool{}
		}
		p.Single[strings.TrimSpace(rest)] = true
	case "init":
		for _, x := range splitTop(rest) {
			p.Init = append(p.Init, strings.TrimSpace(x))
		}
	default:
		return fmt.Errorf("%s: unexpected clause %q in protocol", where, kw)
	}
	return nil
}

func inList(l []string, s string) bool {
	if len(l) == 0 {
		return true
	}
	for _, x := range l {
		if x == s {
			return true
		}
	}
	return false
}

// protoRun is the per-verification state of a protocol.
type protoRun struct {
	p      *Protocol
	fn     *ssa.Function
	rel    string
	self   PtrV
	selfT  types.Type
	snap   *State // state after this thread's previous step (for relies)
	pre    *State // state just before the current step
	active bool
	chans  []string // shared locations that are channels: ghost <loc>_closed
}

func chanGhost(loc string) string { return strings.ReplaceAll(loc, ".", "_") + "_closed" }

func (e *Engine) ghostSort(t string) *Sort {
	switch strings.TrimSpace(t) {
	case "bool":
		return SBool
	case "set":
		return ArrSort(SInt, SBool)
	case "f64":
		return SF64
	}
	return SInt
}

func (pr *protoRun) env(e *Engine, st *State, old *State) *SpecEnv {
	vc := e.cur
	env := vc.specEnv(st)
	env.old = old
	env.local = e.localLookup(st, pr.fn)
	return env
}

// sharedLoc reports whether pointer p denotes shared location number k.
func (pr *protoRun) sharedIndex(e *Engine, p PtrV) int {
	if p.Cell > 0 || p.Global != nil || p.Ref.S != pr.self.Ref.S {
		return -1
	}
	suffix, _ := e.pathSuffix(p)
	for i, s := range pr.p.Shared {
		if "."+s == suffix {
			return i
		}
	}
	return -1
}

func (pr *protoRun) havocShared(e *Engine, st *State) {
	for _, s := range pr.p.Shared {
		// type of the field path
		cur := pr.selfT
		key := e.rootKey(pr.selfT)
		for _, f := range strings.Split(s, ".") {
			_, ft, ok := fieldByName(cur, f)
			if !ok {
				panic(specErr{"protocol " + pr.p.Name + ": no field " + f})
			}
			key += "." + f
			cur = ft
		}
		if _, isch := cur.Underlying().(*types.Chan); isch {
			continue // the channel reference is immutable; its closed flag is the ghost <loc>_closed
		}
		for _, ks := range e.leafKeys(key, cur, 0) {
			st.havocHeapSlot(ks, pr.self.Ref)
		}
	}
	prev := map[string]Value{}
	for k, v := range st.ghost {
		prev[k] = v
	}
	for _, g := range pr.p.Ghost {
		st.ghost[g.Name] = e.ctx.Fresh("gh_"+g.Name, e.ghostSort(g.Type))
	}
	for _, c := range pr.chans {
		st.ghost[chanGhost(c)] = e.ctx.Fresh("gh_"+chanGhost(c), SBool)
	}
	// the holder of a token keeps it, and sees the ghosts it owns unchanged
	for _, t := range pr.p.Tokens {
		mine, ok := prev["my_"+t.Name].(Term)
		if !ok {
			continue
		}
		facts := []Term{st.ghost[t.Name+"_held"].(Term)}
		for _, o := range t.Owns {
			pv, ok1 := prev[o].(Term)
			nv, ok2 := st.ghost[o].(Term)
			if !ok1 || !ok2 {
				panic(specErr{"protocol " + pr.p.Name + ": token " + t.Name + " owns undeclared ghost " + o})
			}
			facts = append(facts, Eq(nv, pv))
		}
		st.assume(Implies(mine, And(facts...)))
	}
}

// interfere: arbitrary steps of other threads.
func (pr *protoRun) interfere(e *Engine, st *State) {
	pr.havocShared(e, st)
	env := pr.env(e, st, pr.snap)
	for _, c := range pr.p.Inv {
		st.assume(e.evalSpecBool(env, c.Expr))
	}
	for _, c := range pr.p.AssumeInv {
		st.assume(e.evalSpecBool(env, c.Expr))
	}
	for _, r := range pr.p.Rely {
		if inList(r.In, pr.rel) {
			st.assume(e.evalSpecBool(env, r.Cl.Expr))
		}
	}
	pr.assumeCounters(e, st)
}

// assumeCounters: a ghost counter is the sum of the per-thread contributions;
// the contributions of the other threads are non-negative.
func (pr *protoRun) assumeCounters(e *Engine, st *State) {
	for _, c := range pr.p.Counters {
		g, ok1 := st.ghost[c[0]].(Term)
		l, ok2 := st.ghost[c[1]].(Term)
		if !ok1 || !ok2 {
			panic(specErr{"protocol " + pr.p.Name + ": counter " + c[0] + " by " + c[1] + " needs a ghost and a local"})
		}
		st.assume(Ge(g, l))
	}
}

func (e *Engine) newProtoRun(st *State, fn *ssa.Function, c *Contract) *protoRun {
	ps := e.specs[pkgOf(fn).Path()]
	p := ps.Protos[c.Proto]
	if p == nil {
		panic(specErr{"unknown protocol " + c.Proto})
	}
	_, rel := e.relName(fn)
	pr := &protoRun{p: p, fn: fn, rel: rel}
	if len(fn.Params) == 0 {
		panic(specErr{"protocol thread function without receiver"})
	}
	self, ok := st.env[fn.Params[0]]
	_ = self
	_ = ok
	return pr
}

// bind attaches the protocol to the receiver after parameters exist.
func (pr *protoRun) bind(e *Engine, st *State, recv Value) {
	p, ok := recv.(PtrV)
	if !ok {
		panic(specErr{"protocol self must be a pointer receiver"})
	}
	pr.self = p
	pr.selfT = p.Elem
	for _, g := range pr.p.Ghost {
		st.ghost[g.Name] = e.ctx.Fresh("gh_"+g.Name, e.ghostSort(g.Type))
	}
	for _, l := range pr.p.Local {
		st.ghost[l.Name] = ZeroOf(e.ghostSort(l.Type))
	}
	pr.chans = nil
	for _, sname := range pr.p.Shared {
		cur := pr.selfT
		okc := true
		for _, f := range strings.Split(sname, ".") {
			_, ft, ok := fieldByName(cur, f)
			if !ok {
				okc = false
				break
			}
			cur = ft
		}
		if okc {
			if _, isch := cur.Underlying().(*types.Chan); isch {
				pr.chans = append(pr.chans, sname)
				st.ghost[chanGhost(sname)] = e.ctx.Fresh("gh_"+chanGhost(sname), SBool)
			}
		}
	}
	st.assume(Neq(p.Ref, IntLit(0)))
	env := pr.env(e, st, nil)
	for _, c := range pr.p.Inv {
		st.assume(e.evalSpecBool(env, c.Expr))
	}
	for _, c := range pr.p.AssumeInv {
		st.assume(e.evalSpecBool(env, c.Expr))
	}
	for _, t := range pr.p.Entry {
		if inList(t.In, pr.rel) {
			st.assume(e.evalSpecBool(env, t.Cl.Expr))
		}
	}
	pr.assumeCounters(e, st)
	pr.snap = st.clone()
	pr.active = true
}

func (pr *protoRun) beforeAtomic(e *Engine, st *State, loc PtrV, kind string, pos token.Pos) {
	if !pr.active || pr.sharedIndex(e, loc) < 0 {
		return
	}
	pr.interfere(e, st)
	pr.pre = st.clone()
	pr.checkRequires(e, st, kind, pr.p.Shared[pr.sharedIndex(e, loc)], pos)
}

// checkRequires: declared preconditions of the step (kind, loc), evaluated
// after interference and before the operation.
func (pr *protoRun) checkRequires(e *Engine, st *State, kind, locName string, pos token.Pos) {
	env := pr.env(e, st, pr.snap)
	for i, r := range pr.p.StepReq {
		if (r.Kind != kind && r.Kind != "any") || r.Loc != locName || !inList(r.In, pr.rel) {
			continue
		}
		e.oblige(st, "proto", fmt.Sprintf("%s.step[%s %s].requires.%s", pr.p.Name, kind, locName, clauseName(r.Cl, i)), e.evalSpecBool(env, r.Cl.Expr), pos)
	}
}

func (pr *protoRun) afterAtomic(e *Engine, st *State, loc PtrV, kind string, old, nv Term, pos token.Pos) {
	if !pr.active {
		return
	}
	k := pr.sharedIndex(e, loc)
	if k < 0 {
		return
	}
	locName := pr.p.Shared[k]
	pr.step(e, st, kind, locName, old, nv, pos)
}

// step applies the ghost updates of (kind, loc) and checks invariant + guarantees.
func (pr *protoRun) step(e *Engine, st *State, kind, locName string, old, nv Term, pos token.Pos) {
	env := pr.env(e, st, pr.pre)
	env.vars["before"] = old
	env.vars["after"] = nv
	for _, oc := range pr.p.OnCl {
		if (oc.Kind != kind && oc.Kind != "any") || oc.Loc != locName || !inList(oc.In, pr.rel) {
			continue
		}
		// simultaneous assignment: evaluate all right-hand sides first
		type upd struct {
			name string
			v    Value
		}
		var ups []upd
		for _, a := range oc.Assigns {
			v := e.evalSpec(env, a.Value)
			if a.Index != nil {
				cur, ok := st.ghost[a.Name].(Term)
				if !ok {
					panic(specErr{"ghost " + a.Name + " is not declared"})
				}
				v = Store(cur, e.evalSpecTerm(env, a.Index), v.(Term))
			}
			ups = append(ups, upd{a.Name, v})
		}
		for _, u := range ups {
			if _, ok := st.ghost[u.name]; !ok {
				panic(specErr{"ghost " + u.name + " is not declared"})
			}
			if t, ok := u.v.(Term); ok {
				u.v = e.ctx.Define("gh_"+u.name, t)
			}
			st.ghost[u.name] = u.v
		}
	}
	env = pr.env(e, st, pr.pre)
	tag := fmt.Sprintf("step[%s %s]", kind, locName)
	for _, t := range pr.p.Tokens {
		held0 := pr.pre.ghost[t.Name+"_held"].(Term)
		mine0 := pr.pre.ghost["my_"+t.Name].(Term)
		if h1, ok := st.ghost[t.Name+"_held"].(Term); !ok || h1.S != held0.S {
			panic(specErr{"protocol " + pr.p.Name + ": ghost updates must not assign " + t.Name + "_held"})
		}
		if t.AcqKind == kind && t.AcqLoc == locName {
			tenv := pr.env(e, st, pr.pre)
			tenv.vars["before"] = old
			tenv.vars["after"] = nv
			cond := e.evalSpecBool(tenv, t.When)
			e.oblige(st, "proto", fmt.Sprintf("%s.%s.token_free.%s", pr.p.Name, tag, t.Name), Implies(cond, Not(held0)), pos)
			st.ghost[t.Name+"_held"] = e.ctx.Define("gh_"+t.Name+"_held", Or(held0, cond))
			st.ghost["my_"+t.Name] = e.ctx.Define("gh_my_"+t.Name, Or(mine0, cond))
		}
		mine1 := st.ghost["my_"+t.Name].(Term)
		for _, o := range t.Owns {
			v0, v1 := pr.pre.ghost[o].(Term), st.ghost[o].(Term)
			if v0.S == v1.S {
				continue
			}
			e.oblige(st, "proto", fmt.Sprintf("%s.%s.owned_changed_only_by_holder.%s", pr.p.Name, tag, o), Or(Eq(v0, v1), mine1), pos)
		}
	}
	for _, c := range pr.p.Counters {
		g1, l1 := st.ghost[c[0]].(Term), st.ghost[c[1]].(Term)
		g0, l0 := pr.pre.ghost[c[0]].(Term), pr.pre.ghost[c[1]].(Term)
		e.oblige(st, "proto", fmt.Sprintf("%s.%s.counter_consistent.%s", pr.p.Name, tag, c[0]), Eq(Sub(g1, g0), Sub(l1, l0)), pos)
	}
	for i, c := range pr.p.Inv {
		e.oblige(st, "proto", fmt.Sprintf("%s.%s.preserves_inv.%s", pr.p.Name, tag, clauseName(c, i)), e.evalSpecBool(env, c.Expr), pos)
	}
	for i, r := range pr.p.Rely {
		// this step must respect what other threads rely on: relies of other
		// thread kinds, and of the own kind unless it is declared single.
		checks := false
		if len(r.In) == 0 {
			checks = true
		}
		for _, k := range r.In {
			if k != pr.rel || !pr.p.Single[k] {
				checks = true
			}
		}
		if !checks || pr.mentionsLocal(r.Cl.Expr) {
			// relies that mention a thread-local ghost are structural facts about
			// the counters (justified by `single` / `counter`), not step guarantees
			continue
		}
		genv := pr.env(e, st, pr.pre)
		// the rely is about thread-local ghosts of the *other* thread: those are
		// not changed by this step; evaluate with this thread's locals hidden.
		e.oblige(st, "proto", fmt.Sprintf("%s.%s.guarantees.%s", pr.p.Name, tag, clauseName(r.Cl, i)), e.evalSpecBool(genv, r.Cl.Expr), pos)
	}
	pr.snap = st.clone()
}

func (pr *protoRun) mentionsLocal(x *SExpr) bool {
	if x == nil {
		return false
	}
	if x.Op == "ident" {
		for _, l := range pr.p.Local {
			if l.Name == x.Name {
				return true
			}
		}
	}
	for _, a := range x.Args {
		if pr.mentionsLocal(a) {
			return true
		}
	}
	return false
}

func (pr *protoRun) onSend(e *Engine, st *State, ch Term, pos token.Pos) {
	// a channel send on a protocol channel is a step of kind "send"
	for k, s := range pr.p.Shared {
		_ = k
		if v, ok := pr.chanOf(e, st, s); ok && (v.S == ch.S || e.ctx.Canon(v.S) == e.ctx.Canon(ch.S)) {
			pr.interfere(e, st)
			pr.pre = st.clone()
			pr.checkRequires(e, st, "send", s, pos)
			e.oblige(st, "proto", fmt.Sprintf("%s.step[send %s].channel_not_closed", pr.p.Name, s), Not(st.ghost[chanGhost(s)].(Term)), pos)
			pr.step(e, st, "send", s, TFalse, TFalse, pos)
			return
		}
	}
	e.oblige(st, "safe", "send_on_closed_channel", Not(e.chanGet(st, ch, "closed")), pos)
}

// onClose: closing a protocol channel is a step of kind "close"; the ghost
// <loc>_closed records it.  ok=false: not a protocol channel.
func (pr *protoRun) onClose(e *Engine, st *State, ch Term, pos token.Pos) bool {
	if !pr.active {
		return false
	}
	for _, s := range pr.chans {
		if v, ok := pr.chanOf(e, st, s); ok && (v.S == ch.S || e.ctx.Canon(v.S) == e.ctx.Canon(ch.S)) {
			pr.interfere(e, st)
			pr.pre = st.clone()
			pr.checkRequires(e, st, "close", s, pos)
			e.oblige(st, "proto", fmt.Sprintf("%s.step[close %s].channel_not_closed", pr.p.Name, s), And(Neq(ch, IntLit(0)), Not(st.ghost[chanGhost(s)].(Term))), pos)
			st.ghost[chanGhost(s)] = TTrue
			pr.step(e, st, "close", s, TFalse, TTrue, pos)
			return true
		}
	}
	return false
}

func (pr *protoRun) chanOf(e *Engine, st *State, s string) (Term, bool) {
	cur := pr.selfT
	p := pr.self
	for _, f := range strings.Split(s, ".") {
		idx, ft, ok := fieldByName(cur, f)
		if !ok || len(idx) != 1 {
			return Term{}, false
		}
		p = p.field(idx[0], ft)
		cur = ft
	}
	if _, ok := cur.Underlying().(*types.Chan); !ok {
		return Term{}, false
	}
	v, ok := e.load(st, p, cur).(Term)
	return v, ok
}

func (pr *protoRun) atReturn(e *Engine, st *State, pos token.Pos) {
	if !pr.active {
		return
	}
	env := pr.env(e, st, e.cur.entry)
	env.hasRes = true
	sig := pr.fn.Signature
	if sig.Results().Len() == 1 {
		env.result = wrapTyped(st.retVal, sig.Results().At(0).Type())
	} else {
		env.result = st.retVal
	}
	env.local = nil
	for _, c := range pr.p.Counters {
		e.oblige(st, "proto", fmt.Sprintf("%s.exit.%s_released", pr.p.Name, c[1]), Eq(st.ghost[c[1]].(Term), IntLit(0)), pos)
	}
	for i, t := range pr.p.Posts {
		if inList(t.In, pr.rel) {
			e.oblige(st, "proto", fmt.Sprintf("%s.post.%s", pr.p.Name, clauseName(t.Cl, i)), e.evalSpecBool(env, t.Cl.Expr), pos)
		}
	}
}

// ---------------------------------------------------------------------------
// verification of the thread functions of a protocol, and the access-closure scan

func (e *Engine) verifyProtocols(prop string) []*FuncResult {
	var out []*FuncResult
	var pkgs []string
	for p := range e.specs {
		pkgs = append(pkgs, p)
	}
	sort.Strings(pkgs)
	for _, pk := range pkgs {
		ps := e.specs[pk]
		var names []string
		for n := range ps.Protos {
			names = append(names, n)
		}
		sort.Strings(names)
		for _, n := range names {
			p := ps.Protos[n]
			if !contains(p.Props, prop) {
				continue
			}
			missing := 0
			for _, th := range p.Threads {
				fn := e.findFunc(pk, th)
				if fn == nil {
					out = append(out, &FuncResult{Func: pkgBase(pk) + "." + th + " [protocol " + n + "]", Undecided: "thread function not found"})
					missing++
					continue
				}
				c := &Contract{Pkg: pk, Func: th, Props: p.Props, Proto: n, LoopInv: map[int][]*Clause{}, Unroll: map[int]int{}, NoFrame: true}
				if li, ok := p.LoopInv[th]; ok {
					c.LoopInv = li
				}
				if real, ok := ps.Contracts[th]; ok {
					c.Requires = real.Requires
				}
				e.protoContract[fn] = c
				r := e.VerifyFunc(fn, c)
				delete(e.protoContract, fn)
				r.Func += " [protocol " + n + "]"
				out = append(out, r)
			}
			if missing > 0 {
				// a listed thread function was renamed or removed: the protocol
				// declaration no longer matches the source, so "every write happens
				// inside a listed thread function" cannot be judged (the functions are
				// reported undecided above); not a failed obligation
				continue
			}
			if msg := e.accessClosed(pk, p); msg != "" {
				ob := &Obligation{Kind: "proto", Clause: "access_closed", Name: pkgBase(pk) + "." + n + "/proto.access_closed", Props: p.Props, Func: "protocol " + n, Verdict: "refuted", Solver: "engine", Output: msg, Goal: "every write to a protocol location is an atomic operation inside a listed thread function; no plain access anywhere", Pos: p.Where}
				e.engineObls = append(e.engineObls, ob)
			} else {
				ob := &Obligation{Kind: "proto", Clause: "access_closed", Name: pkgBase(pk) + "." + n + "/proto.access_closed", Props: p.Props, Func: "protocol " + n, Verdict: "discharged", Solver: "engine", Goal: "every write to a protocol location is an atomic operation inside a listed thread function; no plain access anywhere", Pos: p.Where}
				e.engineObls = append(e.engineObls, ob)
			}
		}
	}
	return out
}

// accessClosed scans the package: every access to a shared field of the
// protocol's type must go through an atomic operation; writes only inside the
// listed thread functions.
func (e *Engine) accessClosed(pk string, p *Protocol) string {
	var tp *types.Package
	for _, x := range e.allTypesPkgs {
		if x.Path() == pk {
			tp = x
		}
	}
	selfT := e.resolveType(tp, p.SelfType)
	pt, ok := selfT.Underlying().(*types.Pointer)
	if !ok {
		return "protocol self type is not a pointer"
	}
	structT := pt.Elem()
	shared := map[string]bool{}
	for _, s := range p.Shared {
		shared[strings.Split(s, ".")[0]] = true
	}
	thread := map[string]bool{}
	for _, t := range p.Threads {
		thread[t] = true
	}
	var problems []string
	for fn := range e.allFuncs {
		if fn.Blocks == nil || pkgOf(fn) == nil || pkgOf(fn).Path() != pk {
			continue
		}
		_, rel := e.relName(fn)
		for _, b := range fn.Blocks {
			for _, ins := range b.Instrs {
				fa, ok := ins.(*ssa.FieldAddr)
				if !ok {
					continue
				}
				bt := fa.X.Type().Underlying().(*types.Pointer).Elem()
				if !types.Identical(bt, structT) {
					continue
				}
				fname := bt.Underlying().(*types.Struct).Field(fa.Field).Name()
				if !shared[fname] {
					continue
				}
				_, fieldT, _ := fieldByName(bt, fname)
				_, isChanField := fieldT.Underlying().(*types.Chan)
				isInit := false
				for _, in := range p.Init {
					if in == rel {
						isInit = true
					}
				}
				checkCall := func(cc *ssa.CallCommon) {
					callee := cc.StaticCallee()
					name := ""
					if callee != nil {
						name = callee.String()
					}
					isAtomic := strings.HasPrefix(name, "sync/atomic.") || strings.HasPrefix(name, "(*go.uber.org/atomic.")
					if !isAtomic {
						problems = append(problems, fmt.Sprintf("%s passes &%s.%s to %s", rel, p.SelfName, fname, name))
						return
					}
					writes := !(strings.Contains(name, "Load"))
					if writes && !thread[rel] && !e.onlyCalledFrom(fn, thread) {
						problems = append(problems, fmt.Sprintf("%s writes %s.%s (%s) but is not a thread function of protocol %s", rel, p.SelfName, fname, name, p.Name))
					}
				}
				for _, ref := range *fa.Referrers() {
					switch u := ref.(type) {
					case *ssa.Call:
						checkCall(&u.Call)
					case *ssa.Defer:
						// a deferred atomic operation on the location is an atomic step at return
						checkCall(&u.Call)
					case *ssa.Store:
						if isChanField && isInit && u.Addr == ssa.Value(fa) {
							if _, fresh := fa.X.(*ssa.Alloc); fresh {
								continue // construction before publication
							}
						}
						problems = append(problems, fmt.Sprintf("%s: plain store to %s.%s", rel, p.SelfName, fname))
					case *ssa.UnOp:
						if isChanField {
							continue // the channel reference is immutable after construction
						}
						problems = append(problems, fmt.Sprintf("%s: plain load of %s.%s", rel, p.SelfName, fname))
					case *ssa.Go:
						problems = append(problems, fmt.Sprintf("%s: %s.%s escapes into go", rel, p.SelfName, fname))
					case *ssa.DebugRef:
					default:
						problems = append(problems, fmt.Sprintf("%s: unrecognised use of &%s.%s (%T)", rel, p.SelfName, fname, ref))
					}
				}
			}
		}
	}
	sort.Strings(problems)
	return strings.Join(problems, "; ")
}

// onlyCalledFrom: fn is a helper whose every static call site lies in one of the
// listed functions (it is inlined into them when they are verified), and it is
// not used as a value.
func (e *Engine) onlyCalledFrom(fn *ssa.Function, listed map[string]bool) bool {
	if fn.Referrers() != nil && false {
		return false
	}
	sites := 0
	for g := range e.allFuncs {
		if g.Blocks == nil {
			continue
		}
		_, grel := e.relName(g)
		for _, b := range g.Blocks {
			for _, ins := range b.Instrs {
				for _, op := range ins.Operands(nil) {
					if *op != ssa.Value(fn) {
						continue
					}
					ci, ok := ins.(ssa.CallInstruction)
					if !ok || ci.Common().StaticCallee() != fn {
						return false // taken as a value
					}
					if _, isGo := ins.(*ssa.Go); isGo {
						return false
					}
					if !listed[grel] {
						return false
					}
					sites++
				}
			}
		}
	}
	return sites > 0
}
