package main

// Specification expression language: Go-like expressions extended with
// forall/exists, ==>, <==>, old(), `k in m`, and c ? a : b.

import (
	"fmt"
	"strings"
	"unicode"
)

type BoundVar struct {
	Name string
	Type string
}

type SExpr struct {
	Op   string // ident int float str char call sel index slice unary binary cond forall exists
	Name string // identifier / operator / selector name
	Args []*SExpr
	Vars []BoundVar
	Pats [][]*SExpr // explicit instantiation patterns of a quantifier
	Src  string
}

func (x *SExpr) String() string {
	if x == nil {
		return "<nil>"
	}
	switch x.Op {
	case "ident", "int", "float", "str", "char":
		return x.Name
	case "sel":
		return x.Args[0].String() + "." + x.Name
	case "call":
		var as []string
		for _, a := range x.Args[1:] {
			as = append(as, a.String())
		}
		return x.Args[0].String() + "(" + strings.Join(as, ", ") + ")"
	case "index":
		return x.Args[0].String() + "[" + x.Args[1].String() + "]"
	case "unary":
		return x.Name + x.Args[0].String()
	case "binary":
		return "(" + x.Args[0].String() + " " + x.Name + " " + x.Args[1].String() + ")"
	case "cond":
		return "(" + x.Args[0].String() + " ? " + x.Args[1].String() + " : " + x.Args[2].String() + ")"
	case "forall", "exists":
		var vs []string
		for _, v := range x.Vars {
			vs = append(vs, v.Name+" "+v.Type)
		}
		return "(" + x.Op + " " + strings.Join(vs, ", ") + " :: " + x.Args[0].String() + ")"
	}
	return "?" + x.Op
}

type tok struct {
	k   string // id num str chr op eof
	s   string
	pos int
}

type specParser struct {
	src  string
	toks []tok
	p    int
}

func lexSpec(src string) ([]tok, error) {
	var out []tok
	i := 0
	ops := []string{"<==>", "==>", "::", "&&", "||", "==", "!=", "<=", ">=", "++", "(", ")", "[", "]", "{", "}", ",", ":", "?", ".", "+", "-", "*", "/", "%", "!", "<", ">"}
	for i < len(src) {
		c := rune(src[i])
		switch {
		case unicode.IsSpace(c):
			i++
		case unicode.IsLetter(c) || c == '_':
			j := i
			for j < len(src) && (unicode.IsLetter(rune(src[j])) || unicode.IsDigit(rune(src[j])) || src[j] == '_' || src[j] == '$' || src[j] == '#') {
				j++
			}
			out = append(out, tok{"id", src[i:j], i})
			i = j
		case unicode.IsDigit(c):
			j := i
			for j < len(src) && (unicode.IsDigit(rune(src[j])) || src[j] == '.' || src[j] == 'x' || src[j] == 'e' || (src[j] >= 'a' && src[j] <= 'f') || (src[j] >= 'A' && src[j] <= 'F') || src[j] == '_') {
				if src[j] == '.' && j+1 < len(src) && !unicode.IsDigit(rune(src[j+1])) {
					break
				}
				j++
			}
			out = append(out, tok{"num", src[i:j], i})
			i = j
		case c == '"':
			j := i + 1
			for j < len(src) && src[j] != '"' {
				if src[j] == '\\' {
					j++
				}
				j++
			}
			if j >= len(src) {
				return nil, fmt.Errorf("unterminated string in %q", src)
			}
			out = append(out, tok{"str", src[i : j+1], i})
			i = j + 1
		case c == '\'':
			j := i + 1
			for j < len(src) && src[j] != '\'' {
				if src[j] == '\\' {
					j++
				}
				j++
			}
			out = append(out, tok{"chr", src[i : j+1], i})
			i = j + 1
		default:
			matched := false
			for _, op := range ops {
				if strings.HasPrefix(src[i:], op) {
					out = append(out, tok{"op", op, i})
					i += len(op)
					matched = true
					break
				}
			}
			if !matched {
				return nil, fmt.Errorf("unexpected character %q in %q", c, src)
			}
		}
	}
	out = append(out, tok{"eof", "", len(src)})
	return out, nil
}

func parseSpec(src string) (x *SExpr, err error) {
	toks, err := lexSpec(src)
	if err != nil {
		return nil, err
	}
	p := &specParser{src: src, toks: toks}
	defer func() {
		if r := recover(); r != nil {
			if pe, ok := r.(parseErr); ok {
				err = fmt.Errorf("%s in %q", string(pe), src)
				return
			}
			panic(r)
		}
	}()
	x = p.expr()
	if p.peek().k != "eof" {
		p.fail("unexpected " + p.peek().s)
	}
	x.Src = src
	return x, nil
}

type parseErr string

func (p *specParser) fail(msg string) {
	panic(parseErr(fmt.Sprintf("%s at offset %d", msg, p.peek().pos)))
}
func (p *specParser) peek() tok          { return p.toks[p.p] }
func (p *specParser) next() tok          { t := p.toks[p.p]; p.p++; return t }
func (p *specParser) isOp(s string) bool { t := p.peek(); return t.k == "op" && t.s == s }
func (p *specParser) isID(s string) bool { t := p.peek(); return t.k == "id" && t.s == s }
func (p *specParser) expect(s string) {
	if !p.isOp(s) {
		p.fail("expected " + s + " got " + p.peek().s)
	}
	p.next()
}

func (p *specParser) expr() *SExpr {
	if p.isID("forall") || p.isID("exists") {
		q := p.next().s
		var vars []BoundVar
		for {
			name := p.next()
			if name.k != "id" {
				p.fail("bound variable name expected")
			}
			names := []string{name.s}
			for p.isOp(",") {
				// either "i, j int" or "i int, j int"
				save := p.p
				p.next()
				n2 := p.next()
				if n2.k == "id" && (p.isOp(",") || p.peekIsTypeStart()) {
					names = append(names, n2.s)
					continue
				}
				p.p = save
				break
			}
			// type text up to ',' or '::' at depth 0
			start := p.peek().pos
			depth := 0
			for {
				t := p.peek()
				if t.k == "eof" {
					p.fail("'::' expected")
				}
				if t.k == "op" && (t.s == "[" || t.s == "(") {
					depth++
				}
				if t.k == "op" && (t.s == "]" || t.s == ")") {
					depth--
				}
				if depth == 0 && t.k == "op" && (t.s == "::" || t.s == ",") {
					break
				}
				p.next()
			}
			ty := strings.TrimSpace(p.src[start:p.peek().pos])
			for _, n := range names {
				vars = append(vars, BoundVar{n, ty})
			}
			if p.isOp(",") {
				p.next()
				continue
			}
			break
		}
		p.expect("::")
		// optional instantiation patterns: {t1, t2} {t3} body
		var pats [][]*SExpr
		for p.isOp("{") {
			p.next()
			var grp []*SExpr
			for {
				grp = append(grp, p.iff())
				if p.isOp(",") {
					p.next()
					continue
				}
				break
			}
			p.expect("}")
			pats = append(pats, grp)
		}
		body := p.expr()
		return &SExpr{Op: q, Vars: vars, Args: []*SExpr{body}, Pats: pats}
	}
	return p.iff()
}

func (p *specParser) peekIsTypeStart() bool {
	t := p.peek()
	return t.k == "id" || (t.k == "op" && (t.s == "*" || t.s == "["))
}

func (p *specParser) iff() *SExpr {
	l := p.implies()
	for p.isOp("<==>") {
		p.next()
		r := p.implies()
		l = &SExpr{Op: "binary", Name: "<==>", Args: []*SExpr{l, r}}
	}
	return l
}

func (p *specParser) implies() *SExpr {
	l := p.cond()
	if p.isOp("==>") {
		p.next()
		var r *SExpr
		if p.isID("forall") || p.isID("exists") {
			r = p.expr()
		} else {
			r = p.implies()
		}
		return &SExpr{Op: "binary", Name: "==>", Args: []*SExpr{l, r}}
	}
	return l
}

func (p *specParser) cond() *SExpr {
	c := p.or()
	if p.isOp("?") {
		p.next()
		a := p.cond()
		p.expect(":")
		b := p.cond()
		return &SExpr{Op: "cond", Args: []*SExpr{c, a, b}}
	}
	return c
}

func (p *specParser) or() *SExpr {
	l := p.and()
	for p.isOp("||") {
		p.next()
		r := p.and()
		l = &SExpr{Op: "binary", Name: "||", Args: []*SExpr{l, r}}
	}
	return l
}

func (p *specParser) and() *SExpr {
	l := p.cmp()
	for p.isOp("&&") {
		p.next()
		var r *SExpr
		if p.isID("forall") || p.isID("exists") {
			r = p.expr()
		} else {
			r = p.cmp()
		}
		l = &SExpr{Op: "binary", Name: "&&", Args: []*SExpr{l, r}}
	}
	return l
}

func (p *specParser) cmp() *SExpr {
	l := p.add()
	for {
		t := p.peek()
		if t.k == "op" && (t.s == "==" || t.s == "!=" || t.s == "<" || t.s == "<=" || t.s == ">" || t.s == ">=") {
			p.next()
			r := p.add()
			l = &SExpr{Op: "binary", Name: t.s, Args: []*SExpr{l, r}}
			continue
		}
		if t.k == "id" && t.s == "in" {
			p.next()
			r := p.add()
			l = &SExpr{Op: "binary", Name: "in", Args: []*SExpr{l, r}}
			continue
		}
		return l
	}
}

func (p *specParser) add() *SExpr {
	l := p.mul()
	for p.isOp("+") || p.isOp("-") || p.isOp("++") {
		op := p.next().s
		r := p.mul()
		l = &SExpr{Op: "binary", Name: op, Args: []*SExpr{l, r}}
	}
	return l
}

func (p *specParser) mul() *SExpr {
	l := p.unary()
	for p.isOp("*") || p.isOp("/") || p.isOp("%") {
		op := p.next().s
		r := p.unary()
		l = &SExpr{Op: "binary", Name: op, Args: []*SExpr{l, r}}
	}
	return l
}

func (p *specParser) unary() *SExpr {
	if p.isOp("!") || p.isOp("-") {
		op := p.next().s
		x := p.unary()
		return &SExpr{Op: "unary", Name: op, Args: []*SExpr{x}}
	}
	return p.postfix()
}

func (p *specParser) postfix() *SExpr {
	x := p.primary()
	for {
		switch {
		case p.isOp("."):
			p.next()
			t := p.next()
			if t.k != "id" {
				p.fail("field name expected")
			}
			x = &SExpr{Op: "sel", Name: t.s, Args: []*SExpr{x}}
		case p.isOp("["):
			p.next()
			i := p.expr()
			p.expect("]")
			x = &SExpr{Op: "index", Args: []*SExpr{x, i}}
		case p.isOp("("):
			p.next()
			args := []*SExpr{x}
			for !p.isOp(")") {
				args = append(args, p.expr())
				if p.isOp(",") {
					p.next()
				}
			}
			p.expect(")")
			x = &SExpr{Op: "call", Args: args}
		default:
			return x
		}
	}
}

func (p *specParser) primary() *SExpr {
	t := p.next()
	switch t.k {
	case "id":
		return &SExpr{Op: "ident", Name: t.s}
	case "num":
		if strings.ContainsAny(t.s, ".") || (strings.ContainsAny(t.s, "e") && !strings.HasPrefix(t.s, "0x")) {
			return &SExpr{Op: "float", Name: t.s}
		}
		return &SExpr{Op: "int", Name: t.s}
	case "str":
		return &SExpr{Op: "str", Name: t.s}
	case "chr":
		return &SExpr{Op: "char", Name: t.s}
	case "op":
		if t.s == "(" {
			x := p.expr()
			p.expect(")")
			return x
		}
		if t.s == "*" { // pointer type in call position e.g. dyn(x, *scope)
			x := p.postfix()
			return &SExpr{Op: "unary", Name: "*", Args: []*SExpr{x}}
		}
		if t.s == "[" { // slice type []T
			p.expect("]")
			x := p.postfix()
			return &SExpr{Op: "unary", Name: "[]", Args: []*SExpr{x}}
		}
	}
	p.p--
	p.fail("unexpected token " + t.s)
	return nil
}
