package main

// Bounded drivers: per-property Go tests injected into the real packages with
// `go test -overlay` (nothing is written to the repository). They are used
//  - to replay a failed obligation on the real code (a concrete failing input
//    makes the VIOLATION line carry a reproducing replay file),
//  - as the labelled *bounded* fall-back when a function is undecided,
//  - in the thorough tier as a differential check of the contracts against the
//    running code.
// They never decide a pass at proof level.

import (
	"bytes"
	"context"
	"encoding/json"
	"fmt"
	"os"
	"os/exec"
	"path/filepath"
	"regexp"
	"strconv"
	"strings"
	"time"
)

type DriverRun struct {
	File    string   `json:"driver"`
	PkgDir  string   `json:"package_dir"`
	Cmd     string   `json:"cmd"`
	Ran     bool     `json:"ran"`
	Failed  bool     `json:"failed"`
	Fails   []string `json:"fail_lines,omitempty"`
	Output  string   `json:"output_tail"`
	Seconds float64  `json:"seconds"`
}

// driverModelValues: integer arguments of the solver's counterexamples for
// refuted bit-vector obligations, handed to the drivers as VERIF_MODEL_VALUES
// so that the counterexample itself is replayed on the real code.
var driverModelValues []string

// driverReason: quick | fallback | thorough (exported to the drivers as VERIF_DRIVER_REASON)
var driverReason = "quick"

var bvModelRe = regexp.MustCompile(`define-fun arg_\w+ \(\) \(_ BitVec (\d+)\)\s+(#x[0-9a-fA-F]+|#b[01]+)`)

func modelIntArgs(model string) []string {
	var out []string
	for _, m := range bvModelRe.FindAllStringSubmatch(model, -1) {
		w, _ := strconv.Atoi(m[1])
		base := 16
		if m[2][1] == 'b' {
			base = 2
		}
		u, err := strconv.ParseUint(m[2][2:], base, 64)
		if err != nil {
			continue
		}
		out = append(out, strconv.FormatInt(rtWrap(int64(u), w, true), 10))
	}
	return out
}

func runDrivers(o checkOpts) []DriverRun {
	dir := filepath.Join(o.verif, "drivers", o.prop)
	ents, err := os.ReadDir(dir)
	if err != nil {
		return nil
	}
	var out []DriverRun
	for _, ent := range ents {
		name := ent.Name()
		if !strings.HasSuffix(name, "__zz_verif_driver_test.go") {
			continue
		}
		pkg := strings.TrimSuffix(name, "__zz_verif_driver_test.go")
		pkgDir := strings.ReplaceAll(pkg, "__", "/")
		if pkgDir == "root" {
			pkgDir = "."
		}
		abs := filepath.Join(o.repo, pkgDir)
		scratch, _ := os.MkdirTemp("", "govc-driver")
		ov := map[string]map[string]string{"Replace": {filepath.Join(abs, "zz_verif_driver_test.go"): filepath.Join(dir, name)}}
		b, _ := json.Marshal(ov)
		ovf := filepath.Join(scratch, "overlay.json")
		os.WriteFile(ovf, b, 0o644)
		args := []string{"test", "-overlay", ovf, "-mod=mod", "-vet=off", "-count=1", "-timeout", "180s", "-run", "TestVerifDriver" + o.prop, "."}
		ctx, cancel := context.WithTimeout(context.Background(), 240*time.Second)
		cmd := exec.CommandContext(ctx, "go", args...)
		cmd.Dir = abs
		cmd.Env = append(os.Environ(), "GOFLAGS=-mod=mod", "GOPROXY=off", "GOSUMDB=off", "GOTOOLCHAIN=local", fmt.Sprintf("VERIF_SEED=%d", o.seed), "VERIF_DRIVER_REASON="+driverReason)
		if len(driverModelValues) > 0 {
			cmd.Env = append(cmd.Env, "VERIF_MODEL_VALUES="+strings.Join(driverModelValues, ","))
		}
		var buf bytes.Buffer
		cmd.Stdout = &buf
		cmd.Stderr = &buf
		t0 := time.Now()
		err := cmd.Run()
		cancel()
		os.RemoveAll(scratch)
		r := DriverRun{File: filepath.Join(dir, name), PkgDir: pkgDir, Cmd: "cd " + abs + " && go " + strings.Join(args, " "), Ran: true, Seconds: time.Since(t0).Seconds()}
		txt := buf.String()
		for _, l := range strings.Split(txt, "\n") {
			if i := strings.Index(l, "DRIVER-FAIL:"); i >= 0 {
				r.Fails = append(r.Fails, strings.TrimSpace(l[i:]))
			}
		}
		okLine := strings.Contains(txt, "DRIVER-RESULT: ok")
		if len(r.Fails) > 0 || (err != nil && strings.Contains(txt, "--- FAIL")) || strings.Contains(txt, "panic:") {
			r.Failed = true
		} else if err != nil && !okLine {
			// build failure or timeout: the driver could not run; not a failure of the code
			r.Ran = false
		}
		if len(txt) > 3000 {
			txt = txt[len(txt)-3000:]
		}
		r.Output = txt
		out = append(out, r)
	}
	return out
}
