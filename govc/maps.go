package main

import (
	"fmt"
	"go/token"
	"go/types"

	"golang.org/x/tools/go/ssa"
)

// Maps: a reference (0 = nil) plus, per map type, a domain array, value arrays
// and a length array, all indexed by the reference.

func (e *Engine) keySort(t types.Type) *Sort {
	s, ok := e.scalarSort(t)
	if !ok {
		if _, isPtr := t.Underlying().(*types.Pointer); isPtr {
			return SInt
		}
		panic(unsupported("map key type " + t.String()))
	}
	return s
}

func (e *Engine) keyTerm(v Value) Term {
	switch x := v.(type) {
	case Term:
		return x
	case PtrV:
		if x.Cell == 0 && x.Global == nil && len(x.Path) == 0 {
			return x.Ref
		}
	}
	panic(unsupported(fmt.Sprintf("map key value %T", v)))
}

func mapKeyPrefix(mt *types.Map) string { return "map:" + typeKey(mt) }

func (e *Engine) mapDomKS(mt *types.Map) KeySort {
	return KeySort{mapKeyPrefix(mt) + "#dom", ArrSort(SInt, ArrSort(e.keySort(mt.Key()), SBool))}
}

func (e *Engine) mapLenKS(mt *types.Map) KeySort {
	return KeySort{mapKeyPrefix(mt) + "#len", ArrSort(SInt, SInt)}
}

// mapValKS lists the value arrays of a map type: leaf arrays with the map key
// as the single index dimension.
func (e *Engine) mapValKS(mt *types.Map) []KeySort {
	ks := e.keySort(mt.Key())
	var out []KeySort
	for _, l := range e.leafKeys(mapKeyPrefix(mt)+"#val", mt.Elem(), 0) {
		out = append(out, KeySort{l.Key, ArrSort(SInt, ArrSort(ks, l.Sort.Val))})
	}
	return out
}

func (e *Engine) mapDom(st *State, mt *types.Map, m Term) Term {
	ks := e.mapDomKS(mt)
	e.noteHeapKey(ks.Key, ks.Sort)
	d := e.ctx.Define("dom", Select(st.heapArr(ks.Key, ks.Sort), m))
	if m.S == "0" {
		return ConstArray(ks.Sort.Val, TFalse)
	}
	if _, fresh := isIntLit(m); !fresh {
		st.assume(Implies(Eq(m, IntLit(0)), Eq(d, ConstArray(ks.Sort.Val, TFalse))))
	}
	return d
}

func (e *Engine) mapLen(st *State, mt *types.Map, m Term) Term {
	ks := e.mapLenKS(mt)
	e.noteHeapKey(ks.Key, ks.Sort)
	l := e.ctx.Define("mlen", Select(st.heapArr(ks.Key, ks.Sort), m))
	dom := e.mapDom(st, mt, m)
	k := T("k!q", e.keySort(mt.Key()))
	st.assume(And(Le(IntLit(0), l), Le(l, IntLit(9223372036854775807))))
	st.assume(Iff(Eq(l, IntLit(0)), Forall([]Term{k}, Not(Select(dom, k)))))
	st.assume(Implies(Eq(m, IntLit(0)), Eq(l, IntLit(0))))
	return l
}

// mapGet reads the value stored under key k.
func (e *Engine) mapGet(st *State, mt *types.Map, m, k Term) Value {
	return e.readIndexed(st, mapKeyPrefix(mt)+"#val", mt.Elem(), m, k, e.keySort(mt.Key()))
}

// readIndexed reads a typed value from arrays of shape Array Int (Array K leaf).
func (e *Engine) readIndexed(st *State, prefix string, t types.Type, ref, k Term, ks *Sort) Value {
	rd := func(key string, leaf *Sort) Term {
		so := ArrSort(SInt, ArrSort(ks, leaf))
		e.noteHeapKey(key, so)
		return e.ctx.Define("mv", Select(Select(st.heapArr(key, so), ref), k))
	}
	if s, ok := e.scalarSort(t); ok {
		v := rd(prefix, s)
		e.assumeTyped(st, v, t)
		return v
	}
	switch u := t.Underlying().(type) {
	case *types.Pointer:
		r := rd(prefix, SInt)
		e.assumeRef(st, r)
		return PtrV{Ref: r, RootT: u.Elem(), Elem: u.Elem()}
	case *types.Slice:
		sv := SliceV{Arr: rd(prefix+"#arr", SInt), Off: rd(prefix+"#off", SInt), Len: rd(prefix+"#len", SInt), Cap: rd(prefix+"#cap", SInt), Elem: u.Elem()}
		e.assumeSlice(st, sv)
		return sv
	case *types.Interface:
		iv := IfaceV{Tag: rd(prefix+"#tag", SInt), Pay: rd(prefix+"#pay", SInt)}
		e.assumeIface(st, iv)
		return iv
	case *types.Struct:
		sv := StructV{T: t}
		for i := 0; i < u.NumFields(); i++ {
			sv.F = append(sv.F, e.readIndexed(st, prefix+"."+u.Field(i).Name(), u.Field(i).Type(), ref, k, ks))
		}
		return sv
	}
	panic(unsupported("map value type " + t.String()))
}

func (e *Engine) writeIndexed(st *State, prefix string, t types.Type, ref, k Term, ks *Sort, v Value) {
	wr := func(key string, leaf *Sort, x Term) {
		so := ArrSort(SInt, ArrSort(ks, leaf))
		e.noteHeapKey(key, so)
		a := st.heapArr(key, so)
		st.setHeapArr(key, Store(a, ref, Store(Select(a, ref), k, x)))
	}
	if s, ok := e.scalarSort(t); ok {
		wr(prefix, s, v.(Term))
		return
	}
	switch u := t.Underlying().(type) {
	case *types.Pointer:
		pv := v.(PtrV)
		if pv.Cell > 0 || pv.Global != nil || len(pv.Path) > 0 {
			panic(unsupported("interior pointer stored in map"))
		}
		wr(prefix, SInt, pv.Ref)
	case *types.Slice:
		sv := v.(SliceV)
		wr(prefix+"#arr", SInt, sv.Arr)
		wr(prefix+"#off", SInt, sv.Off)
		wr(prefix+"#len", SInt, sv.Len)
		wr(prefix+"#cap", SInt, sv.Cap)
	case *types.Interface:
		iv := v.(IfaceV)
		wr(prefix+"#tag", SInt, iv.Tag)
		wr(prefix+"#pay", SInt, iv.Pay)
	case *types.Struct:
		sv := v.(StructV)
		for i := 0; i < u.NumFields(); i++ {
			e.writeIndexed(st, prefix+"."+u.Field(i).Name(), u.Field(i).Type(), ref, k, ks, sv.F[i])
		}
	default:
		panic(unsupported("map value type " + t.String()))
	}
}

func (e *Engine) makeMap(st *State, mt *types.Map) Value {
	r := st.alloc()
	dk := e.mapDomKS(mt)
	e.noteHeapKey(dk.Key, dk.Sort)
	st.setHeapArr(dk.Key, Store(st.heapArr(dk.Key, dk.Sort), r, ConstArray(dk.Sort.Val, TFalse)))
	lk := e.mapLenKS(mt)
	e.noteHeapKey(lk.Key, lk.Sort)
	st.setHeapArr(lk.Key, Store(st.heapArr(lk.Key, lk.Sort), r, IntLit(0)))
	return r
}

func (e *Engine) mapSetDom(st *State, mt *types.Map, m, k Term, present bool) {
	dk := e.mapDomKS(mt)
	lk := e.mapLenKS(mt)
	e.noteHeapKey(lk.Key, lk.Sort)
	domArr := st.heapArr(dk.Key, dk.Sort)
	dom := e.mapDom(st, mt, m)
	was := Select(dom, k)
	lenArr := st.heapArr(lk.Key, lk.Sort)
	l := Select(lenArr, m)
	var nl Term
	if present {
		nl = Ite(was, l, Add(l, IntLit(1)))
	} else {
		nl = Ite(was, Sub(l, IntLit(1)), l)
	}
	st.setHeapArr(dk.Key, Store(domArr, m, Store(dom, k, BoolLit(present))))
	st.setHeapArr(lk.Key, Store(lenArr, m, nl))
}

func (e *Engine) mapUpdate(st *State, ins *ssa.MapUpdate) {
	mt := ins.Map.Type().Underlying().(*types.Map)
	m := e.term(st, ins.Map)
	k := e.keyTerm(e.val(st, ins.Key))
	e.oblige(st, "safe", "nil_map_write", Neq(m, IntLit(0)), ins.Pos())
	if e.cur != nil && e.cur.discipline != nil {
		e.cur.discipline.onMapWrite(e, st, ins.Map, ins.Pos())
	}
	e.mapSetDom(st, mt, m, k, true)
	e.writeIndexed(st, mapKeyPrefix(mt)+"#val", mt.Elem(), m, k, e.keySort(mt.Key()), e.val(st, ins.Value))
}

func (e *Engine) mapDelete(st *State, mt *types.Map, m, k Term) {
	// delete on a nil map is a no-op
	if m.S == "0" {
		return
	}
	e.mapSetDom(st, mt, m, k, false)
}

func (e *Engine) lookup(st *State, ins *ssa.Lookup) Value {
	if mt, ok := ins.X.Type().Underlying().(*types.Map); ok {
		m := e.term(st, ins.X)
		k := e.keyTerm(e.val(st, ins.Index))
		dom := e.mapDom(st, mt, m)
		okT := e.ctx.Define("has", Select(dom, k))
		v := e.mapGet(st, mt, m, k)
		v = e.iteValue(st, okT, v, e.zeroValue(mt.Elem()))
		if ins.CommaOk {
			return TupleV{v, okT}
		}
		return v
	}
	// string index
	s := e.term(st, ins.X)
	i := e.term(st, ins.Index)
	e.oblige(st, "safe", "index_in_range", And(Le(IntLit(0), i), Lt(i, slen(s))), ins.Pos())
	r := T("(sbyte "+s.S+" "+i.S+")", SInt)
	st.assume(And(Le(IntLit(0), r), Le(r, IntLit(255))))
	return r
}

// ---------------------------------------------------------------------------
// range / next

func (e *Engine) rangeInit(st *State, ins *ssa.Range) Value {
	if mt, ok := ins.X.Type().Underlying().(*types.Map); ok {
		m := e.term(st, ins.X)
		st.iters[ins] = ConstArray(ArrSort(e.keySort(mt.Key()), SBool), TFalse)
		// ghost: number of keys yielded so far, and the domain at the start of the
		// iteration (the cardinality facts in next() are only used while the
		// domain term is unchanged, i.e. the map was not written during the loop)
		st.ghost["itcnt:"+ins.Name()] = IntLit(0)
		dks := e.mapDomKS(mt)
		st.ghost["itdom:"+ins.Name()] = st.heapArr(dks.Key, dks.Sort)
		st.ghost["itdomv:"+ins.Name()] = Select(st.heapArr(dks.Key, dks.Sort), m)
		return IterV{R: ins, IsMap: true, Map: m, MapT: mt}
	}
	// string
	s := e.term(st, ins.X)
	st.ghost["strpos:"+ins.Name()] = IntLit(0)
	st.ghost["strcnt:"+ins.Name()] = IntLit(0)
	return IterV{R: ins, Str: s}
}

func (e *Engine) next(st *State, ins *ssa.Next) Value {
	it, ok := e.val(st, ins.Iter).(IterV)
	if !ok {
		panic(unsupported("next on unknown iterator"))
	}
	if it.IsMap {
		mt := it.MapT
		ks := e.keySort(mt.Key())
		seen := st.iters[it.R]
		dom := e.mapDom(st, mt, it.Map)
		okT := e.ctx.Fresh("it_ok", SBool)
		k := e.ctx.Fresh("it_k", ks)
		e.assumeTyped(st, k, mt.Key())
		q := T("k!q", ks)
		st.assume(Implies(okT, And(Select(dom, k), Not(Select(seen, k)))))
		st.assume(Implies(Not(okT), Forall([]Term{q}, Implies(Select(dom, q), Select(seen, q)))))
		st.iters[it.R] = e.ctx.Define("seen", Ite(okT, Store(seen, k, TTrue), seen))
		if cv, ok := st.ghost["itcnt:"+it.R.Name()]; ok {
			cnt := cv.(Term)
			dks := e.mapDomKS(mt)
			if d0, ok := st.ghost["itdom:"+it.R.Name()]; ok && d0.(Term).S == st.heapArr(dks.Key, dks.Sort).S {
				// |seen| == cnt, seen is a subset of dom, |dom| == len(m)
				ln := e.mapLen(st, mt, it.Map)
				st.assume(Implies(okT, Lt(cnt, ln)))
				st.assume(Implies(Not(okT), Eq(cnt, ln)))
			} else if dv, ok := st.ghost["itdomv:"+it.R.Name()]; ok {
				// maps of this type were written during the iteration: the facts
				// hold provided this map's key set is still the one it started with
				ln := e.mapLen(st, mt, it.Map)
				same := Eq(Select(st.heapArr(dks.Key, dks.Sort), it.Map), dv.(Term))
				st.assume(Implies(same, And(Implies(okT, Lt(cnt, ln)), Implies(Not(okT), Eq(cnt, ln)))))
			}
			st.ghost["itcnt:"+it.R.Name()] = e.ctx.Define("itcnt", Ite(okT, Add(cnt, IntLit(1)), cnt))
		}
		v := e.mapGet(st, mt, it.Map, k)
		var kv Value = k
		if pt, ok := mt.Key().Underlying().(*types.Pointer); ok {
			kv = PtrV{Ref: k, RootT: pt.Elem(), Elem: pt.Elem()}
		}
		return TupleV{okT, kv, v}
	}
	return e.nextRune(st, it, ins)
}

// nextRune models one step of `for idx, ch := range s`.
//
// The string is viewed as a sequence of runes: runeAt(s, j) is the j-th
// decoded rune (invalid bytes decode to U+FFFD, width 1), runeOff(s, j) its
// byte offset, runeCount(s) the number of runes.  These are uninterpreted
// functions constrained only by the facts stated here (UTF-8 decoding itself
// is assumed, see trusted base).
func (e *Engine) nextRune(st *State, it IterV, ins *ssa.Next) Value {
	s := it.Str
	name := it.R.Name()
	cnt := st.ghost["strcnt:"+name].(Term)
	roff := e.ctx.Func("runeOff", []*Sort{SStr, SInt}, SInt)
	rat := e.ctx.Func("runeAt", []*Sort{SStr, SInt}, SInt)
	rcnt := e.ctx.Func("runeCount", []*Sort{SStr}, SInt)
	n := T("("+rcnt+" "+s.S+")", SInt)
	off := T("("+roff+" "+s.S+" "+cnt.S+")", SInt)
	offn := T("("+roff+" "+s.S+" "+Add(cnt, IntLit(1)).S+")", SInt)
	ch := T("("+rat+" "+s.S+" "+cnt.S+")", SInt)
	st.assume(And(Le(IntLit(0), n), Le(n, slen(s))))
	st.assume(Eq(T("("+roff+" "+s.S+" 0)", SInt), IntLit(0)))
	st.assume(Eq(T("("+roff+" "+s.S+" "+n.S+")", SInt), slen(s)))
	okT := Lt(cnt, n)
	st.assume(Implies(okT, And(Le(Add(off, IntLit(1)), offn), Le(offn, Add(off, IntLit(4))), Le(offn, slen(s)),
		Le(IntLit(0), off), Le(IntLit(0), ch), Le(ch, IntLit(0x10FFFF)))))
	st.ghost["strcnt:"+name] = e.ctx.Define("cnt", Ite(okT, Add(cnt, IntLit(1)), cnt))
	st.ghost["strpos:"+name] = off
	return TupleV{okT, off, ch}
}

// ---------------------------------------------------------------------------
// channels and goroutines (abstract)

func (e *Engine) chanKey(attr string) KeySort {
	so := ArrSort(SInt, SBool)
	if attr == "sent" {
		so = ArrSort(SInt, SInt)
	}
	return KeySort{"chan#" + attr, so}
}

func (e *Engine) chanSet(st *State, ch Term, attr string, v Term) {
	ks := e.chanKey(attr)
	e.noteHeapKey(ks.Key, ks.Sort)
	st.setHeapArr(ks.Key, Store(st.heapArr(ks.Key, ks.Sort), ch, v))
}

func (e *Engine) chanGet(st *State, ch Term, attr string) Term {
	ks := e.chanKey(attr)
	e.noteHeapKey(ks.Key, ks.Sort)
	return Select(st.heapArr(ks.Key, ks.Sort), ch)
}

func (e *Engine) chanClose(st *State, ch Term, pos token.Pos) {
	if e.cur != nil && e.cur.proto != nil && e.cur.proto.onClose(e, st, ch, pos) {
		e.chanSet(st, ch, "closed", TTrue)
		e.event(st, "chan.close", []Term{ch})
		return
	}
	e.oblige(st, "safe", "close_nil_or_closed_channel", And(Neq(ch, IntLit(0)), Not(e.chanGet(st, ch, "closed"))), pos)
	e.chanSet(st, ch, "closed", TTrue)
	e.event(st, "chan.close", []Term{ch})
}

func (e *Engine) chanSend(st *State, ins *ssa.Send) {
	ch := e.term(st, ins.Chan)
	e.sendOn(st, ch, e.val(st, ins.X), ins.Pos())
}

func (e *Engine) sendOn(st *State, ch Term, v Value, pos token.Pos) {
	if e.cur != nil && e.cur.proto != nil {
		e.cur.proto.onSend(e, st, ch, pos)
	} else {
		e.oblige(st, "safe", "send_on_closed_channel", Not(e.chanGet(st, ch, "closed")), pos)
	}
	args := append([]Term{ch}, e.flat(v)...)
	e.eventNamed(st, "chan.send:"+fmt.Sprint(len(args)), args)
}

func (e *Engine) chanRecv(st *State, ins *ssa.UnOp) Value {
	et := ins.X.Type().Underlying().(*types.Chan).Elem()
	v := e.freshValue(st, "recv", et)
	if ins.CommaOk {
		return TupleV{v, e.ctx.Fresh("recv_ok", SBool)}
	}
	return v
}

func (e *Engine) selectOp(st *State, ins *ssa.Select) Value {
	// abstract: any ready case may be chosen
	n := len(ins.States)
	idx := e.ctx.Fresh("sel", SInt)
	lo := int64(0)
	if !ins.Blocking {
		lo = -1
	}
	st.assume(And(Le(IntLit(lo), idx), Lt(idx, IntLit(int64(n)))))
	tv := TupleV{idx, e.ctx.Fresh("sel_ok", SBool)}
	for i, s := range ins.States {
		if s.Dir == types.RecvOnly {
			et := s.Chan.Type().Underlying().(*types.Chan).Elem()
			tv = append(tv, e.freshValue(st, "selrecv", et))
		} else {
			// a send that is chosen: obligation under the choice
			ch := e.term(st, s.Chan)
			chosen := Eq(idx, IntLit(int64(i)))
			if e.cur != nil && e.cur.proto != nil {
				sub := st.clone()
				sub.assume(chosen)
				e.cur.proto.onSend(e, sub, ch, s.Pos)
			} else {
				e.oblige(st, "safe", "send_on_closed_channel", Implies(chosen, Not(e.chanGet(st, ch, "closed"))), s.Pos)
			}
			_ = e.val(st, s.Send)
		}
	}
	return tv
}

func (e *Engine) goStmt(st *State, ins *ssa.Go) {
	name := "?"
	if f := ins.Call.StaticCallee(); f != nil {
		name = f.String()
	}
	e.eventNamed(st, "go:"+name, nil)
	e.note("goroutine start recorded as an event; its body is verified separately if under contract")
}
