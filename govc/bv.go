package main

// Bit-vector verification of small pure integer functions (zigzag coding and
// similar bit tricks).  A contract marked `bitvector` is not run through the
// Int-based symbolic executor: the function's SSA (one basic block of integer
// operations) is translated to SMT-LIB bit-vector terms of the exact machine
// widths, its `ensures` clauses are translated likewise (they may call other
// `bitvector` functions of the same package, whose SSA is translated in place),
// and each clause is one QF_BV query.  Exact for all 2^64 inputs.

import (
	"fmt"
	"go/token"
	"go/types"
	"strings"

	"golang.org/x/tools/go/ssa"
)

type bvVal struct {
	s      string
	w      int
	signed bool
}

func bvTypeOf(t types.Type) (int, bool, bool) {
	b, ok := t.Underlying().(*types.Basic)
	if !ok || b.Info()&types.IsInteger == 0 {
		return 0, false, false
	}
	w, signed := intRange(t)
	return w, signed, true
}

func bvConst(n int64, w int) string {
	if n >= 0 {
		return fmt.Sprintf("(_ bv%d %d)", uint64(n), w)
	}
	return fmt.Sprintf("(bvneg (_ bv%d %d))", uint64(-n), w)
}

func bvResize(v bvVal, w int) string {
	switch {
	case v.w == w:
		return v.s
	case v.w > w:
		return fmt.Sprintf("((_ extract %d 0) %s)", w-1, v.s)
	case v.signed:
		return fmt.Sprintf("((_ sign_extend %d) %s)", w-v.w, v.s)
	default:
		return fmt.Sprintf("((_ zero_extend %d) %s)", w-v.w, v.s)
	}
}

// bvFunc translates a single-block integer function applied to args.
func (e *Engine) bvFunc(fn *ssa.Function, args []bvVal) bvVal {
	if len(fn.Blocks) == 0 {
		panic(unsupported("bitvector: no body for " + fn.String()))
	}
	env := map[ssa.Value]bvVal{}
	cells := map[*ssa.Alloc]bvVal{}
	// integer parameters only; a receiver or other non-integer parameter is ignored
	k := 0
	for _, p := range fn.Params {
		if w, sg, ok := bvTypeOf(p.Type()); ok {
			if k >= len(args) {
				panic(unsupported("bitvector: argument count of " + fn.String()))
			}
			env[p] = bvVal{bvResize(args[k], w), w, sg}
			k++
		}
	}
	val := func(v ssa.Value) bvVal {
		if c, ok := v.(*ssa.Const); ok {
			w, sg, ok := bvTypeOf(c.Type())
			if !ok {
				panic(unsupported("bitvector: constant of type " + c.Type().String()))
			}
			t := constIntTerm(c.Value)
			var n int64
			if strings.HasPrefix(t.S, "(- ") {
				fmt.Sscanf(t.S, "(- %d)", &n)
				n = -n
			} else if _, err := fmt.Sscanf(t.S, "%d", &n); err != nil {
				var u uint64
				fmt.Sscanf(t.S, "%d", &u)
				return bvVal{fmt.Sprintf("(_ bv%d %d)", u, w), w, sg}
			}
			return bvVal{bvConst(n, w), w, sg}
		}
		x, ok := env[v]
		if !ok {
			panic(unsupported("bitvector: value " + v.Name() + " of " + fn.String()))
		}
		return x
	}
	b := fn.Blocks[0]
	for {
		var next *ssa.BasicBlock
		for _, ins := range b.Instrs {
			switch x := ins.(type) {
			case *ssa.Alloc:
				// naive form: a local cell
			case *ssa.Store:
				a, ok := x.Addr.(*ssa.Alloc)
				if !ok {
					panic(unsupported("bitvector: store through a pointer in " + fn.String()))
				}
				if _, _, isInt := bvTypeOf(x.Val.Type()); isInt {
					cells[a] = val(x.Val)
				}
			case *ssa.UnOp:
				switch x.Op {
				case token.MUL:
					a, ok := x.X.(*ssa.Alloc)
					if !ok {
						panic(unsupported("bitvector: load through a pointer in " + fn.String()))
					}
					if c, ok := cells[a]; ok {
						env[x] = c
					}
				case token.SUB:
					v := val(x.X)
					env[x] = bvVal{"(bvneg " + v.s + ")", v.w, v.signed}
				case token.XOR:
					v := val(x.X)
					env[x] = bvVal{"(bvnot " + v.s + ")", v.w, v.signed}
				default:
					panic(unsupported("bitvector: unary " + x.Op.String()))
				}
			case *ssa.BinOp:
				l, r := val(x.X), val(x.Y)
				w, sg := l.w, l.signed
				rs := bvResize(r, w)
				var op string
				switch x.Op {
				case token.ADD:
					op = "bvadd"
				case token.SUB:
					op = "bvsub"
				case token.MUL:
					op = "bvmul"
				case token.AND:
					op = "bvand"
				case token.OR:
					op = "bvor"
				case token.XOR:
					op = "bvxor"
				case token.SHL:
					op = "bvshl"
				case token.SHR:
					op = "bvlshr"
					if sg {
						op = "bvashr"
					}
				case token.AND_NOT:
					env[x] = bvVal{"(bvand " + l.s + " (bvnot " + rs + "))", w, sg}
					continue
				default:
					panic(unsupported("bitvector: binary " + x.Op.String()))
				}
				env[x] = bvVal{"(" + op + " " + l.s + " " + rs + ")", w, sg}
			case *ssa.Convert:
				v := val(x.X)
				w, sg, ok := bvTypeOf(x.Type())
				if !ok {
					panic(unsupported("bitvector: conversion to " + x.Type().String()))
				}
				env[x] = bvVal{bvResize(v, w), w, sg}
			case *ssa.Call, *ssa.RunDefers:
				// ssa:deferstack / rundefers of naive form: no effect here
				if c, ok := x.(*ssa.Call); ok {
					if b, ok := c.Call.Value.(*ssa.Builtin); !ok || !strings.HasPrefix(b.Name(), "ssa:") {
						panic(unsupported("bitvector: call in " + fn.String()))
					}
				}
			case *ssa.Jump:
				next = b.Succs[0]
			case *ssa.Return:
				if len(x.Results) != 1 {
					panic(unsupported("bitvector: one result expected in " + fn.String()))
				}
				return val(x.Results[0])
			case *ssa.DebugRef:
			default:
				panic(unsupported(fmt.Sprintf("bitvector: instruction %T in %s", ins, fn)))
			}
		}
		if next == nil {
			panic(unsupported("bitvector: no return in " + fn.String()))
		}
		b = next
	}
}

// bvSpec translates a specification expression over the integer parameters,
// `result`, literals, integer operators and calls of bitvector functions.
func (e *Engine) bvSpec(pkg string, x *SExpr, vars map[string]bvVal, w int) bvVal {
	switch x.Op {
	case "ident":
		if v, ok := vars[x.Name]; ok {
			return v
		}
		sfail("bitvector: unknown identifier %s", x.Name)
	case "int":
		var n int64
		fmt.Sscanf(x.Name, "%d", &n)
		return bvVal{bvConst(n, w), w, true}
	case "call":
		name := x.Args[0].String()
		var fn *ssa.Function
		for f := range e.allFuncs {
			p, r := e.relName(f)
			if p == pkg && (r == name || strings.HasSuffix(r, ")."+name)) {
				if c := e.contractOf(f); c != nil && c.BitVector {
					fn = f
				}
			}
		}
		if fn == nil {
			sfail("bitvector: %s is not a bitvector function of this package", name)
		}
		var args []bvVal
		for _, a := range x.Args[1:] {
			args = append(args, e.bvSpec(pkg, a, vars, w))
		}
		return e.bvFunc(fn, args)
	case "binary":
		switch x.Name {
		case "&&", "||", "==>":
			l, r := e.bvSpec(pkg, x.Args[0], vars, w), e.bvSpec(pkg, x.Args[1], vars, w)
			op := map[string]string{"&&": "and", "||": "or", "==>": "=>"}[x.Name]
			return bvVal{"(" + op + " " + l.s + " " + r.s + ")", 0, false}
		}
		l := e.bvSpec(pkg, x.Args[0], vars, w)
		r := e.bvSpec(pkg, x.Args[1], vars, l.w)
		rs := bvResize(r, l.w)
		switch x.Name {
		case "==":
			return bvVal{"(= " + l.s + " " + rs + ")", 0, false}
		case "!=":
			return bvVal{"(not (= " + l.s + " " + rs + "))", 0, false}
		case "<", "<=", ">", ">=":
			op := map[string]string{"<": "bvslt", "<=": "bvsle", ">": "bvsgt", ">=": "bvsge"}[x.Name]
			if !l.signed {
				op = map[string]string{"<": "bvult", "<=": "bvule", ">": "bvugt", ">=": "bvuge"}[x.Name]
			}
			return bvVal{"(" + op + " " + l.s + " " + rs + ")", 0, false}
		case "+", "-", "*", "&", "|", "^":
			op := map[string]string{"+": "bvadd", "-": "bvsub", "*": "bvmul", "&": "bvand", "|": "bvor", "^": "bvxor"}[x.Name]
			return bvVal{"(" + op + " " + l.s + " " + rs + ")", l.w, l.signed}
		}
	}
	sfail("bitvector: unsupported expression %s", x)
	return bvVal{}
}

// verifyBitVector produces the obligations of a `bitvector` contract.
func (e *Engine) verifyBitVector(fn *ssa.Function, c *Contract) *FuncResult {
	pkg, rel := e.relName(fn)
	res := &FuncResult{Func: pkgBase(pkg) + "." + rel, Props: c.Props}
	defer func() {
		if r := recover(); r != nil {
			switch x := r.(type) {
			case specErr:
				res.Undecided = x.Error()
			case unsupportedErr:
				res.Undecided = x.Error()
			default:
				panic(r)
			}
		}
	}()
	vars := map[string]bvVal{}
	var decls []string
	var args []bvVal
	w0 := 64
	for _, p := range fn.Params {
		if w, sg, ok := bvTypeOf(p.Type()); ok {
			name := "arg_" + p.Name()
			decls = append(decls, fmt.Sprintf("(declare-fun %s () (_ BitVec %d))", name, w))
			v := bvVal{name, w, sg}
			vars[p.Name()] = v
			args = append(args, v)
			w0 = w
		}
	}
	r := e.bvFunc(fn, args)
	vars["result"] = r
	var pre []string
	for _, rq := range c.Requires {
		pre = append(pre, e.bvSpec(pkg, rq.Expr, vars, w0).s)
	}
	for i, en := range c.Ensures {
		g := e.bvSpec(pkg, en.Expr, vars, w0)
		ob := &Obligation{Kind: "post", Clause: clauseName(en, i), Pos: e.pos(fn.Pos()), Goal: "", Props: c.Props}
		ob.Name = res.Func + "/post." + clauseName(en, i)
		ob.Func = res.Func
		var sb strings.Builder
		sb.WriteString("(set-option :produce-models true)\n(set-logic QF_BV)\n")
		sb.WriteString(strings.Join(decls, "\n") + "\n")
		for _, p := range pre {
			sb.WriteString("(assert " + p + ")\n")
		}
		sb.WriteString("(assert (not " + g.s + "))\n(check-sat)\n")
		ob.Query = sb.String()
		ob.NegGoal = "(not " + g.s + ")"
		e.obls = append(e.obls, ob)
	}
	res.Notes = append(res.Notes, "bitvector contract: exact machine arithmetic (QF_BV), all inputs")
	return res
}
