package main

import (
	"bytes"
	"context"
	"fmt"
	"os"
	"os/exec"
	"path/filepath"
	"sort"
	"strings"
	"sync"
	"time"
)

type solverDef struct {
	name string
	args func(file string, timeoutS int, seed int) []string
	prep func(q string) string
}

var solverSeed = 0

// stagedOrder: start delay per portfolio member (same order as solvers).
var stagedOrder = []time.Duration{400 * time.Millisecond, 400 * time.Millisecond, 0, 0}

// procTokens bounds the number of solver processes running at once.
var procTokens = make(chan struct{}, 16)

var solvers = []solverDef{
	{"z3-4.8.12", func(f string, t int, seed int) []string {
		return []string{"/usr/bin/z3", fmt.Sprintf("-T:%d", t), fmt.Sprintf("smt.random_seed=%d", seed), fmt.Sprintf("sat.random_seed=%d", seed), f}
	}, nil},
	{"z3-5.1.0", func(f string, t int, seed int) []string {
		return []string{"z3-new", fmt.Sprintf("-T:%d", t), fmt.Sprintf("smt.random_seed=%d", seed), fmt.Sprintf("sat.random_seed=%d", seed), f}
	}, nil},
	// pure E-matching (no model-based instantiation, no auto-configuration):
	// decides pattern-driven obligations that the default strategy loses itself in
	{"z3-5.1.0-ematch", func(f string, t int, seed int) []string {
		return []string{"z3-new", fmt.Sprintf("-T:%d", t), "smt.mbqi=false", "smt.auto_config=false", fmt.Sprintf("smt.random_seed=%d", seed), f}
	}, nil},
	{"cvc5-1.0", func(f string, t int, seed int) []string {
		return []string{"cvc5", fmt.Sprintf("--tlimit=%d", t*1000), fmt.Sprintf("--seed=%d", seed), "--lang=smt2", f}
	}, nil},
}

type solveResult struct {
	verdict string // unsat sat unknown
	solver  string
	out     string
	dur     float64
}

// runSolvers races the portfolio on one query.
func runSolvers(dir string, id int, query string, timeoutS int, wantModel bool, only string) solveResult {
	return runSolversSeed(dir, id, query, timeoutS, wantModel, only, solverSeed)
}

func runSolversSeed(dir string, id int, query string, timeoutS int, wantModel bool, only string, seed int) solveResult {
	file := filepath.Join(dir, fmt.Sprintf("q%06d_s%d.smt2", id, seed))
	if seed == solverSeed {
		file = filepath.Join(dir, fmt.Sprintf("q%06d.smt2", id))
	}
	q := query
	if wantModel {
		q += "(get-model)\n"
	}
	if err := os.WriteFile(file, []byte(q), 0o644); err != nil {
		return solveResult{verdict: "error", out: err.Error()}
	}
	ctx, cancel := context.WithCancel(context.Background())
	defer cancel()
	type one struct {
		r solveResult
	}
	ch := make(chan solveResult, len(solvers))
	n := 0
	start := time.Now()
	for k, s := range solvers {
		if only != "" && !strings.Contains(s.name, only) {
			continue
		}
		n++
		s := s
		// staged portfolio: most queries are decided within milliseconds by the
		// first two back ends; the others join after a short delay
		delay := time.Duration(0)
		if only == "" && k < len(stagedOrder) {
			delay = stagedOrder[k]
		}
		go func() {
			if delay > 0 {
				select {
				case <-time.After(delay):
				case <-ctx.Done():
					ch <- solveResult{verdict: "unknown", solver: s.name, out: "cancelled"}
					return
				}
			}
			// at most one solver process per core: a starved solver times out
			// for no semantic reason
			select {
			case procTokens <- struct{}{}:
			case <-ctx.Done():
				ch <- solveResult{verdict: "unknown", solver: s.name, out: "cancelled"}
				return
			}
			defer func() { <-procTokens }()
			pctx, pcancel := context.WithTimeout(ctx, time.Duration(timeoutS+2)*time.Second)
			defer pcancel()
			a := s.args(file, timeoutS, seed)
			cmd := exec.CommandContext(pctx, a[0], a[1:]...)
			var out bytes.Buffer
			cmd.Stdout = &out
			cmd.Stderr = &out
			t0 := time.Now()
			_ = cmd.Run()
			o := out.String()
			// the verdict is the first line that is not a solver warning
			v := "unknown"
			for _, ln := range strings.Split(o, "\n") {
				ln = strings.TrimSpace(ln)
				if ln == "" || strings.HasPrefix(ln, "WARNING") {
					continue
				}
				if ln == "unsat" || ln == "sat" {
					v = ln
				}
				break
			}
			ch <- solveResult{verdict: v, solver: s.name, out: o, dur: time.Since(t0).Seconds()}
		}()
	}
	var last solveResult
	var outs []string
	for i := 0; i < n; i++ {
		r := <-ch
		outs = append(outs, r.solver+": "+strings.TrimSpace(firstLines(r.out, 3)))
		if r.verdict == "unsat" || r.verdict == "sat" {
			cancel()
			r.dur = time.Since(start).Seconds()
			return r
		}
		last = r
	}
	last.verdict = "unknown"
	last.out = strings.Join(outs, " | ")
	last.dur = time.Since(start).Seconds()
	return last
}

func firstLines(s string, n int) string {
	l := strings.SplitN(s, "\n", n+1)
	if len(l) > n {
		l = l[:n]
	}
	return strings.Join(l, " / ")
}

// discharge runs all obligations through the portfolio with a worker pool.
// knownFailing: obligation names listed as known findings – one short attempt,
// no escalation (they are expected to fail; do not burn the time budget).
var knownFailing = map[string]bool{}

func discharge(obls []*Obligation, dir string, timeoutS int, workers int) {
	var wg sync.WaitGroup
	sem := make(chan struct{}, workers)
	for i, ob := range obls {
		wg.Add(1)
		sem <- struct{}{}
		go func(i int, ob *Obligation) {
			defer wg.Done()
			defer func() { <-sem }()
			to := timeoutS
			if knownFailing[ob.Name] && to > 4 {
				to = 4
			}
			r := runSolvers(dir, i, ob.Query, to, false, "")
			if r.verdict == "unknown" && !knownFailing[ob.Name] && !ob.Cover {
				// fewer hypotheses: without facts about dead heap versions and
				// unrelated specification functions (only `unsat` counts there)
				if pq, ok := pruneStale(ob.Query); ok {
					if rp := runSolvers(dir, i*1000+999, pq, to, false, ""); rp.verdict == "unsat" {
						rp.solver += "+pruned"
						r = rp
					}
				}
			}
			splitTried := false
			if r.verdict == "unknown" && !knownFailing[ob.Name] && !ob.Cover && ob.Goal != "" {
				if rs, ok := solveSplit(dir, i, ob, timeoutS); ok {
					r = rs
					splitTried = true
				}
			}
			if r.verdict == "unknown" && !knownFailing[ob.Name] && !splitTried {
				// escalate: other random seeds (quantifier instantiation is
				// order-sensitive), then a longer limit
				for _, sd := range []int{solverSeed + 7, solverSeed + 13, solverSeed + 101} {
					r = runSolversSeed(dir, i, ob.Query, timeoutS, false, "", sd)
					if r.verdict != "unknown" {
						break
					}
				}
				if r.verdict == "unknown" {
					r = runSolvers(dir, i, ob.Query, timeoutS*3, false, "")
				}
			}
			ob.Solver = r.solver
			ob.Time = r.dur
			if ob.Cover {
				switch r.verdict {
				case "sat":
					ob.Verdict = "covered"
				case "unsat":
					ob.Verdict = "vacuous"
				default:
					ob.Verdict = "cover-unknown"
				}
				ob.Output = firstLines(r.out, 2)
				return
			}
			switch r.verdict {
			case "unsat":
				ob.Verdict = "discharged"
			case "sat":
				ob.Verdict = "refuted"
				m := runSolvers(dir, i, ob.Query, timeoutS, true, r.solver)
				ob.Model = m.out
				ob.Output = firstLines(r.out, 2)
			default:
				ob.Verdict = "unknown"
				ob.Output = r.out
			}
		}(i, ob)
	}
	wg.Wait()
}

// solveSplit discharges an obligation conjunct by conjunct (see split.go).
// ok=false: the goal does not split.  All parts unsat -> unsat; a sat part ->
// sat (the split is an equivalence); otherwise unknown.
func solveSplit(dir string, id int, ob *Obligation, timeoutS int) (solveResult, bool) {
	parts := splitGoal(ob.Goal)
	if len(parts) <= 1 {
		return solveResult{}, false
	}
	start := time.Now()
	res := solveResult{verdict: "unsat", solver: "split"}
	solversUsed := map[string]bool{}
	for k, p := range parts {
		q, ok := queryWithGoal(ob.Query, ob.NegGoal, p)
		if !ok {
			return solveResult{}, false
		}
		sid := id*1000 + 500 + k
		r := runSolvers(dir, sid, q, timeoutS, false, "")
		if r.verdict == "unknown" {
			if pq, ok := pruneStale(q); ok {
				if rp := runSolvers(dir, sid+250, pq, timeoutS, false, ""); rp.verdict == "unsat" {
					rp.solver += "+pruned"
					r = rp
				}
			}
		}
		if r.verdict == "unknown" {
			for _, sd := range []int{solverSeed + 7, solverSeed + 13, solverSeed + 101} {
				r = runSolversSeed(dir, sid, q, timeoutS, false, "", sd)
				if r.verdict != "unknown" {
					break
				}
			}
		}
		if r.verdict == "unknown" {
			r = runSolvers(dir, sid, q, timeoutS*3, false, "")
		}
		switch r.verdict {
		case "unsat":
			solversUsed[r.solver] = true
		case "sat":
			r.dur = time.Since(start).Seconds()
			return r, true
		default:
			res.verdict = "unknown"
			res.out = fmt.Sprintf("goal part %d/%d undecided: %s :: %s", k+1, len(parts), firstLines(p, 1), r.out)
			if len(res.out) > 3000 {
				res.out = res.out[:3000]
			}
			res.dur = time.Since(start).Seconds()
			return res, true
		}
	}
	var names []string
	for n := range solversUsed {
		names = append(names, n)
	}
	sort.Strings(names)
	res.solver = "split(" + strings.Join(names, ",") + ")"
	res.dur = time.Since(start).Seconds()
	ob.Parts = len(parts)
	return res, true
}
