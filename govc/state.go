package main

import (
	"fmt"
	"go/token"
	"go/types"
	"sort"
	"strings"

	"golang.org/x/tools/go/ssa"
)

type deferred struct {
	call *ssa.CallCommon
	args []Value
	fnv  Value
	pos  token.Pos
}

type lockMode int

const (
	lockNone lockMode = iota
	lockR
	lockW
)

// State is the symbolic state of one path.
type State struct {
	e     *Engine
	env   map[ssa.Value]Value
	cells map[int]Value
	heap  map[string]Term // heap array key -> current array term
	pc    []Term

	nextRefBase Term
	nextRefOff  int64

	known map[string]bool

	defers [][]deferred
	active map[*ssa.BasicBlock]bool // loops being cut on this path

	// ghost call trace
	calls    Term // Array Int Event
	callsLen Term
	callsR   [3]Term // results of the recorded calls (flattened, Int)

	locks  map[string]lockMode // held locks by location string
	iters  map[*ssa.Range]Term // ghost "seen" sets of map iterators
	ghost  map[string]Value    // named ghost variables
	retVal Value
	depth  int

	panicked     bool
	trail        []string          // human-readable path description
	labels       map[string]*State // labelled snapshots (loop entry etc.)
	lastCallRets []Value
	assumeTo     *State         // facts learned while evaluating in this (old) state go here
	pending      []pendingHavoc // blanket havocs to apply to heap arrays first touched later
}

// pendingHavoc: a "modifies *" event; arrays that were not yet known when it
// happened get the same treatment when they are first read.
type pendingHavoc struct {
	gen  int
	cond *Term
}

func (e *Engine) newState() *State {
	st := &State{
		e:      e,
		env:    map[ssa.Value]Value{},
		cells:  map[int]Value{},
		heap:   map[string]Term{},
		known:  map[string]bool{},
		active: map[*ssa.BasicBlock]bool{},
		locks:  map[string]lockMode{},
		iters:  map[*ssa.Range]Term{},
		ghost:  map[string]Value{},
		labels: map[string]*State{},
	}
	st.nextRefBase = e.ctx.Const("nextRef0", SInt)
	st.pc = append(st.pc, Le(IntLit(1), st.nextRefBase))
	st.calls = e.ctx.Const("calls0", ArrSort(SInt, SEvent))
	st.callsLen = e.ctx.Const("callsLen0", SInt)
	st.pc = append(st.pc, Le(IntLit(0), st.callsLen))
	for i := range st.callsR {
		st.callsR[i] = e.ctx.Const(fmt.Sprintf("callsR%d_0", i), ArrSort(SInt, SInt))
	}
	return st
}

func (st *State) clone() *State {
	n := *st
	n.env = make(map[ssa.Value]Value, len(st.env))
	for k, v := range st.env {
		n.env[k] = v
	}
	n.cells = make(map[int]Value, len(st.cells))
	for k, v := range st.cells {
		n.cells[k] = v
	}
	n.heap = make(map[string]Term, len(st.heap))
	for k, v := range st.heap {
		n.heap[k] = v
	}
	n.pc = append([]Term{}, st.pc...)
	n.known = make(map[string]bool, len(st.known))
	for k, v := range st.known {
		n.known[k] = v
	}
	n.defers = make([][]deferred, len(st.defers))
	for i := range st.defers {
		n.defers[i] = append([]deferred{}, st.defers[i]...)
	}
	n.active = make(map[*ssa.BasicBlock]bool, len(st.active))
	for k, v := range st.active {
		n.active[k] = v
	}
	n.locks = make(map[string]lockMode, len(st.locks))
	for k, v := range st.locks {
		n.locks[k] = v
	}
	n.iters = make(map[*ssa.Range]Term, len(st.iters))
	for k, v := range st.iters {
		n.iters[k] = v
	}
	n.ghost = make(map[string]Value, len(st.ghost))
	for k, v := range st.ghost {
		n.ghost[k] = v
	}
	n.labels = make(map[string]*State, len(st.labels))
	for k, v := range st.labels {
		n.labels[k] = v
	}
	n.trail = append([]string{}, st.trail...)
	n.pending = append([]pendingHavoc{}, st.pending...)
	return &n
}

func (st *State) assume(t Term) {
	if t.S == "true" {
		return
	}
	if st.assumeTo != nil {
		st.assumeTo.assume(t)
		return
	}
	if st.known[t.S] {
		return
	}
	st.known[t.S] = true
	st.pc = append(st.pc, t)
}

func (st *State) nextRefTerm() Term {
	if st.nextRefOff == 0 {
		return st.nextRefBase
	}
	return Add(st.nextRefBase, IntLit(st.nextRefOff))
}

// alloc returns a fresh object reference.
func (st *State) alloc() Term {
	r := st.nextRefTerm()
	st.nextRefOff++
	return r
}

// havocAlloc: after a call that may allocate, the allocation frontier moves to
// an unknown, not smaller, position.
func (st *State) havocAlloc() {
	old := st.nextRefTerm()
	nb := st.e.ctx.Fresh("nextRef", SInt)
	st.nextRefBase = nb
	st.nextRefOff = 0
	st.assume(Le(old, nb))
}

// ---------------------------------------------------------------------------
// Heap arrays

func heapSym(key string) string { return "H:" + key }

// heapArr returns the current array for a key (declaring the initial one).
func (st *State) heapArr(key string, so *Sort) Term {
	if t, ok := st.heap[key]; ok {
		return t
	}
	a := st.e.ctx.Const(heapSym(key)+"@0", so)
	if len(st.pending) == 0 {
		return a
	}
	initOnly, _ := st.e.stableKeys()
	if initOnly[key] {
		return a
	}
	for _, p := range st.pending {
		fresh := st.e.ctx.Const(fmt.Sprintf("%s@g%d", heapSym(key), p.gen), so)
		if p.cond != nil {
			a = Ite(*p.cond, fresh, a)
		} else {
			a = fresh
		}
	}
	st.e.noteHeapKey(key, so)
	st.heap[key] = st.e.ctx.Define(heapSym(key), a)
	return st.heap[key]
}

func (st *State) setHeapArr(key string, t Term) {
	st.heap[key] = st.e.ctx.Define(heapSym(key), t)
}

// arrSortFor builds Array Int (Array Int ... leaf) with dims index dimensions
// in addition to the reference dimension.
func arrSortFor(dims int, leaf *Sort) *Sort {
	s := leaf
	for i := 0; i < dims; i++ {
		s = ArrSort(SInt, s)
	}
	return ArrSort(SInt, s)
}

func (st *State) heapRead(key string, leaf *Sort, ref Term, idx []Term) Term {
	a := st.heapArr(key, arrSortFor(len(idx), leaf))
	t := Select(a, ref)
	for _, ix := range idx {
		t = Select(t, ix)
	}
	return t
}

func (st *State) heapWrite(key string, leaf *Sort, ref Term, idx []Term, v Term) {
	a := st.heapArr(key, arrSortFor(len(idx), leaf))
	st.e.noteHeapKey(key, arrSortFor(len(idx), leaf))
	// build nested store
	var rec func(arr Term, keys []Term) Term
	rec = func(arr Term, keys []Term) Term {
		if len(keys) == 1 {
			return Store(arr, keys[0], v)
		}
		inner := Select(arr, keys[0])
		return Store(arr, keys[0], rec(inner, keys[1:]))
	}
	keys := append([]Term{ref}, idx...)
	st.setHeapArr(key, rec(a, keys))
}

// havocHeapKey replaces an entire heap array by a fresh one.
func (st *State) havocHeapKey(ks KeySort) {
	st.e.noteHeapKey(ks.Key, ks.Sort)
	st.heap[ks.Key] = st.e.ctx.Fresh(heapSym(ks.Key)+"@h", ks.Sort)
}

// havocHeapSlot replaces the slot of one root object.
func (st *State) havocHeapSlot(ks KeySort, ref Term) {
	st.e.noteHeapKey(ks.Key, ks.Sort)
	a := st.heapArr(ks.Key, ks.Sort)
	fresh := st.e.ctx.Fresh(heapSym(ks.Key)+"@s", ks.Sort.Val)
	st.setHeapArr(ks.Key, Store(a, ref, fresh))
}

// KeySort names one heap array.
type KeySort struct {
	Key  string
	Sort *Sort
}

// leafKeys enumerates the heap arrays that hold a value of type t stored at
// key prefix with dims index dimensions.
func (e *Engine) leafKeys(prefix string, t types.Type, dims int) []KeySort {
	if s, ok := e.scalarSort(t); ok {
		return []KeySort{{prefix, arrSortFor(dims, s)}}
	}
	is := arrSortFor(dims, SInt)
	switch u := t.Underlying().(type) {
	case *types.Pointer:
		return []KeySort{{prefix, is}}
	case *types.Slice:
		return []KeySort{{prefix + "#arr", is}, {prefix + "#off", is}, {prefix + "#len", is}, {prefix + "#cap", is}}
	case *types.Interface:
		return []KeySort{{prefix + "#tag", is}, {prefix + "#pay", is}}
	case *types.Signature:
		return []KeySort{{prefix + "#fn", is}}
	case *types.Struct:
		var out []KeySort
		for i := 0; i < u.NumFields(); i++ {
			out = append(out, e.leafKeys(prefix+"."+u.Field(i).Name(), u.Field(i).Type(), dims)...)
		}
		return out
	case *types.Array:
		return e.leafKeys(prefix+"[]", u.Elem(), dims+1)
	}
	panic(unsupported("leafKeys of " + t.String()))
}

func (e *Engine) noteHeapKey(key string, so *Sort) {
	if _, ok := e.heapKeys[key]; !ok {
		e.heapKeys[key] = so
	}
}

// ---------------------------------------------------------------------------
// Locations: load / store of typed values through pointers

func (e *Engine) rootKey(t types.Type) string {
	// array objects share the heap arrays of slice backing stores
	if at, ok := t.Underlying().(*types.Array); ok {
		return typeKey(types.NewSlice(at.Elem()))
	}
	return typeKey(t)
}

// pathSuffix computes the heap key suffix and index list of a pointer path.
func (e *Engine) pathSuffix(p PtrV) (string, []Term) {
	var sb strings.Builder
	var idx []Term
	cur := p.RootT
	for _, s := range p.Path {
		if s.Field >= 0 {
			stt, ok := cur.Underlying().(*types.Struct)
			if !ok {
				panic(unsupported(fmt.Sprintf("field step on non-struct %s", cur)))
			}
			sb.WriteString("." + stt.Field(s.Field).Name())
		} else {
			sb.WriteString("[]")
			idx = append(idx, s.Index)
		}
		cur = s.T
	}
	return sb.String(), idx
}

func (p PtrV) rootName(e *Engine) string {
	if p.Global != nil {
		return "glob:" + p.Global.Pkg.Pkg.Path() + "." + p.Global.Name()
	}
	return e.rootKey(p.RootT)
}

func (e *Engine) rootRef(st *State, p PtrV) Term {
	if p.Global != nil {
		return IntLit(0)
	}
	return p.Ref
}

// load reads the value of type t at pointer p.
func (e *Engine) load(st *State, p PtrV, t types.Type) Value {
	if p.Cell > 0 {
		v, ok := st.cells[p.Cell]
		if !ok {
			panic(unsupported("load from unknown cell"))
		}
		return e.navigate(v, p.Path)
	}
	suffix, idx := e.pathSuffix(p)
	return e.loadAt(st, p.rootName(e)+suffix, e.rootRef(st, p), idx, t)
}

func (e *Engine) navigate(v Value, path []Step) Value {
	for _, s := range path {
		switch vv := v.(type) {
		case StructV:
			if s.Field < 0 {
				panic(unsupported("index step on struct value"))
			}
			v = vv.F[s.Field]
		case ArrayV:
			n, ok := isIntLit(s.Index)
			if s.Field >= 0 || !ok || int(n) >= len(vv.E) {
				panic(unsupported("symbolic index into local array"))
			}
			v = vv.E[n]
		default:
			panic(unsupported(fmt.Sprintf("navigate into %T", v)))
		}
	}
	return v
}

func (e *Engine) update(v Value, path []Step, nv Value) Value {
	if len(path) == 0 {
		return nv
	}
	s := path[0]
	switch vv := v.(type) {
	case StructV:
		if s.Field < 0 {
			panic(unsupported("index step on struct value"))
		}
		nf := append([]Value{}, vv.F...)
		nf[s.Field] = e.update(vv.F[s.Field], path[1:], nv)
		return StructV{T: vv.T, F: nf}
	case ArrayV:
		n, ok := isIntLit(s.Index)
		if s.Field >= 0 || !ok || int(n) >= len(vv.E) {
			panic(unsupported("symbolic index into local array"))
		}
		ne := append([]Value{}, vv.E...)
		ne[n] = e.update(vv.E[n], path[1:], nv)
		return ArrayV{T: vv.T, E: ne}
	}
	panic(unsupported(fmt.Sprintf("update into %T", v)))
}

func (e *Engine) loadAt(st *State, key string, ref Term, idx []Term, t types.Type) Value {
	if s, ok := e.scalarSort(t); ok {
		v := st.heapRead(key, s, ref, idx)
		e.noteHeapKey(key, arrSortFor(len(idx), s))
		v = e.ctx.Define("ld", v)
		e.assumeTyped(st, v, t)
		return v
	}
	rd := func(sfx string) Term {
		e.noteHeapKey(key+sfx, arrSortFor(len(idx), SInt))
		return e.ctx.Define("ld", st.heapRead(key+sfx, SInt, ref, idx))
	}
	switch u := t.Underlying().(type) {
	case *types.Pointer:
		r := rd("")
		e.assumeRef(st, r)
		return PtrV{Ref: r, RootT: u.Elem(), Elem: u.Elem()}
	case *types.Slice:
		sv := SliceV{Arr: rd("#arr"), Off: rd("#off"), Len: rd("#len"), Cap: rd("#cap"), Elem: u.Elem()}
		e.assumeSlice(st, sv)
		return sv
	case *types.Interface:
		iv := IfaceV{Tag: rd("#tag"), Pay: rd("#pay")}
		e.assumeIface(st, iv)
		return iv
	case *types.Signature:
		return OpaqueFn{ID: rd("#fn"), Sig: u}
	case *types.Struct:
		sv := StructV{T: t}
		for i := 0; i < u.NumFields(); i++ {
			sv.F = append(sv.F, e.loadAt(st, key+"."+u.Field(i).Name(), ref, idx, u.Field(i).Type()))
		}
		return sv
	case *types.Array:
		if u.Len() > 16 {
			panic(unsupported("load of large array"))
		}
		av := ArrayV{T: u}
		for i := int64(0); i < u.Len(); i++ {
			av.E = append(av.E, e.loadAt(st, key+"[]", ref, append(append([]Term{}, idx...), IntLit(i)), u.Elem()))
		}
		return av
	}
	panic(unsupported("load of " + t.String()))
}

// store writes v (of type t) at pointer p.
func (e *Engine) store(st *State, p PtrV, t types.Type, v Value) {
	if p.Cell > 0 {
		old := st.cells[p.Cell]
		st.cells[p.Cell] = e.update(old, p.Path, v)
		return
	}
	suffix, idx := e.pathSuffix(p)
	e.storeAt(st, p.rootName(e)+suffix, e.rootRef(st, p), idx, t, v)
}

func (e *Engine) storeAt(st *State, key string, ref Term, idx []Term, t types.Type, v Value) {
	if s, ok := e.scalarSort(t); ok {
		tv, ok := v.(Term)
		if !ok {
			panic(unsupported(fmt.Sprintf("store scalar of %T at %s", v, key)))
		}
		st.heapWrite(key, s, ref, idx, tv)
		return
	}
	wr := func(sfx string, x Term) { st.heapWrite(key+sfx, SInt, ref, idx, x) }
	switch u := t.Underlying().(type) {
	case *types.Pointer:
		pv, ok := v.(PtrV)
		if !ok {
			panic(unsupported(fmt.Sprintf("store pointer of %T", v)))
		}
		if pv.Cell > 0 || pv.Global != nil || len(pv.Path) > 0 {
			panic(unsupported("interior/local pointer stored into the heap at " + key))
		}
		wr("", pv.Ref)
	case *types.Slice:
		sv := v.(SliceV)
		wr("#arr", sv.Arr)
		wr("#off", sv.Off)
		wr("#len", sv.Len)
		wr("#cap", sv.Cap)
	case *types.Interface:
		iv := v.(IfaceV)
		wr("#tag", iv.Tag)
		wr("#pay", iv.Pay)
	case *types.Signature:
		wr("#fn", e.fnIdentity(st, v))
	case *types.Struct:
		sv, ok := v.(StructV)
		if !ok {
			panic(unsupported(fmt.Sprintf("store struct of %T", v)))
		}
		for i := 0; i < u.NumFields(); i++ {
			e.storeAt(st, key+"."+u.Field(i).Name(), ref, idx, u.Field(i).Type(), sv.F[i])
		}
	case *types.Array:
		av, ok := v.(ArrayV)
		if !ok {
			panic(unsupported("store array value"))
		}
		for i := range av.E {
			e.storeAt(st, key+"[]", ref, append(append([]Term{}, idx...), IntLit(int64(i))), u.Elem(), av.E[i])
		}
	default:
		panic(unsupported("store of " + t.String()))
	}
}

// fnIdentity maps a function value to an integer identity for heap storage.
func (e *Engine) fnIdentity(st *State, v Value) Term {
	switch f := v.(type) {
	case OpaqueFn:
		return f.ID
	case ClosureV:
		if len(f.Bind) == 0 {
			c := e.ctx.Const("fnid:"+f.Fn.String(), SInt)
			st.assume(Neq(c, IntLit(0))) // a declared function is never the nil func value
			return c
		}
		id := st.alloc()
		e.closures[id.S] = f
		return id
	case *ssa.Function:
		c := e.ctx.Const("fnid:"+f.String(), SInt)
		st.assume(Neq(c, IntLit(0)))
		return c
	}
	panic(unsupported(fmt.Sprintf("function identity of %T", v)))
}

// heapKeysWithPrefix lists known heap keys under a root type / path prefix.
func (e *Engine) heapKeysWithPrefix(prefix string) []string {
	var out []string
	for k := range e.heapKeys {
		if k == prefix || strings.HasPrefix(k, prefix+".") || strings.HasPrefix(k, prefix+"#") || strings.HasPrefix(k, prefix+"[]") {
			out = append(out, k)
		}
	}
	sort.Strings(out)
	return out
}

// havocTrace: the trace may have been extended by unknown events; the prefix
// recorded so far is kept.
func (st *State) havocTrace() {
	e := st.e
	oc, ol, or := st.calls, st.callsLen, st.callsR
	st.calls = e.ctx.Fresh("calls", ArrSort(SInt, SEvent))
	st.callsLen = e.ctx.Fresh("callsLen", SInt)
	st.assume(Le(ol, st.callsLen))
	j := T("j!q", SInt)
	same := []Term{Eq(Select(st.calls, j), Select(oc, j))}
	for i := range st.callsR {
		st.callsR[i] = e.ctx.Fresh(fmt.Sprintf("callsR%d", i), ArrSort(SInt, SInt))
		same = append(same, Eq(Select(st.callsR[i], j), Select(or[i], j)))
	}
	st.assume(Forall([]Term{j}, Implies(And(Le(IntLit(0), j), Lt(j, ol)), And(same...))))
}
