package main

import (
	"fmt"
	"go/types"
	"regexp"
	"strings"
)

var strLitRe = regexp.MustCompile(`\|str:("(?:[^"\\|]|\\.)*")\|`)
var identRe = regexp.MustCompile(`[A-Za-z_][A-Za-z0-9_!.]*`)

// sexprArgsList splits "((a T) (b U))" into its elements.
func sexprArgsList(s string) (string, []string, bool) {
	op, args, ok := sexprArgs("(list " + strings.TrimSpace(s)[1:])
	return op, args, ok
}

// stringsTheoryQuery builds a self-contained query about text in the solvers'
// theory of strings: the uninterpreted string operations of the engine are
// defined by their SMT-LIB counterparts and literals become string constants.
// Only formulas over strings, integers and booleans are supported.
func stringsTheoryQuery(negGoal string) string {
	var sb strings.Builder
	sb.WriteString("(set-option :produce-models true)\n(set-logic ALL)\n(define-sort Str () String)\n")
	sb.WriteString("(define-fun strEmpty () String \"\")\n")
	sb.WriteString("(define-fun slen ((s String)) Int (str.len s))\n")
	sb.WriteString("(define-fun sconcat ((a String) (b String)) String (str.++ a b))\n")
	sb.WriteString("(define-fun ssub ((s String) (i Int) (n Int)) String (str.substr s i n))\n")
	sb.WriteString("(define-fun sless ((a String) (b String)) Bool (str.< a b))\n")
	g := strLitRe.ReplaceAllStringFunc(negGoal, func(m string) string {
		q := strLitRe.FindStringSubmatch(m)[1]
		var lit string
		if _, err := fmt.Sscanf(q, "%q", &lit); err != nil {
			return m
		}
		return "\"" + strings.ReplaceAll(lit, "\"", "\"\"") + "\""
	})
	// not (forall xs. B)  ==>  constants xs, assert (not B): the model then names
	// the counterexample
	if op, args, ok := sexprArgs(g); ok && op == "not" && len(args) == 1 {
		if op2, a2, ok2 := sexprArgs(args[0]); ok2 && op2 == "forall" && len(a2) == 2 {
			if _, vars, ok3 := sexprArgsList(a2[0]); ok3 {
				for _, v := range vars {
					if name, vs, ok4 := sexprArgs(v); ok4 && len(vs) == 1 {
						sb.WriteString("(declare-fun " + name + " () " + vs[0] + ")\n")
					}
				}
				body := a2[1]
				if opb, ab, okb := sexprArgs(body); okb && opb == "!" && len(ab) >= 1 {
					body = ab[0]
				}
				g = "(not " + body + ")"
			}
		}
	}
	sb.WriteString("(assert " + g + ")\n(check-sat)\n")
	return sb.String()
}

// verifyLemma turns a lemma (a closed specification formula) into an obligation.
func (e *Engine) verifyLemma(ps *PkgSpec, lm *Lemma) (msg string) {
	defer func() {
		if r := recover(); r != nil {
			switch x := r.(type) {
			case specErr:
				msg = x.Error()
			case unsupportedErr:
				msg = x.Error()
			default:
				panic(r)
			}
		}
	}()
	var tp *types.Package
	for _, p := range e.allTypesPkgs {
		if p.Path() == ps.Pkg {
			tp = p
		}
	}
	st := e.newState()
	env := &SpecEnv{e: e, st: st, vars: map[string]Value{}, pkg: tp, qn: &e.qn}
	// axioms of the package are available as hypotheses
	if !lm.Strings {
		for _, ax := range ps.Lemmas {
			if ax.Axiom {
				at := e.evalSpecBool(env, ax.Expr)
				pkgAxiomSyms[at.S] = axiomSymbols(at.S)
				st.assume(at)
			}
		}
	}
	goal := e.evalSpecBool(env, lm.Expr)
	ob := &Obligation{Kind: "lemma", Clause: lm.Name, Pos: lm.Where, Goal: goal.S, Props: lm.Props}
	ob.Name = pkgBase(ps.Pkg) + ".lemma/" + lm.Name
	ob.Func = "lemma " + lm.Name
	ob.Query = e.buildQuery(st.pc, Not(goal))
	ob.NegGoal = Not(goal).S
	if lm.Strings {
		ob.Query = stringsTheoryQuery(Not(goal).S)
		ob.Goal = "" // no goal splitting / pruning: the query is self-contained
	}
	e.obls = append(e.obls, ob)
	return ""
}

// extraChecks: engine-level (non-SMT) checks attached to a property, e.g. the
// access-closure scans of the concurrency protocols. Filled in by proto.go.
func (e *Engine) extraChecks(prop string) []*FuncResult {
	var out []*FuncResult
	for _, f := range extraCheckFns {
		out = append(out, f(e, prop)...)
	}
	return out
}

var extraCheckFns []func(e *Engine, prop string) []*FuncResult
