package main

import (
	"go/types"
)

// verifyLemma turns a lemma (a closed specification formula) into an obligation.
func (e *Engine) verifyLemma(ps *PkgSpec, lm *Lemma) (msg string) {
	defer func() {
		if r := recover(); r != nil {
			switch x := r.(type) {
			case specErr:
				msg = x.Error()
			case unsupportedErr:
				msg = x.Error()
			default:
				panic(r)
			}
		}
	}()
	var tp *types.Package
	for _, p := range e.allTypesPkgs {
		if p.Path() == ps.Pkg {
			tp = p
		}
	}
	st := e.newState()
	env := &SpecEnv{e: e, st: st, vars: map[string]Value{}, pkg: tp, qn: &e.qn}
	// axioms of the package are available as hypotheses
	for _, ax := range ps.Lemmas {
		if ax.Axiom {
			st.assume(e.evalSpecBool(env, ax.Expr))
		}
	}
	goal := e.evalSpecBool(env, lm.Expr)
	ob := &Obligation{Kind: "lemma", Clause: lm.Name, Pos: lm.Where, Goal: goal.S, Props: lm.Props}
	ob.Name = pkgBase(ps.Pkg) + ".lemma/" + lm.Name
	ob.Func = "lemma " + lm.Name
	ob.Query = e.buildQuery(st.pc, Not(goal))
	e.obls = append(e.obls, ob)
	return ""
}

// extraChecks: engine-level (non-SMT) checks attached to a property, e.g. the
// access-closure scans of the concurrency protocols. Filled in by proto.go.
func (e *Engine) extraChecks(prop string) []*FuncResult {
	var out []*FuncResult
	for _, f := range extraCheckFns {
		out = append(out, f(e, prop)...)
	}
	return out
}

var extraCheckFns []func(e *Engine, prop string) []*FuncResult
