package main

import (
	"fmt"
	"os"
	"strings"

	"golang.org/x/tools/go/packages"
	"golang.org/x/tools/go/ssa"
	"golang.org/x/tools/go/ssa/ssautil"
)

func main() {
	dir := os.Args[1]
	pat := os.Args[2]
	want := os.Args[3:]
	cfg := &packages.Config{Mode: packages.LoadAllSyntax, Dir: dir, BuildFlags: []string{"-tags=verif"}}
	pkgs, err := packages.Load(cfg, pat)
	if err != nil {
		panic(err)
	}
	prog, spkgs := ssautil.AllPackages(pkgs, ssa.NaiveForm|ssa.InstantiateGenerics)
	prog.Build()
	for _, p := range spkgs {
		if p == nil {
			continue
		}
		fns := ssautil.AllFunctions(prog)
		for fn := range fns {
			if fn.Pkg != p {
				continue
			}
			for _, w := range want {
				if strings.Contains(fn.String(), w) {
					fn.WriteTo(os.Stdout)
					fmt.Println()
				}
			}
		}
	}
}
