package main

import (
	"fmt"
	"go/ast"
	"go/token"
	"go/types"
	"os"
	"regexp"
	"sort"
	"strings"

	"golang.org/x/tools/go/ssa"
)

type Obligation struct {
	Name    string   `json:"name"`
	Props   []string `json:"props"`
	Func    string   `json:"func"`
	Kind    string   `json:"kind"`
	Clause  string   `json:"clause"`
	Case    string   `json:"case,omitempty"`
	Pos     string   `json:"pos"`
	Query   string   `json:"-"`
	Trail   []string `json:"trail,omitempty"`
	Verdict string   `json:"verdict"`
	Solver  string   `json:"solver,omitempty"`
	Time    float64  `json:"time_s"`
	Model   string   `json:"model,omitempty"`
	Output  string   `json:"output,omitempty"`
	Goal    string   `json:"goal,omitempty"`
	Cover   bool     `json:"cover,omitempty"` // must be SAT (vacuity guard)
	NegGoal string   `json:"-"`
	Parts   int      `json:"parts,omitempty"` // >0: discharged as that many goal conjuncts
	Trivial bool     `json:"-"`
}

type loopInfo struct {
	head    *ssa.BasicBlock
	ordinal int
	body    map[*ssa.BasicBlock]bool
	rangeI  *ssa.Range // iterator advanced in the head block, if any
	// kindChanged: non-empty when the loop changed between index and range form
	// since the ledger was written
	kindChanged string
}

type verifyCtx struct {
	fn            *ssa.Function
	c             *Contract
	caseName      string
	entry         *State
	params        map[string]Value
	notes         map[string]bool
	inlined       map[string]bool
	usedContracts map[string]bool
	discipline    *Discipline
	entryLocks    map[string]lockMode
	proto         *protoRun
	boxes         map[string]PtrV // closures: captured variable -> its box
	loops         map[*ssa.BasicBlock]*loopInfo
	qn            int
	hooksAfter    map[ssa.Instruction][]*AtHook
	hooksBefore   map[ssa.Instruction][]*AtHook
}

func (vc *verifyCtx) specEnv(st *State) *SpecEnv {
	e := st.e
	env := &SpecEnv{e: e, st: st, old: vc.entry, vars: map[string]Value{}, oldVar: vc.params, pkg: pkgOf(vc.fn), qn: &e.qn, boxes: vc.boxes}
	for k, v := range vc.params {
		env.vars[k] = v
	}
	return env
}

// loopsOf finds the natural loops of a function (heads ordered by block index).
func (e *Engine) loopsOf(fn *ssa.Function) map[*ssa.BasicBlock]*loopInfo {
	if l, ok := e.loopCache[fn]; ok {
		return l
	}
	loops := map[*ssa.BasicBlock]*loopInfo{}
	for _, b := range fn.Blocks {
		for _, s := range b.Succs {
			if s.Dominates(b) {
				li := loops[s]
				if li == nil {
					li = &loopInfo{head: s, body: map[*ssa.BasicBlock]bool{s: true}}
					loops[s] = li
				}
				// natural loop of back edge b -> s
				var stack []*ssa.BasicBlock
				if !li.body[b] {
					li.body[b] = true
					stack = append(stack, b)
				}
				for len(stack) > 0 {
					x := stack[len(stack)-1]
					stack = stack[:len(stack)-1]
					for _, p := range x.Preds {
						if !li.body[p] {
							li.body[p] = true
							stack = append(stack, p)
						}
					}
				}
			}
		}
	}
	var heads []*ssa.BasicBlock
	for h := range loops {
		heads = append(heads, h)
	}
	sort.Slice(heads, func(i, j int) bool { return heads[i].Index < heads[j].Index })
	// Contracts number the loops of a function in source order.  When the ledger
	// recorded the loop headers of the unchanged tree and the current headers are
	// the same headers in another order (independent loops were swapped), each
	// loop keeps the number its header had: the invariants follow their loop.
	remap := e.loopRemap(fn, len(heads))
	for i, h := range heads {
		loops[h].ordinal = i + 1
		if remap != nil {
			loops[h].ordinal = remap[i]
		}
		// an index loop that became a range loop (or the reverse): the invariants
		// written for the other form do not describe this loop
		if want := e.ledgerLoopKeys[fn.String()]; len(want) == len(heads) {
			if have := e.loopHeaders(fn); len(have) == len(heads) {
				w, hv := want[loops[h].ordinal-1], have[i]
				if w != "" && hv != "" && isRangeHeader(w) != isRangeHeader(hv) {
					loops[h].kindChanged = fmt.Sprintf("loop %d of %s was `%s` when its invariants were written and is `%s` now (contract no longer matches the source)", loops[h].ordinal, fn.Name(), w, hv)
				}
			}
		}
		for _, ins := range h.Instrs {
			if n, ok := ins.(*ssa.Next); ok {
				if r, ok := n.Iter.(*ssa.Range); ok {
					loops[h].rangeI = r
				}
			}
		}
	}
	e.loopCache[fn] = loops
	return loops
}

// loopHeaders: the source text of the headers ("for ... " up to the opening
// brace, whitespace normalised) of the loops of fn in source order, nested
// function literals excluded.
func (e *Engine) loopHeaders(fn *ssa.Function) []string {
	syn := fn.Syntax()
	if syn == nil {
		return nil
	}
	var body *ast.BlockStmt
	switch x := syn.(type) {
	case *ast.FuncDecl:
		body = x.Body
	case *ast.FuncLit:
		body = x.Body
	}
	if body == nil {
		return nil
	}
	var out []string
	text := func(from, to token.Pos) string {
		pf, pt := e.prog.Fset.Position(from), e.prog.Fset.Position(to)
		b, err := e.readSource(pf.Filename)
		if err != nil || pf.Offset < 0 || pt.Offset > len(b) || pf.Offset > pt.Offset {
			return ""
		}
		return strings.Join(strings.Fields(string(b[pf.Offset:pt.Offset])), " ")
	}
	ast.Inspect(body, func(n ast.Node) bool {
		switch x := n.(type) {
		case *ast.FuncLit:
			return false
		case *ast.ForStmt:
			out = append(out, text(x.Pos(), x.Body.Lbrace))
		case *ast.RangeStmt:
			out = append(out, text(x.Pos(), x.Body.Lbrace))
		}
		return true
	})
	return out
}

var rangeHeaderRe = regexp.MustCompile(`(^|[ =])range `)

func isRangeHeader(h string) bool { return rangeHeaderRe.MatchString(h) }

func (e *Engine) readSource(name string) ([]byte, error) {
	if b, ok := e.srcCache[name]; ok {
		return b, nil
	}
	b, err := os.ReadFile(name)
	if err != nil {
		return nil, err
	}
	if e.srcCache == nil {
		e.srcCache = map[string][]byte{}
	}
	e.srcCache[name] = b
	return b, nil
}

// loopRemap: nil, or for each loop in source order the contract's number for it.
func (e *Engine) loopRemap(fn *ssa.Function, n int) []int {
	want := e.ledgerLoopKeys[fn.String()]
	if len(want) != n || n < 2 {
		return nil
	}
	have := e.loopHeaders(fn)
	if len(have) != n {
		return nil
	}
	pos := map[string]int{}
	for i, k := range want {
		if _, dup := pos[k]; dup || k == "" {
			return nil
		}
		pos[k] = i + 1
	}
	out := make([]int, n)
	used := map[int]bool{}
	changed := false
	for i, k := range have {
		j, ok := pos[k]
		if !ok || used[j] {
			return nil
		}
		used[j] = true
		out[i] = j
		if j != i+1 {
			changed = true
		}
	}
	if !changed {
		return nil
	}
	if e.cur != nil {
		e.note(fmt.Sprintf("loops of %s were reordered in the source; invariants follow their loop headers", fn.Name()))
	}
	return out
}

// atLoopHead implements the cut: returns true when execution continues into
// the loop (after havoc + assume invariant), false when the path ends here.
func (e *Engine) atLoopHead(st *State, fr *frame, li *loopInfo, pred *ssa.BasicBlock) bool {
	c := e.contractOf(fr.fn)
	var invs []*Clause
	if c != nil {
		invs = c.LoopInv[li.ordinal]
	}
	if li.kindChanged != "" && len(invs) > 0 {
		panic(unsupported(li.kindChanged))
	}
	if c != nil && c.Unroll[li.ordinal] > 0 {
		key := fmt.Sprintf("unroll:%p", li.head)
		n := 0
		if v, ok := st.ghost[key]; ok {
			n64, _ := isIntLit(v.(Term))
			n = int(n64)
		}
		if n > c.Unroll[li.ordinal] {
			// unwinding assertion: the bound must be complete
			e.oblige(st, "unwind", fmt.Sprintf("loop%d.bound_complete", li.ordinal), TFalse, li.head.Instrs[0].Pos())
			return false
		}
		st.ghost[key] = IntLit(int64(n + 1))
		e.note(fmt.Sprintf("loop %d of %s unrolled up to %d iterations with an unwinding assertion", li.ordinal, fr.fn.Name(), c.Unroll[li.ordinal]))
		return true
	}
	if len(invs) == 0 {
		panic(unsupported(fmt.Sprintf("loop %d of %s has no invariant", li.ordinal, fr.fn.String())))
	}
	vc := e.cur
	mkEnv := func(s *State) *SpecEnv {
		env := vc.specEnvFor(s, fr.fn)
		env.local = e.localLookup(s, fr.fn)
		env.vars["$loop"] = IntLit(int64(li.ordinal))
		return env
	}
	if st.active[li.head] {
		// back edge: invariant must be preserved
		env := mkEnv(st)
		for i, inv := range invs {
			e.oblige(st, "inv", fmt.Sprintf("loop%d.%s.preserved", li.ordinal, clauseName(inv, i)), e.evalSpecBool(env, inv.Expr), posOfBlock(li.head))
		}
		return false
	}
	// entry: establish
	env := mkEnv(st)
	for i, inv := range invs {
		e.oblige(st, "inv", fmt.Sprintf("loop%d.%s.init", li.ordinal, clauseName(inv, i)), e.evalSpecBool(env, inv.Expr), posOfBlock(li.head))
	}
	st.labels[fmt.Sprintf("loop%d", li.ordinal)] = st.clone()
	e.havocLoop(st, fr, li)
	e.resetMarksForLoop(st, fr.fn, li)
	st.active[li.head] = true
	env = mkEnv(st)
	for _, inv := range invs {
		st.assume(e.evalSpecBool(env, inv.Expr))
	}
	if c != nil {
		for _, a := range c.LoopAssume[li.ordinal] {
			st.assume(e.evalSpecBool(env, a.Expr))
			e.trustedUsed[fmt.Sprintf("UNCHECKED assumption at loop %d of %s: %s", li.ordinal, fr.fn.Name(), a.Src)] = true
		}
	}
	return true
}

func posOfBlock(b *ssa.BasicBlock) token.Pos {
	for _, i := range b.Instrs {
		if i.Pos().IsValid() {
			return i.Pos()
		}
	}
	return token.NoPos
}

func (vc *verifyCtx) specEnvFor(st *State, fn *ssa.Function) *SpecEnv {
	if fn == vc.fn {
		return vc.specEnv(st)
	}
	e := st.e
	return &SpecEnv{e: e, st: st, old: vc.entry, vars: map[string]Value{}, pkg: pkgOf(fn), qn: &e.qn}
}

// localLookup resolves a source-level local variable name to its current value.
// name#k selects the k-th declaration in SSA order.
func (e *Engine) localLookup(st *State, fn *ssa.Function) func(string) (Value, bool) {
	return func(name string) (Value, bool) {
		want := 1
		base := name
		if i := strings.Index(name, "#"); i >= 0 {
			fmt.Sscanf(name[i+1:], "%d", &want)
			base = name[:i]
		}
		n := 0
		var found Value
		ok := false
		for _, b := range fn.Blocks {
			for _, ins := range b.Instrs {
				a, isA := ins.(*ssa.Alloc)
				if !isA || a.Comment != base {
					continue
				}
				n++
				if n != want {
					continue
				}
				pv, has := st.env[a]
				if !has {
					return nil, false
				}
				p := pv.(PtrV)
				found = wrapTyped(e.load(st, p, p.Elem), p.Elem)
				ok = true
			}
		}
		if !ok {
			// parameters that were not spilled
			for _, p := range fn.Params {
				if p.Name() == base {
					if v, has := st.env[p]; has {
						return wrapTyped(v, p.Type()), true
					}
				}
			}
			for _, fv := range fn.FreeVars {
				if fv.Name() == base {
					if v, has := st.env[fv]; has {
						p := v.(PtrV)
						return wrapTyped(e.load(st, p, p.Elem), p.Elem), true
					}
				}
			}
		}
		return found, ok
	}
}

// hasLocal: does the function declare a local variable, parameter or captured
// variable of that name (name#k: at least k declarations)?  A contract that names
// a local the source no longer has does not match the source any more: that is a
// specification error (the function is undecided), never a failed obligation.
func hasLocal(fn *ssa.Function, name string) bool {
	want := 1
	base := name
	if i := strings.Index(name, "#"); i >= 0 {
		fmt.Sscanf(name[i+1:], "%d", &want)
		base = name[:i]
	}
	n := 0
	for _, b := range fn.Blocks {
		for _, ins := range b.Instrs {
			if a, ok := ins.(*ssa.Alloc); ok && a.Comment == base {
				n++
			}
		}
	}
	if n >= want {
		return true
	}
	for _, p := range fn.Params {
		if p.Name() == base {
			return true
		}
	}
	for _, fv := range fn.FreeVars {
		if fv.Name() == base {
			return true
		}
	}
	return false
}

// havocLoop forgets everything the loop body may change.
func (e *Engine) havocLoop(st *State, fr *frame, li *loopInfo) {
	storedCells := map[*ssa.Alloc]bool{}
	// pass 1: which local cells are assigned in the loop
	for b := range li.body {
		for _, ins := range b.Instrs {
			if s, ok := ins.(*ssa.Store); ok {
				if a := rootAlloc(s.Addr); a != nil {
					storedCells[a] = true
				}
			}
		}
	}
	writtenKeys := map[string]bool{}
	staticPass := true
	var invariantVal func(v ssa.Value) (Value, bool)
	invariantVal = func(v ssa.Value) (Value, bool) {
		if staticPass {
			return nil, false
		}
		// value defined outside the loop
		if ins, ok := v.(ssa.Instruction); ok {
			if !li.body[ins.Block()] {
				x, has := st.env[v]
				return x, has
			}
			if u, ok := v.(*ssa.UnOp); ok && u.Op == token.MUL {
				if a, ok := u.X.(*ssa.Alloc); ok && !storedCells[a] {
					if pv, has := st.env[a]; has {
						if p := pv.(PtrV); p.Cell > 0 {
							return st.cells[p.Cell], true
						} else {
							return e.load(st, p, p.Elem), true
						}
					}
				}
				if fa, ok := u.X.(*ssa.FieldAddr); ok {
					// load of a field of a loop-invariant object, the field not being written in the loop
					if bv, ok := invariantVal(fa.X); ok {
						if bp, ok := bv.(PtrV); ok && bp.Cell == 0 {
							ft := fa.Type().(*types.Pointer).Elem()
							fp := bp.field(fa.Field, ft)
							suffix, ix := e.pathSuffix(fp)
							stable := len(ix) == 0
							for _, ks := range e.leafKeys(fp.rootName(e)+suffix, ft, 0) {
								if writtenKeys[ks.Key] {
									stable = false
								}
							}
							if stable {
								return e.load(st, fp, ft), true
							}
						}
					}
				}
				if fv, ok := u.X.(*ssa.FreeVar); ok {
					if pv, has := st.env[fv]; has {
						p := pv.(PtrV)
						// captured variable: invariant only if nothing in the loop stores through it
						stored := false
						for b := range li.body {
							for _, ins := range b.Instrs {
								if s, ok := ins.(*ssa.Store); ok && s.Addr == fv {
									stored = true
								}
							}
						}
						if !stored {
							return e.load(st, p, p.Elem), true
						}
					}
				}
			}
			return nil, false
		}
		switch v.(type) {
		case *ssa.Parameter, *ssa.FreeVar, *ssa.Global, *ssa.Const:
			return e.val(st, v), true
		}
		return nil, false
	}
	type slot struct {
		ks  KeySort
		ref Term
	}
	var whole []KeySort
	var allocKeys []KeySort
	var slots []slot
	addLoc := func(addr ssa.Value, t types.Type) {
		root, path, ok := addrChain(addr)
		if !ok {
			panic(unsupported("loop effect analysis: store through " + addr.String()))
		}
		if a, isA := root.(*ssa.Alloc); isA && !a.Heap && !isArrayAlloc(a) {
			return // local cell, handled below
		}
		// compute key from static types
		var rootT types.Type
		var rootName string
		switch r := root.(type) {
		case *ssa.Global:
			rootT = r.Type().(*types.Pointer).Elem()
			rootName = "glob:" + r.Pkg.Pkg.Path() + "." + r.Name()
		default:
			pt, isP := root.Type().Underlying().(*types.Pointer)
			if isP {
				rootT = pt.Elem()
				rootName = e.rootKey(rootT)
			} else if sl, isS := root.Type().Underlying().(*types.Slice); isS {
				rootT = arrRootT(sl.Elem())
				rootName = e.rootKey(rootT)
			} else {
				panic(unsupported("loop effect analysis: root " + root.String()))
			}
		}
		key := rootName
		dims := 0
		for _, s := range path {
			if s.field != "" {
				key += "." + s.field
			} else {
				key += "[]"
				dims++
			}
		}
		kss := e.leafKeys(key, t, dims)
		// stores into an object allocated inside the loop touch only fresh refs
		switch r := root.(type) {
		case *ssa.Alloc:
			if li.body[r.Block()] {
				allocKeys = append(allocKeys, kss...)
				return
			}
		case *ssa.MakeSlice:
			if li.body[r.Block()] {
				allocKeys = append(allocKeys, kss...)
				return
			}
		}
		if rv, ok := invariantVal(root); ok {
			var ref Term
			switch x := rv.(type) {
			case PtrV:
				if x.Cell == 0 && x.Global == nil && len(x.Path) == 0 {
					ref = x.Ref
				} else if x.Global != nil {
					ref = IntLit(0)
				}
			case SliceV:
				ref = x.Arr
			}
			if !ref.IsZero() {
				for _, ks := range kss {
					slots = append(slots, slot{ks, ref})
				}
				return
			}
		}
		whole = append(whole, kss...)
	}
	scanLoop := func() {
		for b := range li.body {
			for _, ins := range b.Instrs {
				switch x := ins.(type) {
				case *ssa.Store:
					addLoc(x.Addr, x.Val.Type())
				case *ssa.MapUpdate:
					mt := x.Map.Type().Underlying().(*types.Map)
					kss := append([]KeySort{e.mapDomKS(mt), e.mapLenKS(mt)}, e.mapValKS(mt)...)
					if mv, ok := invariantVal(x.Map); ok {
						for _, ks := range kss {
							slots = append(slots, slot{ks, mv.(Term)})
						}
					} else {
						whole = append(whole, kss...)
					}
				case ssa.CallInstruction:
					cc := x.Common()
					e.loopCallEffects(st, fr, li, cc, invariantVal, &whole, &allocKeys, func(ks KeySort, ref Term) { slots = append(slots, slot{ks, ref}) }, 0)
				case *ssa.Alloc, *ssa.MakeSlice, *ssa.MakeMap, *ssa.MakeInterface:
					allocKeys = append(allocKeys, e.allocEffects(ins)...)
				case *ssa.Send, *ssa.Select, *ssa.Go:
					st.havocTrace()
				}
			}
		}
	}
	scanLoop()
	for _, ks := range whole {
		writtenKeys[ks.Key] = true
	}
	for _, ks := range allocKeys {
		writtenKeys[ks.Key] = true
	}
	for _, sl := range slots {
		writtenKeys[sl.ks.Key] = true
	}
	whole, allocKeys, slots = nil, nil, nil
	staticPass = false
	e.loopAnyHavoc = false
	scanLoop()
	if e.loopAnyHavoc {
		e.havocGen++
		st.pending = append(st.pending, pendingHavoc{gen: e.havocGen})
	}
	// Apply the heap effects. Arrays written through unknown roots are
	// forgotten entirely. Arrays touched only by allocation (zero-init of
	// fresh objects) and by stores to loop-invariant roots keep the slots of
	// all other references that existed at loop entry.
	frontier := st.nextRefTerm()
	done := map[string]bool{}
	initOnlyK, _ := e.stableKeys()
	for _, ks := range whole {
		if done[ks.Key] {
			continue
		}
		done[ks.Key] = true
		var before Term
		keepEntry := initOnlyK[ks.Key] && e.cur != nil && e.cur.entry != nil
		if keepEntry {
			before = st.heapArr(ks.Key, ks.Sort)
		}
		st.havocHeapKey(ks)
		if keepEntry {
			// an init-only field is stored only through objects allocated by the
			// storing function (engine scan): objects that existed when this
			// function was entered keep their value across the loop
			r := T("r!q", SInt)
			st.assume(Forall([]Term{r}, Implies(And(Lt(IntLit(0), r), Lt(r, e.cur.entry.nextRefTerm())),
				Eq(Select(st.heapArr(ks.Key, ks.Sort), r), Select(before, r)))))
		}
	}
	slotRefs := map[string][]Term{}
	sorts := map[string]KeySort{}
	var order []string
	for _, s := range slots {
		if done[s.ks.Key] {
			continue
		}
		if _, ok := sorts[s.ks.Key]; !ok {
			order = append(order, s.ks.Key)
		}
		sorts[s.ks.Key] = s.ks
		slotRefs[s.ks.Key] = append(slotRefs[s.ks.Key], s.ref)
	}
	allocTouched := map[string]bool{}
	for _, ks := range allocKeys {
		if done[ks.Key] {
			continue
		}
		if _, ok := sorts[ks.Key]; !ok {
			order = append(order, ks.Key)
			sorts[ks.Key] = ks
		}
		allocTouched[ks.Key] = true
	}
	for _, k := range order {
		ks := sorts[k]
		if !allocTouched[k] {
			seenRef := map[string]bool{}
			for _, r := range slotRefs[k] {
				if !seenRef[r.S] {
					seenRef[r.S] = true
					st.havocHeapSlot(ks, r)
				}
			}
			continue
		}
		e.noteHeapKey(ks.Key, ks.Sort)
		oldA := st.heapArr(ks.Key, ks.Sort)
		na := e.ctx.Fresh(heapSym(ks.Key)+"@l", ks.Sort)
		r := T("r!q", SInt)
		conds := []Term{Le(IntLit(0), r), Lt(r, frontier)}
		for _, sr := range slotRefs[k] {
			conds = append(conds, Neq(r, sr))
		}
		st.assume(Forall([]Term{r}, Implies(And(conds...), Eq(Select(na, r), Select(oldA, r)))))
		st.heap[ks.Key] = na
	}
	// local cells
	for a := range storedCells {
		if pv, ok := st.env[a]; ok {
			p := pv.(PtrV)
			if p.Cell > 0 {
				st.cells[p.Cell] = e.freshValue(st, "h_"+a.Comment, p.Elem)
			}
		}
	}
	// iterators advanced in the loop
	for b := range li.body {
		for _, ins := range b.Instrs {
			if n, ok := ins.(*ssa.Next); ok {
				if r, ok := n.Iter.(*ssa.Range); ok {
					if mt, isMap := r.X.Type().Underlying().(*types.Map); isMap {
						st.iters[r] = e.ctx.Fresh("seen", ArrSort(e.keySort(mt.Key()), SBool))
						if _, ok := st.ghost["itcnt:"+r.Name()]; ok {
							c := e.ctx.Fresh("itcnt", SInt)
							st.assume(Le(IntLit(0), c))
							st.ghost["itcnt:"+r.Name()] = c
						}
					} else {
						c := e.ctx.Fresh("strcnt", SInt)
						st.assume(Le(IntLit(0), c))
						st.ghost["strcnt:"+r.Name()] = c
					}
				}
			}
		}
	}
	// ghost variables assigned by hooks inside the loop
	if e.cur != nil {
		for b := range li.body {
			for _, ins := range b.Instrs {
				for _, hs := range [][]*AtHook{e.cur.hooksAfter[ins], e.cur.hooksBefore[ins]} {
					for _, h := range hs {
						if h.Kind == "set" {
							if old, ok := st.ghost[h.Ghost].(Term); ok {
								st.ghost[h.Ghost] = e.ctx.Fresh("gh_"+h.Ghost, old.Sort)
							}
						}
					}
				}
			}
		}
	}
	// the allocation frontier and the trace may move if the loop calls/allocates
	moves := false
	for b := range li.body {
		for _, ins := range b.Instrs {
			switch ins.(type) {
			case ssa.CallInstruction, *ssa.Alloc, *ssa.MakeSlice, *ssa.MakeMap, *ssa.MakeInterface, *ssa.MakeClosure, *ssa.MakeChan:
				moves = true
			}
		}
	}
	if moves {
		st.havocAlloc()
	}
	if e.loopTouchesTrace(fr, li) {
		st.havocTrace()
	}
	// unroll counters of inner loops restart
}

type chainStep struct {
	field string
	index bool
}

// cellPath decomposes an address into a non-escaping local alloc and a field path.
func cellPath(addr ssa.Value) (*ssa.Alloc, string, bool) {
	path := ""
	for {
		switch x := addr.(type) {
		case *ssa.Alloc:
			if x.Heap || isArrayAlloc(x) {
				return nil, "", false
			}
			return x, path, true
		case *ssa.FieldAddr:
			path = fmt.Sprintf(".%d", x.Field) + path
			addr = x.X
		default:
			return nil, "", false
		}
	}
}

// selfAppendCell recognises x = append(x, ...) where x is a local variable (or
// a field of a local struct variable) that is assigned in the loop only from
// such appends. Returns the alloc and the field path.
func selfAppendCell(li *loopInfo, cc *ssa.CallCommon) (*ssa.Alloc, string) {
	ld, ok := cc.Args[0].(*ssa.UnOp)
	if !ok || ld.Op != token.MUL {
		return nil, ""
	}
	a, path, ok := cellPath(ld.X)
	if !ok {
		return nil, ""
	}
	for b := range li.body {
		for _, ins := range b.Instrs {
			s, ok := ins.(*ssa.Store)
			if !ok {
				continue
			}
			a2, p2, ok := cellPath(s.Addr)
			if !ok || a2 != a {
				continue
			}
			if p2 != path {
				if strings.HasPrefix(p2, path) || strings.HasPrefix(path, p2) {
					return nil, "" // overlapping store (whole struct / sub-field)
				}
				continue
			}
			call, ok := s.Val.(*ssa.Call)
			if !ok {
				return nil, ""
			}
			bi, ok := call.Call.Value.(*ssa.Builtin)
			if !ok || bi.Name() != "append" {
				return nil, ""
			}
			l2, ok := call.Call.Args[0].(*ssa.UnOp)
			if !ok {
				return nil, ""
			}
			a3, p3, ok := cellPath(l2.X)
			if !ok || a3 != a || p3 != path {
				return nil, ""
			}
		}
	}
	return a, path
}

func isArrayAlloc(a *ssa.Alloc) bool {
	_, ok := a.Type().(*types.Pointer).Elem().Underlying().(*types.Array)
	return ok
}

func rootAlloc(addr ssa.Value) *ssa.Alloc {
	for {
		switch x := addr.(type) {
		case *ssa.Alloc:
			if !x.Heap && !isArrayAlloc(x) {
				return x
			}
			return nil
		case *ssa.FieldAddr:
			addr = x.X
		case *ssa.IndexAddr:
			if _, isPtr := x.X.Type().Underlying().(*types.Pointer); isPtr {
				addr = x.X
			} else {
				return nil
			}
		default:
			return nil
		}
	}
}

// addrChain decomposes an address expression into root pointer/slice value and
// the static path from it.
func addrChain(addr ssa.Value) (root ssa.Value, path []chainStep, ok bool) {
	switch x := addr.(type) {
	case *ssa.FieldAddr:
		r, p, ok := addrChainBase(x.X)
		if !ok {
			return nil, nil, false
		}
		st := x.X.Type().Underlying().(*types.Pointer).Elem().Underlying().(*types.Struct)
		return r, append(p, chainStep{field: st.Field(x.Field).Name()}), true
	case *ssa.IndexAddr:
		if _, isSlice := x.X.Type().Underlying().(*types.Slice); isSlice {
			return x.X, []chainStep{{index: true}}, true
		}
		r, p, ok := addrChainBase(x.X)
		if !ok {
			return nil, nil, false
		}
		return r, append(p, chainStep{index: true}), true
	default:
		return addr, nil, true
	}
}

func addrChainBase(v ssa.Value) (ssa.Value, []chainStep, bool) {
	switch v.(type) {
	case *ssa.FieldAddr, *ssa.IndexAddr:
		return addrChain(v)
	}
	return v, nil, true
}

// loopCallEffects accounts for the heap effects of a call inside a loop.
func (e *Engine) loopCallEffects(st *State, fr *frame, li *loopInfo, cc *ssa.CallCommon,
	inv func(ssa.Value) (Value, bool), whole *[]KeySort, allocKeys *[]KeySort, slot func(KeySort, Term), depth int) {
	if cc.IsInvoke() {
		return // extern interface calls do not touch tally state (assumed); closed ones are pure accessors
	}
	switch f := cc.Value.(type) {
	case *ssa.Builtin:
		switch f.Name() {
		case "append":
			sl := cc.Args[0].Type().Underlying().(*types.Slice)
			kss := e.leafKeys(typeKey(arrRootT(sl.Elem()))+"[]", sl.Elem(), 1)
			// self-append to a local slice variable: x = append(x, ...). The
			// arrays written are the variable's backing array at loop entry or
			// arrays allocated inside the loop.
			if a, fpath := selfAppendCell(li, cc); a != nil {
				if pv, ok := st.env[a]; ok {
					if p := pv.(PtrV); p.Cell > 0 {
						var cur Value = st.cells[p.Cell]
						for _, f := range strings.Split(strings.TrimPrefix(fpath, "."), ".") {
							if f == "" {
								continue
							}
							var fi int
							fmt.Sscanf(f, "%d", &fi)
							if sv, ok := cur.(StructV); ok && fi < len(sv.F) {
								cur = sv.F[fi]
							} else {
								cur = nil
							}
						}
						if sv, ok := cur.(SliceV); ok {
							for _, ks := range kss {
								slot(ks, sv.Arr)
							}
							*allocKeys = append(*allocKeys, kss...)
							return
						}
					}
				}
			}
			*whole = append(*whole, kss...)
		case "copy":
			sl := cc.Args[0].Type().Underlying().(*types.Slice)
			*whole = append(*whole, e.leafKeys(typeKey(arrRootT(sl.Elem()))+"[]", sl.Elem(), 1)...)
		case "delete":
			mt := cc.Args[0].Type().Underlying().(*types.Map)
			kss := []KeySort{e.mapDomKS(mt), e.mapLenKS(mt)}
			if mv, ok := inv(cc.Args[0]); ok {
				for _, ks := range kss {
					slot(ks, mv.(Term))
				}
			} else {
				*whole = append(*whole, kss...)
			}
		case "close":
			*whole = append(*whole, e.chanKey("closed"))
		}
		return
	}
	fn := cc.StaticCallee()
	if fn == nil {
		// closure values / function values: analyse make-closure target when visible
		if mc, ok := cc.Value.(*ssa.MakeClosure); ok {
			fn = mc.Fn.(*ssa.Function)
		} else {
			e.note("call of a function value inside a loop: assumed to have only the effects of its contract-less body being pure")
			return
		}
	}
	if eff, ok := builtinEffects[fn.String()]; ok {
		eff(e, cc, inv, whole, slot)
		return
	}
	if _, ok := builtinSpecs[fn.String()]; ok {
		return
	}
	c := e.contractOf(fn)
	if c != nil && !c.Inline {
		if c.ModAny {
			e.loopAnyHavoc = true
			io, _ := e.stableKeys()
			for k, so := range e.heapKeys {
				if !io[k] {
					*whole = append(*whole, KeySort{k, so})
				}
			}
			return
		}
		for _, m := range c.Modifies {
			if m.Any {
				e.loopAnyHavoc = true
				io, _ := e.stableKeys()
				for k, so := range e.heapKeys {
					if !io[k] {
						*whole = append(*whole, KeySort{k, so})
					}
				}
				continue
			}
			if m.All != "" {
				env := &SpecEnv{e: e, st: st, pkg: pkgOf(fn), qn: &e.qn, vars: map[string]Value{}}
				*whole = append(*whole, e.resolveAllLoc(env, m.All)...)
				continue
			}
			// resolve with invariant arguments where possible
			vars := map[string]Value{}
			okAll := true
			for i, p := range fn.Params {
				if i < len(cc.Args) {
					if v, ok := inv(cc.Args[i]); ok {
						vars[p.Name()] = wrapTyped(v, p.Type())
						continue
					}
				}
				okAll = false
				// a symbolic stand-in so that the keys can still be computed
				vars[p.Name()] = wrapTyped(e.freshValue(st.clone(), "lp_"+p.Name(), p.Type()), p.Type())
			}
			env := &SpecEnv{e: e, st: st.clone(), pkg: pkgOf(fn), qn: &e.qn, vars: vars}
			for _, t := range e.modTargets(env, m.Expr) {
				if okAll && !t.whole && !mentionsFresh(t.ref) {
					slot(t.ks, t.ref)
				} else {
					*whole = append(*whole, t.ks)
				}
			}
		}
		return
	}
	if fn.Blocks == nil || depth > 6 {
		return
	}
	// inlined callee: its stores.  A root reached from a parameter whose argument
	// is loop-invariant in the caller is as invariant as that argument (so that
	// extracting a few lines of a loop body into a helper changes nothing).
	spill := map[*ssa.Alloc]*ssa.Parameter{}
	stores := map[*ssa.Alloc]int{}
	for _, b := range fn.Blocks {
		for _, ins := range b.Instrs {
			if s, ok := ins.(*ssa.Store); ok {
				if a, ok := s.Addr.(*ssa.Alloc); ok {
					stores[a]++
					if p, ok := s.Val.(*ssa.Parameter); ok {
						spill[a] = p
					}
				}
			}
		}
	}
	var calleeInv func(v ssa.Value) (Value, bool)
	calleeInv = func(v ssa.Value) (Value, bool) {
		switch x := v.(type) {
		case *ssa.Parameter:
			for i, p := range fn.Params {
				if p == x && i < len(cc.Args) {
					return inv(cc.Args[i])
				}
			}
		case *ssa.UnOp:
			if x.Op == token.MUL {
				if a, ok := x.X.(*ssa.Alloc); ok && stores[a] == 1 && spill[a] != nil {
					return calleeInv(spill[a])
				}
			}
		case *ssa.FieldAddr:
			if bv, ok := calleeInv(x.X); ok {
				if bp, ok := bv.(PtrV); ok && bp.Cell == 0 {
					return bp.field(x.Field, x.Type().(*types.Pointer).Elem()), true
				}
			}
		case *ssa.Const:
			return e.val(st, v), true
		}
		return nil, false
	}
	for _, b := range fn.Blocks {
		for _, ins := range b.Instrs {
			switch x := ins.(type) {
			case *ssa.Store:
				if rootAlloc(x.Addr) != nil {
					continue
				}
				root, path, ok := addrChain(x.Addr)
				if !ok {
					continue
				}
				if a, isA := root.(*ssa.Alloc); isA && !a.Heap && !isArrayAlloc(a) {
					continue
				}
				var rootName string
				switch r := root.(type) {
				case *ssa.Global:
					rootName = "glob:" + r.Pkg.Pkg.Path() + "." + r.Name()
				default:
					if pt, isP := root.Type().Underlying().(*types.Pointer); isP {
						rootName = e.rootKey(pt.Elem())
					} else if sl, isS := root.Type().Underlying().(*types.Slice); isS {
						rootName = e.rootKey(arrRootT(sl.Elem()))
					} else {
						continue
					}
				}
				key := rootName
				dims := 0
				for _, s := range path {
					if s.field != "" {
						key += "." + s.field
					} else {
						key += "[]"
						dims++
					}
				}
				switch root.(type) {
				case *ssa.Alloc, *ssa.MakeSlice:
					// an object allocated by the callee itself: fresh at every call,
					// so only references above the loop-entry frontier are touched
					*allocKeys = append(*allocKeys, e.leafKeys(key, x.Val.Type(), dims)...)
					continue
				}
				if rv, ok := calleeInv(root); ok {
					var ref Term
					switch y := rv.(type) {
					case PtrV:
						if y.Cell == 0 && y.Global == nil && len(y.Path) == 0 {
							ref = y.Ref
						}
					case SliceV:
						ref = y.Arr
					}
					if !ref.IsZero() {
						for _, ks := range e.leafKeys(key, x.Val.Type(), dims) {
							slot(ks, ref)
						}
						continue
					}
				}
				*whole = append(*whole, e.leafKeys(key, x.Val.Type(), dims)...)
			case *ssa.MapUpdate:
				mt := x.Map.Type().Underlying().(*types.Map)
				*whole = append(*whole, e.mapDomKS(mt), e.mapLenKS(mt))
				*whole = append(*whole, e.mapValKS(mt)...)
			case ssa.CallInstruction:
				e.loopCallEffects(st, fr, li, x.Common(), calleeInv, whole, allocKeys, slot, depth+1)
			case *ssa.Alloc, *ssa.MakeSlice, *ssa.MakeMap, *ssa.MakeInterface:
				*allocKeys = append(*allocKeys, e.allocEffects(ins)...)
			}
		}
	}
}

// allocEffects lists the heap arrays initialised by an allocating instruction.
func (e *Engine) allocEffects(ins ssa.Instruction) []KeySort {
	switch x := ins.(type) {
	case *ssa.Alloc:
		et := x.Type().(*types.Pointer).Elem()
		if at, ok := et.Underlying().(*types.Array); ok {
			return e.leafKeys(e.rootKey(et)+"[]", at.Elem(), 1)
		}
		if x.Heap {
			return e.leafKeys(e.rootKey(et), et, 0)
		}
	case *ssa.MakeSlice:
		el := x.Type().Underlying().(*types.Slice).Elem()
		return e.leafKeys(typeKey(arrRootT(el))+"[]", el, 1)
	case *ssa.MakeMap:
		mt := x.Type().Underlying().(*types.Map)
		return []KeySort{e.mapDomKS(mt), e.mapLenKS(mt)}
	case *ssa.MakeInterface:
		t := x.X.Type()
		switch t.Underlying().(type) {
		case *types.Pointer, *types.Map, *types.Interface:
			return nil
		}
		return e.leafKeys("ibox:"+e.rootKey(t), t, 0)
	}
	return nil
}

func mentionsFresh(t Term) bool { return strings.Contains(t.S, "lp_") }

func (e *Engine) loopTouchesTrace(fr *frame, li *loopInfo) bool {
	for b := range li.body {
		for _, ins := range b.Instrs {
			switch x := ins.(type) {
			case *ssa.Send, *ssa.Select, *ssa.Go:
				return true
			case ssa.CallInstruction:
				if e.callTouchesTrace(x.Common(), 0) {
					return true
				}
			}
		}
	}
	return false
}

var quietSpecPrefixes = []string{"sync/atomic.", "(*go.uber.org/atomic.", "math.", "(*sync.RWMutex)", "(*sync.Mutex)", "strconv.", "fmt.Sprintf", "(*bytes.Buffer)", "sort.", "errors.New", "fmt.Errorf", "runtime.", "(time.Duration).String", "(time.Time).Sub", "(time.Time).UnixNano"}

// callTouchesTrace: may this call append events to the ghost call trace?
func (e *Engine) callTouchesTrace(cc *ssa.CallCommon, depth int) bool {
	if cc.IsInvoke() {
		if e.isPureMethod(cc.Method) {
			return false
		}
		if ci := e.closedIface(cc.Value.Type()); ci != nil {
			return false // closed interfaces here are value-like accessors (Buckets, BucketPair)
		}
		return true
	}
	switch f := cc.Value.(type) {
	case *ssa.Builtin:
		return f.Name() == "close"
	}
	fn := cc.StaticCallee()
	if fn == nil {
		if mc, ok := cc.Value.(*ssa.MakeClosure); ok {
			fn = mc.Fn.(*ssa.Function)
		} else {
			return true
		}
	}
	name := fn.String()
	if _, ok := builtinSpecs[name]; ok {
		for _, p := range quietSpecPrefixes {
			if strings.HasPrefix(name, p) {
				return false
			}
		}
		return true
	}
	if c := e.contractOf(fn); c != nil && !c.Inline {
		return c.Emits
	}
	if fn.Blocks == nil {
		if p := pkgOf(fn); p != nil && purePkgs[p.Path()] {
			return false
		}
		return true
	}
	if depth > 6 {
		return true
	}
	for _, b := range fn.Blocks {
		for _, ins := range b.Instrs {
			switch x := ins.(type) {
			case *ssa.Send, *ssa.Select, *ssa.Go:
				return true
			case ssa.CallInstruction:
				if e.callTouchesTrace(x.Common(), depth+1) {
					return true
				}
			}
		}
	}
	return false
}

func (e *Engine) currentSeen(env *SpecEnv) (Term, bool) {
	lv, ok := env.vars["$loop"]
	if !ok {
		return Term{}, false
	}
	n, _ := isIntLit(lv.(Term))
	return e.seenOfLoop(env, int(n))
}

func (e *Engine) seenOfLoop(env *SpecEnv, n int) (Term, bool) {
	if e.cur == nil {
		return Term{}, false
	}
	for _, li := range e.cur.loops {
		if li.ordinal == n && li.rangeI != nil {
			s, ok := env.st.iters[li.rangeI]
			return s, ok
		}
	}
	return Term{}, false
}

func (e *Engine) iterCountOfLoop(env *SpecEnv, n int) (Term, bool) {
	if e.cur == nil {
		return Term{}, false
	}
	for _, li := range e.cur.loops {
		if li.ordinal == n && li.rangeI != nil {
			if v, ok := env.st.ghost["itcnt:"+li.rangeI.Name()]; ok {
				return v.(Term), true
			}
		}
	}
	return Term{}, false
}

func (e *Engine) strCountOfLoop(env *SpecEnv, n int) (Term, bool) {
	if e.cur == nil {
		return Term{}, false
	}
	for _, li := range e.cur.loops {
		if li.ordinal == n && li.rangeI != nil {
			v, ok := env.st.ghost["strcnt:"+li.rangeI.Name()]
			if ok {
				return v.(Term), true
			}
		}
	}
	return Term{}, false
}

// ---------------------------------------------------------------------------
// obligations

func (e *Engine) oblige(st *State, kind, clause string, goal Term, pos token.Pos) {
	if goal.S == "true" || st.known[goal.S] {
		if e.cur != nil {
			e.recordTrivial(kind, clause)
		}
		return
	}
	ob := e.newObligation(st, kind, clause, goal, pos)
	e.obls = append(e.obls, ob)
	st.assume(goal)
}

func (e *Engine) recordTrivial(kind, clause string) {
	name := e.oblName(kind, clause)
	e.trivial[name]++
}

func (e *Engine) oblName(kind, clause string) string {
	vc := e.cur
	if vc == nil {
		return kind + "." + clause
	}
	_, rel := e.relName(vc.fn)
	n := fmt.Sprintf("%s.%s/%s.%s", pkgBase(pkgOf(vc.fn).Path()), rel, kind, clause)
	if vc.caseName != "" {
		n += "[" + vc.caseName + "]"
	}
	return n
}

func (e *Engine) newObligation(st *State, kind, clause string, goal Term, pos token.Pos) *Obligation {
	ob := &Obligation{Kind: kind, Clause: clause, Pos: e.pos(pos), Goal: goal.S}
	ob.Name = e.oblName(kind, clause)
	if e.cur != nil {
		_, rel := e.relName(e.cur.fn)
		ob.Func = pkgBase(pkgOf(e.cur.fn).Path()) + "." + rel
		ob.Case = e.cur.caseName
		if e.cur.c != nil {
			ob.Props = e.cur.c.Props
		}
	}
	ob.Trail = append([]string{}, st.trail...)
	ob.NegGoal = Not(goal).S
	ob.Query = e.buildQuery(st.pc, Not(goal))
	return ob
}

// pkgAxiomSyms: for every contract-file axiom assumed at function entry, the
// uninterpreted symbols it is about. buildQuery leaves an axiom out when none
// of them occurs in the rest of the query (dropping a hypothesis is sound; it
// keeps unrelated quantifiers out of the solver's way).
var pkgAxiomSyms = map[string][]string{}

func axiomSymbols(text string) []string {
	var out []string
	for _, s := range symbolsIn(text) {
		if strings.HasPrefix(s, "|pure:") || strings.HasPrefix(s, "|pm:") || strings.HasPrefix(s, "pure:") || strings.HasPrefix(s, "pm:") ||
			s == "runeCount" || s == "runeAt" || s == "runeOff" || s == "rune2str" {
			out = append(out, s)
		}
	}
	return out
}

func filterAxioms(pc []Term, negGoal Term) []Term {
	if len(pkgAxiomSyms) == 0 {
		return pc
	}
	var rest strings.Builder
	var axs []Term
	for _, p := range pc {
		if _, ok := pkgAxiomSyms[p.S]; ok {
			axs = append(axs, p)
		} else {
			rest.WriteString(p.S)
			rest.WriteByte(' ')
		}
	}
	if len(axs) == 0 {
		return pc
	}
	rest.WriteString(negGoal.S)
	text := rest.String()
	keep := map[string]bool{}
	for changed := true; changed; {
		changed = false
		for _, a := range axs {
			if keep[a.S] {
				continue
			}
			for _, sy := range pkgAxiomSyms[a.S] {
				if strings.Contains(text, sy) {
					keep[a.S] = true
					text += " " + a.S
					changed = true
					break
				}
			}
		}
	}
	var out []Term
	for _, p := range pc {
		if syms, ok := pkgAxiomSyms[p.S]; ok && len(syms) > 0 && !keep[p.S] {
			continue
		}
		out = append(out, p)
	}
	return out
}

func (e *Engine) buildQuery(pc []Term, negGoal Term) string {
	var sb strings.Builder
	var texts []string
	pc = filterAxioms(pc, negGoal)
	for _, p := range pc {
		texts = append(texts, p.S)
	}
	texts = append(texts, negGoal.S)
	sb.WriteString(smtPrelude)
	sb.WriteString(e.ctx.Closure(texts...))
	for _, p := range pc {
		sb.WriteString("(assert " + p.S + ")\n")
	}
	sb.WriteString("(assert " + negGoal.S + ")\n(check-sat)\n")
	return sb.String()
}

// cover obligations: the path condition must be satisfiable (vacuity guard)
func (e *Engine) cover(st *State, clause string, pos token.Pos) {
	ob := &Obligation{Kind: "cover", Clause: clause, Pos: e.pos(pos), Cover: true}
	ob.Name = e.oblName("cover", clause)
	if e.cur != nil {
		_, rel := e.relName(e.cur.fn)
		ob.Func = pkgBase(pkgOf(e.cur.fn).Path()) + "." + rel
		ob.Case = e.cur.caseName
		if e.cur.c != nil {
			ob.Props = e.cur.c.Props
		}
	}
	var qf []Term
	for _, p := range st.pc {
		if !strings.Contains(p.S, "(forall ") && !strings.Contains(p.S, "(exists ") {
			qf = append(qf, p)
		}
	}
	ob.Query = stripQuantified(e.buildQuery(qf, TTrue))
	e.covers = append(e.covers, ob)
}

// ---------------------------------------------------------------------------
// verification of one function against its contract

type FuncResult struct {
	Func      string
	Props     []string
	Undecided string
	Notes     []string
	Inlined   []string
	Used      []string
	Paths     int
}

func (e *Engine) VerifyFunc(fn *ssa.Function, c *Contract) (res *FuncResult) {
	if c.BitVector {
		return e.verifyBitVector(fn, c)
	}
	_, rel := e.relName(fn)
	res = &FuncResult{Func: pkgBase(pkgOf(fn).Path()) + "." + rel, Props: c.Props}
	cases := []*Case{nil}
	if len(c.Cases) > 0 {
		cases = nil
		for _, cs := range c.Cases {
			cases = append(cases, cs)
		}
	}
	notes := map[string]bool{}
	inl := map[string]bool{}
	used := map[string]bool{}
	for _, cs := range cases {
		func() {
			nObl := len(e.obls)
			nCov := len(e.covers)
			defer func() {
				if r := recover(); r != nil {
					switch x := r.(type) {
					case unsupportedErr:
						res.Undecided = x.Error()
					case specErr:
						res.Undecided = x.Error()
					default:
						panic(r)
					}
					// discard partial obligations of an undecided function case
					e.obls = e.obls[:nObl]
					e.covers = e.covers[:nCov]
					e.cur = nil
				}
			}()
			e.verifyCase(fn, c, cs, res)
			for k := range e.cur.notes {
				notes[k] = true
			}
			for k := range e.cur.inlined {
				inl[k] = true
			}
			for k := range e.cur.usedContracts {
				used[k] = true
			}
			e.cur = nil
		}()
	}
	for k := range notes {
		res.Notes = append(res.Notes, k)
	}
	for k := range inl {
		res.Inlined = append(res.Inlined, k)
	}
	for k := range used {
		res.Used = append(res.Used, k)
	}
	sort.Strings(res.Notes)
	sort.Strings(res.Inlined)
	sort.Strings(res.Used)
	return res
}

func (e *Engine) verifyCase(fn *ssa.Function, c *Contract, cs *Case, res *FuncResult) {
	st := e.newState()
	vc := &verifyCtx{fn: fn, c: c, notes: map[string]bool{}, inlined: map[string]bool{}, usedContracts: map[string]bool{}, params: map[string]Value{}}
	if cs != nil {
		vc.caseName = cs.Name
	}
	vc.loops = e.loopsOf(fn)
	e.cur = vc
	var args []Value
	for _, p := range fn.Params {
		v := e.freshValue(st, "arg_"+p.Name(), p.Type())
		args = append(args, v)
		vc.params[p.Name()] = wrapTyped(v, p.Type())
	}
	var bind []Value
	for _, fv := range fn.FreeVars {
		// captured variable: a heap box with symbolic content
		et := fv.Type().(*types.Pointer).Elem()
		ref := e.ctx.Fresh("fv_"+fv.Name(), SInt)
		st.assume(And(Lt(IntLit(0), ref), Lt(ref, st.nextRefTerm())))
		p := PtrV{Ref: ref, RootT: et, Elem: et}
		bind = append(bind, p)
		vc.params[fv.Name()] = wrapTyped(e.load(st, p, et), et)
		if vc.boxes == nil {
			vc.boxes = map[string]PtrV{}
		}
		vc.boxes[fv.Name()] = p
	}
	// distinct captured boxes of the same type
	for i := range bind {
		for j := i + 1; j < len(bind); j++ {
			pi, pj := bind[i].(PtrV), bind[j].(PtrV)
			if typeKey(pi.RootT) == typeKey(pj.RootT) {
				st.assume(Neq(pi.Ref, pj.Ref))
			}
		}
	}
	e.initMarks(st, true)
	vc.entry = st // placeholder so specEnv works
	env := vc.specEnv(st)
	env.old = nil
	for _, r := range c.Requires {
		st.assume(e.evalSpecBool(env, r.Expr))
	}
	if cs != nil {
		for _, r := range cs.Requires {
			st.assume(e.evalSpecBool(env, r.Expr))
		}
	}
	if ps := e.specOf(pkgOf(fn)); ps != nil {
		for _, ax := range ps.Lemmas {
			if ax.Axiom {
				at := e.evalSpecBool(env, ax.Expr)
				pkgAxiomSyms[at.S] = axiomSymbols(at.S)
				st.assume(at)
			}
		}
	}
	for _, a := range c.Assumes {
		st.assume(e.evalSpecBool(env, a.Expr))
		e.trustedUsed[fmt.Sprintf("UNCHECKED assumption at entry of %s: %s", fn.Name(), a.Src)] = true
	}
	// ghost variables and source-line hooks
	for _, g := range c.GhostVars {
		st.ghost[g.Name] = e.evalSpec(env, g.Init)
	}
	e.resolveHooks(vc)
	vc.discipline = e.newDiscipline(fn)
	vc.entryLocks = map[string]lockMode{}
	for _, h := range c.Holds {
		key := e.holdKey(env, h)
		st.locks[key] = h.Mode
		vc.entryLocks[key] = h.Mode
	}
	if c.Proto != "" {
		vc.proto = e.newProtoRun(st, fn, c)
		vc.entry = st
		vc.proto.bind(e, st, args[0])
	}
	vc.entry = st.clone()
	e.cover(st, "requires_satisfiable", fn.Pos())
	rets := e.runFunction(st, fn, args, bind, true)
	res.Paths += len(rets)
	ensures := append([]*Clause{}, c.Ensures...)
	if cs != nil {
		ensures = append(ensures, cs.Ensures...)
	}
	for _, r := range rets {
		e.cover(r, "return_reachable", fn.Pos())
		penv := vc.specEnv(r)
		penv.hasRes = true
		if len(c.Witness) > 0 {
			look := e.localLookup(r, fn)
			for _, w := range c.Witness {
				if i := strings.Index(w.Local, "."); i > 0 && !strings.HasPrefix(w.Local, "callee ") {
					// a field path on the CURRENT value of a local or parameter, e.g.
					// m.Tags for a by-value parameter the function assigns to
					base, ok := look(w.Local[:i])
					if !ok {
						if !hasLocal(fn, w.Local[:i]) {
							sfail("witness %s: the function has no local variable %s (contract no longer matches the source)", w.Name, w.Local[:i])
						}
						wt := e.resolveType(pkgOf(fn), w.Type)
						penv.vars[w.Name] = wrapTyped(e.zeroValue(wt), wt)
						continue
					}
					x, err := parseSpec("witnessbase" + w.Local[i:])
					if err != nil {
						sfail("witness %s: %v", w.Name, err)
					}
					penv.vars[w.Name] = e.evalSpec(penv.with("witnessbase", base), x)
					continue
				}
				v, ok := look(w.Local)
				if strings.HasPrefix(w.Local, "callee ") {
					// re-export of the witness of a callee's contract (last call)
					v, ok = r.ghost["wit:"+strings.TrimSpace(strings.TrimPrefix(w.Local, "callee "))]
				}
				if !ok {
					if !strings.HasPrefix(w.Local, "callee ") && !hasLocal(fn, w.Local) {
						sfail("witness %s: the function has no local variable %s (contract no longer matches the source)", w.Name, w.Local)
					}
					// the local was never reached on this path: its zero value
					wt := e.resolveType(pkgOf(fn), w.Type)
					v = wrapTyped(e.zeroValue(wt), wt)
				}
				penv.vars[w.Name] = v
			}
		}
		sig := fn.Signature
		if sig.Results().Len() == 1 {
			penv.result = wrapTyped(r.retVal, sig.Results().At(0).Type())
		} else {
			penv.result = r.retVal
		}
		for i, en := range ensures {
			e.oblige(r, "post", clauseName(en, i), e.evalSpecBool(penv, en.Expr), fn.Pos())
		}
		if c.Panics != nil {
			e.oblige(r, "panic", "not_when_returning", Not(e.evalSpecBool(vc.specEnv(r).inOld(), c.Panics.Expr)), fn.Pos())
		}
		if !c.NoFrame {
			e.checkFrame(r, vc)
		}
		if vc.discipline != nil {
			vc.discipline.atReturn(e, r, fn.Pos())
		}
		if vc.proto != nil {
			vc.proto.atReturn(e, r, fn.Pos())
		}
	}
}

// checkFrame: every heap array that differs from the entry heap may differ
// only at freshly allocated references or at locations listed in modifies.
func (e *Engine) checkFrame(st *State, vc *verifyCtx) {
	c := vc.c
	if c.ModAny {
		return
	}
	for _, m := range c.Modifies {
		if m.Any {
			return
		}
	}
	env := vc.specEnv(st).inOld()
	type allowed struct {
		ref Term
	}
	allow := map[string][]Term{}
	wholeOK := map[string]bool{}
	for _, t := range e.acquiredTargets(env, c) {
		if t.whole {
			wholeOK[t.ks.Key] = true
		} else {
			allow[t.ks.Key] = append(allow[t.ks.Key], t.ref)
		}
	}
	for _, m := range c.Modifies {
		if m.All != "" {
			for _, ks := range e.resolveAllLoc(env, m.All) {
				wholeOK[ks.Key] = true
			}
			continue
		}
		for _, t := range e.modTargets(env, m.Expr) {
			if t.whole {
				wholeOK[t.ks.Key] = true
			} else {
				allow[t.ks.Key] = append(allow[t.ks.Key], t.ref)
			}
		}
	}
	var keys []string
	for k := range st.heap {
		keys = append(keys, k)
	}
	sort.Strings(keys)
	base := vc.entry.nextRefTerm()
	var goals []Term
	for _, k := range keys {
		if wholeOK[k] || strings.HasPrefix(k, "chan#") {
			continue
		}
		so := e.heapKeys[k]
		if so == nil {
			continue
		}
		cur := st.heap[k]
		old := vc.entry.heapArr(k, so)
		if cur.S == old.S {
			continue
		}
		r := T("r!q", SInt)
		conds := []Term{Lt(r, base), Lt(IntLit(0), r)}
		if strings.HasPrefix(k, "glob:") {
			conds = []Term{Eq(r, IntLit(0))}
		}
		for _, a := range allow[k] {
			conds = append(conds, Neq(r, a))
		}
		goals = append(goals, Forall([]Term{r}, Implies(And(conds...), Eq(Select(cur, r), Select(old, r)))))
	}
	// one obligation per return path (all heap arrays together)
	if len(goals) > 0 {
		e.oblige(st, "frame", "only_declared_locations_modified", And(goals...), vc.fn.Pos())
	}
}

// stripQuantified removes quantified assertions (prelude axioms) from a query;
// used for the satisfiability (cover) checks, which solvers cannot answer in
// the presence of quantifiers. The check becomes weaker, never unsound.
func stripQuantified(q string) string {
	var sb strings.Builder
	for _, l := range strings.Split(q, "\n") {
		if strings.HasPrefix(l, "(assert ") && (strings.Contains(l, "(forall ") || strings.Contains(l, "(exists ")) {
			continue
		}
		sb.WriteString(l)
		sb.WriteByte('\n')
	}
	return sb.String()
}

// holdKey resolves a `holds` declaration to the lock-set key.
func (e *Engine) holdKey(env *SpecEnv, h HoldDecl) string {
	base, ok := e.evalSpec(env, h.Lock).(PtrV)
	if !ok {
		sfail("holds: %s is not a struct location", h.Lock)
	}
	stt, ok := base.Elem.Underlying().(*types.Struct)
	if !ok {
		sfail("holds: %s is not a struct", h.Lock)
	}
	for i := 0; i < stt.NumFields(); i++ {
		if stt.Field(i).Name() == h.Field {
			return e.locString(env.st, base.field(i, stt.Field(i).Type()))
		}
	}
	sfail("holds: no field %s", h.Field)
	return ""
}

// resolveHooks attaches the contract's after/before hooks to instructions of
// the function: the unique source line of the function containing the hook's
// text; `after` = the stores to locals on that line (the last one in each
// block), `before` = the first call on that line.
func (e *Engine) resolveHooks(vc *verifyCtx) {
	vc.hooksAfter = map[ssa.Instruction][]*AtHook{}
	vc.hooksBefore = map[ssa.Instruction][]*AtHook{}
	if len(vc.c.Hooks) == 0 {
		return
	}
	fn := vc.fn
	fset := e.prog.Fset
	var file string
	lo, hi := 1<<30, 0
	for _, b := range fn.Blocks {
		for _, ins := range b.Instrs {
			if ins.Pos().IsValid() {
				pp := fset.Position(ins.Pos())
				file = pp.Filename
				if pp.Line < lo {
					lo = pp.Line
				}
				if pp.Line > hi {
					hi = pp.Line
				}
			}
		}
	}
	src, err := os.ReadFile(file)
	if err != nil {
		panic(unsupported("hooks: cannot read " + file))
	}
	lines := strings.Split(string(src), "\n")
	for _, h := range vc.c.Hooks {
		var hlines []int
		for ln := lo; ln <= hi && ln <= len(lines); ln++ {
			if strings.Contains(lines[ln-1], h.Text) {
				hlines = append(hlines, ln)
			}
		}
		if len(hlines) > 1 && !h.All {
			panic(unsupported(fmt.Sprintf("hook text %q matches more than one line of %s", h.Text, fn.Name())))
		}
		if len(hlines) == 0 {
			panic(unsupported(fmt.Sprintf("hook text %q not found in %s (contract no longer matches the source)", h.Text, fn.Name())))
		}
		line := hlines[0]
		found := false
		for _, b := range fn.Blocks {
			for _, hl := range hlines {
				var lastStore ssa.Instruction
				var firstCall ssa.Instruction
				for _, ins := range b.Instrs {
					if !ins.Pos().IsValid() || fset.Position(ins.Pos()).Line != hl {
						continue
					}
					switch x := ins.(type) {
					case *ssa.Store:
						if rootAlloc(x.Addr) != nil {
							lastStore = ins
						}
					case ssa.CallInstruction:
						if firstCall == nil {
							firstCall = ins
						}
					}
				}
				if h.Before && firstCall != nil {
					vc.hooksBefore[firstCall] = append(vc.hooksBefore[firstCall], h)
					found = true
				}
				if !h.Before && lastStore != nil {
					vc.hooksAfter[lastStore] = append(vc.hooksAfter[lastStore], h)
					found = true
				}
			}
		}
		if !found {
			panic(unsupported(fmt.Sprintf("hook text %q: no assignment/call on line %d of %s", h.Text, line, fn.Name())))
		}
	}
}

// runHooks executes the hooks attached to an instruction.
func (e *Engine) runHooks(st *State, hs []*AtHook, pos token.Pos) {
	if len(hs) == 0 || e.cur == nil {
		return
	}
	env := e.cur.specEnv(st)
	env.local = e.localLookup(st, e.cur.fn)
	for _, h := range hs {
		switch h.Kind {
		case "set":
			st.ghost[h.Ghost] = e.evalSpec(env, h.Clause.Expr)
		case "assert":
			e.oblige(st, "assert", clauseName(h.Clause, 0), e.evalSpecBool(env, h.Clause.Expr), pos)
			st.assume(e.evalSpecBool(env, h.Clause.Expr))
		case "assume":
			st.assume(e.evalSpecBool(env, h.Clause.Expr))
			e.trustedUsed[fmt.Sprintf("UNCHECKED assumption in %s at %q: %s", e.cur.fn.Name(), h.Text, h.Clause.Src)] = true
		}
	}
}
