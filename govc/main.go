package main

import (
	"encoding/json"
	"flag"
	"fmt"
	"os"
	"sort"
	"strings"
	"time"
)

func main() {
	if len(os.Args) > 2 && os.Args[1] == "splitq" {
		// debugging aid: split the goal of a dumped query into its conjuncts
		b, _ := os.ReadFile(os.Args[2])
		q := string(b)
		k := strings.LastIndex(q, "(assert ")
		tail := strings.TrimSpace(q[k:])
		tail = strings.TrimSuffix(strings.TrimSpace(strings.TrimSuffix(tail, "(check-sat)")), ")")
		neg := strings.TrimPrefix(tail, "(assert ")
		goal := "(not " + neg + ")"
		if strings.HasPrefix(neg, "(not ") {
			goal = neg[5 : len(neg)-1]
		}
		for i, p := range splitGoal(goal) {
			f := fmt.Sprintf("%s.part%02d.smt2", os.Args[2], i)
			os.WriteFile(f, []byte(q[:k]+"(assert (not "+p+"))\n(check-sat)\n"), 0o644)
			fmt.Println(f, len(p))
		}
		return
	}
	if len(os.Args) > 1 && os.Args[1] == "check" {
		fs := flag.NewFlagSet("check", flag.ExitOnError)
		o := checkOpts{}
		fs.StringVar(&o.repo, "repo", "/repo", "repository")
		fs.StringVar(&o.verif, "verif", "/verif", "verif directory")
		fs.StringVar(&o.prop, "property", "", "property id")
		fs.StringVar(&o.tier, "tier", "quick", "quick|thorough")
		fs.IntVar(&o.timeout, "timeout", 0, "per-obligation timeout")
		fs.IntVar(&o.workers, "j", 16, "workers")
		fs.BoolVar(&o.writeLedger, "write-ledger", false, "rewrite the ledger from this run")
		fs.BoolVar(&o.verbose, "v", false, "verbose")
		fs.Parse(os.Args[2:])
		if t := os.Getenv("VERIF_TIER"); t != "" && o.tier == "" {
			o.tier = t
		}
		if s := os.Getenv("VERIF_SEED"); s != "" {
			fmt.Sscanf(s, "%d", &o.seed)
		}
		if o.timeout == 0 {
			o.timeout = 10
			if o.tier == "thorough" {
				o.timeout = 60
			}
		}
		os.Exit(runCheck(o))
	}
	repo := flag.String("repo", "/repo", "repository root")
	funcs := flag.String("func", "", "comma-separated substrings of functions to verify (default all under contract)")
	prop := flag.String("property", "", "property id")
	timeout := flag.Int("timeout", 10, "per-obligation solver timeout (s)")
	workers := flag.Int("j", 16, "parallel solver processes")
	dump := flag.String("dump", "", "directory to keep SMT queries in")
	verbose := flag.Bool("v", false, "verbose")
	jsonOut := flag.String("json", "", "write raw results as JSON")
	flag.Parse()
	t0 := time.Now()
	e, err := NewEngine(*repo, []string{"./..."})
	if err != nil {
		fmt.Fprintln(os.Stderr, "load:", err)
		os.Exit(2)
	}
	if *verbose {
		fmt.Fprintf(os.Stderr, "loaded in %.1fs, %d packages with contracts\n", time.Since(t0).Seconds(), len(e.specs))
	}
	var results []*FuncResult
	var pkgs []string
	for p := range e.specs {
		pkgs = append(pkgs, p)
	}
	sort.Strings(pkgs)
	for _, p := range pkgs {
		ps := e.specs[p]
		for _, key := range ps.Order {
			c := ps.Contracts[key]
			if c.Trusted || c.Inline {
				continue
			}
			if *prop != "" && !contains(c.Props, *prop) {
				continue
			}
			if *funcs != "" {
				ok := false
				for _, f := range strings.Split(*funcs, ",") {
					if strings.Contains(key, f) {
						ok = true
					}
				}
				if !ok {
					continue
				}
			}
			fn := e.findFunc(p, key)
			if fn == nil {
				results = append(results, &FuncResult{Func: pkgBase(p) + "." + key, Props: c.Props, Undecided: "contract target not found"})
				continue
			}
			results = append(results, e.VerifyFunc(fn, c))
		}
		for _, rt := range ps.RoundTrips {
			if (*prop == "" || contains(rt.Props, *prop)) && (*funcs == "" || strings.Contains("roundtrip "+rt.Name, *funcs)) {
				results = append(results, e.verifyRoundTrip(ps, rt))
			}
		}
	}
	if *prop != "" {
		results = append(results, e.verifyProtocols(*prop)...)
	}
	dir := *dump
	if dir == "" {
		dir, _ = os.MkdirTemp("", "govc")
		defer os.RemoveAll(dir)
	} else {
		os.MkdirAll(dir, 0o755)
	}
	all := append(append([]*Obligation{}, e.obls...), e.covers...)
	t1 := time.Now()
	discharge(all, dir, *timeout, *workers)
	if *verbose {
		fmt.Fprintf(os.Stderr, "generated %d obligations in %.1fs, solved in %.1fs\n", len(all), t1.Sub(t0).Seconds(), time.Since(t1).Seconds())
	}
	bad := 0
	coverOK := map[string]bool{}
	for _, c := range e.covers {
		if c.Verdict != "vacuous" {
			coverOK[c.Name] = true
		}
	}
	for _, c := range e.covers {
		if coverOK[c.Name] && c.Verdict == "vacuous" {
			c.Verdict = "covered"
		}
	}
	for _, r := range results {
		if r.Undecided != "" {
			fmt.Printf("UNDECIDED %s: %s\n", r.Func, r.Undecided)
			bad++
		}
	}
	counts := map[string]int{}
	if os.Getenv("VERIF_DEBUG_INITONLY") != "" {
		e.stableKeys()
		for _, ob := range e.initOnlyObls {
			fmt.Printf("initonly-scan %s %s %s\n", ob.Verdict, ob.Name, ob.Output)
		}
	}
	for _, ob := range e.engineObls {
		if ob.Verdict != "discharged" {
			fmt.Printf("%-10s %s (engine)\n   %s\n", ob.Verdict, ob.Name, ob.Output)
			bad++
		}
	}
	for i, ob := range all {
		counts[ob.Verdict]++
		if ob.Verdict != "discharged" && ob.Verdict != "covered" {
			fmt.Printf("%-10s %s  (%s, %s, %.2fs) q%06d\n   goal: %s\n   %s\n", ob.Verdict, ob.Name, ob.Pos, ob.Solver, ob.Time, i, trunc(ob.Goal, 300), trunc(ob.Output, 300))
			if *verbose && ob.Model != "" {
				fmt.Println(trunc(ob.Model, 3000))
			}
			for _, t := range ob.Trail {
				fmt.Println("     path:", t)
			}
			bad++
		} else if *verbose {
			fmt.Printf("%-10s %s (%s %.2fs)\n", ob.Verdict, ob.Name, ob.Solver, ob.Time)
		}
	}
	fmt.Printf("functions=%d obligations=%d %v trivial=%d wall=%.1fs\n", len(results), len(all), counts, len(e.trivial), time.Since(t0).Seconds())
	if *jsonOut != "" {
		b, _ := json.MarshalIndent(map[string]interface{}{"functions": results, "obligations": all}, "", " ")
		os.WriteFile(*jsonOut, b, 0o644)
	}
	if bad > 0 {
		os.Exit(1)
	}
}

func contains(l []string, s string) bool {
	for _, x := range l {
		if x == s {
			return true
		}
	}
	return false
}

func trunc(s string, n int) string {
	if len(s) > n {
		return s[:n] + "…"
	}
	return s
}
