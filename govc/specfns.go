package main

import (
	"fmt"
	"go/token"
	"go/types"
	"golang.org/x/tools/go/ssa"
	"strings"
)

func (e *Engine) specCall(env *SpecEnv, x *SExpr) Value {
	fnx := x.Args[0]
	args := x.Args[1:]
	name := ""
	if fnx.Op == "ident" {
		name = fnx.Name
	}
	if fnx.Op == "sel" && fnx.Args[0].Op == "ident" {
		name = fnx.Args[0].Name + "." + fnx.Name
	}
	need := func(n int) {
		if len(args) != n {
			sfail("%s expects %d arguments", name, n)
		}
	}
	switch name {
	case "old":
		need(1)
		return e.evalSpec(env.inOld(), args[0])
	case "ifbound":
		// ifbound(expr): expr, or true when it mentions an identifier that does
		// not exist in this function (e.g. a variable a closure no longer captures)
		need(1)
		var out Value
		func() {
			defer func() {
				if r := recover(); r != nil {
					if se, ok := r.(specErr); ok && strings.HasPrefix(se.msg, "unknown identifier") {
						out = TTrue
						return
					}
					panic(r)
				}
			}()
			out = e.evalSpec(env, args[0])
		}()
		return out
	case "len":
		need(1)
		switch v := e.evalSpec(env, args[0]).(type) {
		case SliceV:
			return v.Len
		case MapV:
			return e.mapLen(env.st, v.T, v.Ref)
		case TraceV:
			return env.st.callsLen
		case Term:
			if v.Sort.K == KStr {
				e.strFacts(env.st, v)
				return slen(v)
			}
		case ArrayV:
			return IntLit(int64(len(v.E)))
		}
		sfail("len of unsupported value in %s", x)
	case "cap":
		need(1)
		if v, ok := e.evalSpec(env, args[0]).(SliceV); ok {
			return v.Cap
		}
		sfail("cap of non-slice")
	case "isNaN":
		need(1)
		return app(SBool, "f64.isNaN", e.evalSpecTerm(env, args[0]))
	case "isInf":
		v := e.evalSpecTerm(env, args[0])
		pos, neg := app(SBool, "f64.isPosInf", v), app(SBool, "f64.isNegInf", v)
		if len(args) == 2 {
			s := e.evalSpecTerm(env, args[1])
			n, ok := isIntLit(s)
			if !ok {
				if s.S == "(- 1)" {
					return neg
				}
				sfail("isInf sign must be a literal")
			}
			if n > 0 {
				return pos
			}
			if n == 0 {
				return Or(pos, neg)
			}
			return neg
		}
		return Or(pos, neg)
	case "same":
		need(2)
		a := e.evalSpec(env, args[0])
		b := e.evalSpec(env, args[1])
		fa, fb := e.flat(a), e.flat(b)
		if len(fa) != len(fb) {
			sfail("same: different shapes")
		}
		var cs []Term
		for i := range fa {
			cs = append(cs, Eq(fa[i], fb[i]))
		}
		return And(cs...)
	case "fresh":
		need(1)
		r := e.refOf(e.evalSpec(env, args[0]))
		base := env.st.nextRefTerm()
		if env.old != nil {
			base = env.old.nextRefTerm()
		}
		return And(Le(base, r), Lt(r, env.st.nextRefTerm()))
	case "other_arrays_unchanged":
		// other_arrays_unchanged(s): every backing array of s's element type that
		// existed at function entry, other than the array of the slice value s, has
		// the contents it had at entry (a frame fact usable as a loop invariant)
		need(1)
		sv, ok := e.evalSpec(env, args[0]).(SliceV)
		if !ok || env.old == nil {
			sfail("other_arrays_unchanged needs a slice (and an entry state)")
		}
		r := T("r!oa", SInt)
		var cs []Term
		for _, ks := range e.leafKeys(typeKey(arrRootT(sv.Elem))+"[]", sv.Elem, 1) {
			e.noteHeapKey(ks.Key, ks.Sort)
			now := env.st.heapArr(ks.Key, ks.Sort)
			was := env.old.heapArr(ks.Key, ks.Sort)
			cs = append(cs, Forall([]Term{r}, Implies(And(Lt(IntLit(0), r), Lt(r, env.old.nextRefTerm()), Neq(r, sv.Arr)),
				Eq(Select(now, r), Select(was, r)))))
		}
		return And(cs...)
	case "other_maps_unchanged":
		// other_maps_unchanged(m): every map of m's type that existed at function
		// entry, other than m itself, has the entries it had at entry
		need(1)
		mv, ok := e.evalSpec(env, args[0]).(MapV)
		if !ok || env.old == nil {
			sfail("other_maps_unchanged needs a map (and an entry state)")
		}
		r := T("r!om", SInt)
		var cs []Term
		kss := append([]KeySort{e.mapDomKS(mv.T), e.mapLenKS(mv.T)}, e.mapValKS(mv.T)...)
		for _, ks := range kss {
			e.noteHeapKey(ks.Key, ks.Sort)
			now := env.st.heapArr(ks.Key, ks.Sort)
			was := env.old.heapArr(ks.Key, ks.Sort)
			cs = append(cs, Forall([]Term{r}, Implies(And(Lt(IntLit(0), r), Lt(r, env.old.nextRefTerm()), Neq(r, mv.Ref)),
				Eq(Select(now, r), Select(was, r)))))
		}
		return And(cs...)
	case "arrof":
		// arrof(s): the identity of the backing array of a slice
		need(1)
		sv, ok := e.evalSpec(env, args[0]).(SliceV)
		if !ok {
			sfail("arrof needs a slice")
		}
		return sv.Arr
	case "allocated":
		need(1)
		r := e.refOf(e.evalSpec(env, args[0]))
		base := env.st.nextRefTerm()
		if env.old != nil {
			base = env.old.nextRefTerm()
		}
		return And(Lt(IntLit(0), r), Lt(r, base))
	case "valid":
		// valid(x): x refers to an object allocated so far (or is nil)
		need(1)
		r := e.refOf(e.evalSpec(env, args[0]))
		return And(Le(IntLit(0), r), Lt(r, env.st.nextRefTerm()))
	case "ref":
		need(1)
		return e.refOf(e.evalSpec(env, args[0]))
	case "typeof":
		need(1)
		iv, ok := e.evalSpec(env, args[0]).(IfaceV)
		if !ok {
			sfail("typeof needs an interface value")
		}
		return iv.Tag
	case "tag":
		need(1)
		tv, ok := e.evalSpec(env, args[0]).(TypeV)
		if !ok {
			sfail("tag needs a type")
		}
		return e.typeTag(tv.T)
	case "is":
		need(2)
		iv, ok := e.evalSpec(env, args[0]).(IfaceV)
		tv, ok2 := e.evalSpec(env, args[1]).(TypeV)
		if !ok || !ok2 {
			sfail("is(x, T) needs an interface value and a type")
		}
		return Eq(iv.Tag, e.typeTag(tv.T))
	case "dyn":
		need(2)
		iv, ok := e.evalSpec(env, args[0]).(IfaceV)
		tv, ok2 := e.evalSpec(env, args[1]).(TypeV)
		if !ok || !ok2 {
			sfail("dyn(x, T) needs an interface value and a type")
		}
		return wrapTyped(e.unbox(env.st, iv, tv.T), tv.T)
	case "iface":
		// iface(T, v): the interface value holding pointer/map v with dynamic type T
		need(2)
		tv, ok := e.evalSpec(env, args[0]).(TypeV)
		if !ok {
			sfail("iface(T, v) needs a type")
		}
		return IfaceV{Tag: e.typeTag(tv.T), Pay: e.refOf(e.evalSpec(env, args[1]))}
	case "ev":
		if len(args) < 1 {
			sfail("ev needs a method reference")
		}
		mr, ok := e.evalSpec(env, args[0]).(MethodRef)
		if !ok {
			sfail("ev: first argument must be Interface.Method")
		}
		var flat []Term
		for _, a := range args[1:] {
			flat = append(flat, e.flat(e.evalSpec(env, a))...)
		}
		return e.eventTerm(e.methodKey(mr), flat)
	case "pcall":
		if len(args) < 2 {
			sfail("pcall(Iface.Method, recv, args...)")
		}
		mr, ok := e.evalSpec(env, args[0]).(MethodRef)
		if !ok {
			sfail("pcall: first argument must be Interface.Method")
		}
		recv, ok := e.evalSpec(env, args[1]).(IfaceV)
		if !ok {
			sfail("pcall: receiver must be an interface value")
		}
		var av []Value
		for _, a := range args[2:] {
			av = append(av, e.evalSpec(env, a))
		}
		mf := e.methodFunc(mr)
		return e.pureMethodResult(env.st, mf, recv, av)
	case "timeSub":
		need(2)
		f := e.ctx.Func("Time.Sub", []*Sort{SInt, SInt}, SInt)
		return T("("+f+" "+e.evalSpecTerm(env, args[0]).S+" "+e.evalSpecTerm(env, args[1]).S+")", SInt)
	case "iface2":
		need(2)
		return IfaceV{Tag: e.evalSpecTerm(env, args[0]), Pay: e.evalSpecTerm(env, args[1])}
	case "runestr":
		need(1)
		f := e.ctx.Func("rune2str", []*Sort{SInt}, SStr)
		return T("("+f+" "+e.evalSpecTerm(env, args[0]).S+")", SStr)
	case "deref":
		need(1)
		p, ok := e.evalSpec(env, args[0]).(PtrV)
		if !ok {
			sfail("deref needs a pointer")
		}
		return wrapTyped(e.load(env.st, p, p.Elem), p.Elem)
	case "nilslice":
		z := IntLit(0)
		return SliceV{Arr: z, Off: z, Len: z, Cap: z}
	case "itoa":
		need(1)
		f := e.ctx.Func("strconv.Itoa", []*Sort{SInt}, SStr)
		return T("("+f+" "+e.evalSpecTerm(env, args[0]).S+")", SStr)
	case "durationString":
		need(1)
		f := e.ctx.Func("Duration.String", []*Sort{SInt}, SStr)
		return T("("+f+" "+e.evalSpecTerm(env, args[0]).S+")", SStr)
	case "f2i":
		// f2i(T, x): Go conversion T(x) of a float to integer type T
		need(2)
		tv, ok := e.evalSpec(env, args[0]).(TypeV)
		if !ok {
			sfail("f2i(T, x) needs a type")
		}
		f := e.ctx.Func("f2i:"+shortType(tv.T), []*Sort{SF64}, SInt)
		return T("("+f+" "+e.evalSpecTerm(env, args[1]).S+")", SInt)
	case "typed":
		need(2)
		tv, ok := e.evalSpec(env, args[0]).(TypeV)
		if !ok {
			sfail("typed(T, v) needs a type")
		}
		return TypedV{tv.T, e.evalSpec(env, args[1])}
	case "sprintf":
		// the same uninterpreted function the executor uses for fmt.Sprintf
		if len(args) < 1 {
			sfail("sprintf(format, args...)")
		}
		flat := []Term{e.evalSpecTerm(env, args[0])}
		for _, a := range args[1:] {
			v := e.evalSpec(env, a)
			var t types.Type
			if tv, ok := v.(TypedV); ok {
				t, v = tv.T, tv.V
			} else if tm, ok := v.(Term); ok {
				switch tm.Sort.K {
				case KStr:
					t = types.Typ[types.String]
				case KF64:
					t = types.Typ[types.Float64]
				case KBool:
					t = types.Typ[types.Bool]
				default:
					sfail("sprintf: integer argument needs typed(T, v)")
				}
			} else {
				sfail("sprintf: unsupported argument")
			}
			flat = append(flat, e.typeTag(t))
			flat = append(flat, e.flat(v)...)
		}
		var sorts []*Sort
		var sk []string
		for _, t := range flat {
			sorts = append(sorts, t.Sort)
			sk = append(sk, t.Sort.String())
		}
		f := e.ctx.Func("fmt.Sprintf/"+strings.Join(sk, ","), sorts, SStr)
		var sb strings.Builder
		sb.WriteString("(" + f)
		for _, t := range flat {
			sb.WriteString(" " + t.S)
		}
		sb.WriteString(")")
		return T(sb.String(), SStr)
	case "ires":
		// ires(i): interface-typed result of the recorded call at trace index i
		need(1)
		i := e.evalSpecTerm(env, args[0])
		return IfaceV{Tag: Select(env.st.callsR[0], i), Pay: Select(env.st.callsR[1], i)}
	case "res0", "res1", "res2":
		need(1)
		i := e.evalSpecTerm(env, args[0])
		return Select(env.st.callsR[int(name[3]-'0')], i)
	case "samekind":
		// samekind(a, b): two trace events are calls of the same method / the same
		// engine-defined event (whatever their arguments)
		need(2)
		a, b := e.evalSpecTerm(env, args[0]), e.evalSpecTerm(env, args[1])
		kind := e.ctx.Func("evkind", []*Sort{SEvent}, SInt)
		return Eq(T("("+kind+" "+a.S+")", SInt), T("("+kind+" "+b.S+")", SInt))
	case "evn":
		// evn("name", args...): engine-defined events (chan.close, go:..., conn.Write)
		if len(args) < 1 || args[0].Op != "str" {
			sfail("evn needs a literal name")
		}
		nm := strings.Trim(args[0].Name, "\"")
		var flat []Term
		for _, a := range args[1:] {
			flat = append(flat, e.flat(e.evalSpec(env, a))...)
		}
		return e.eventTerm(nm, flat)
	case "valsof":
		// valsof(m): the value function of a map with scalar values, as an amap
		need(1)
		mv, ok := e.evalSpec(env, args[0]).(MapV)
		if !ok {
			sfail("valsof needs a map")
		}
		vks := e.mapValKS(mv.T)
		if len(vks) != 1 {
			sfail("valsof: map values must be scalars")
		}
		e.noteHeapKey(vks[0].Key, vks[0].Sort)
		return Select(env.st.heapArr(vks[0].Key, vks[0].Sort), mv.Ref)
	case "elemset":
		// elemset(s): the set of elements of a slice with scalar elements, as a
		// value: elems(contents, off, len).  Membership is axiomatised with an
		// explicit position witness (no quantifier alternation):
		//   0 <= p < n                 ==>  elems(a,o,n)[a[ix(o,p)]]
		//   elems(a,o,n)[x]            ==>  0 <= pos(a,o,n,x) < n  &&  a[ix(o,pos(a,o,n,x))] == x
		need(1)
		sv, ok := e.evalSpec(env, args[0]).(SliceV)
		if !ok {
			sfail("elemset needs a slice")
		}
		es, ok := e.scalarSort(sv.Elem)
		if !ok {
			sfail("elemset: scalar element type expected")
		}
		key := typeKey(arrRootT(sv.Elem)) + "[]"
		hs := arrSortFor(1, es)
		e.noteHeapKey(key, hs)
		inner := ArrSort(SInt, es)
		setS := ArrSort(es, SBool)
		tag := es.String()
		f := e.ctx.Func("elems:"+tag, []*Sort{inner, SInt, SInt}, setS)
		pf := e.ctx.Func("elempos:"+tag, []*Sort{inner, SInt, SInt, es}, SInt)
		a, o, n, pp, x := T("a!es", inner), T("o!es", SInt), T("n!es", SInt), T("p!es", SInt), T("x!es", es)
		ap := T("("+f+" a!es o!es n!es)", setS)
		el := Select(a, T("(ix o!es p!es)", SInt))
		e.ctx.Axiom("elems:in:"+tag, []string{"elems:" + tag}, ForallPat([]Term{a, o, n, pp}, [][]Term{{ap, el}},
			Implies(And(Le(IntLit(0), pp), Lt(pp, n)), Select(ap, el))))
		pos := T("("+pf+" a!es o!es n!es x!es)", SInt)
		e.ctx.Axiom("elems:pos:"+tag, []string{"elems:" + tag}, ForallPat([]Term{a, o, n, x}, [][]Term{{Select(ap, x)}},
			Implies(Select(ap, x), And(Le(IntLit(0), pos), Lt(pos, n), Eq(Select(a, T("(ix o!es "+pos.S+")", SInt)), x)))))
		return T("("+f+" "+Select(env.st.heapArr(key, hs), sv.Arr).S+" "+sv.Off.S+" "+sv.Len.S+")", setS)
	case "seenset":
		// seenset(): the set of keys the map iterator of the current loop has yielded
		if env.st == nil {
			sfail("seenset outside of a loop invariant")
		}
		ss, ok := e.currentSeen(env)
		if !ok {
			sfail("seenset: no map iterator in scope")
		}
		return ss
	case "seteq":
		// seteq(a, b): the two sets have the same members (pointwise, with
		// membership terms as triggers; no reliance on array extensionality)
		need(2)
		a, b := e.evalSpecTerm(env, args[0]), e.evalSpecTerm(env, args[1])
		if a.Sort.K != KArray || !a.Sort.Eq(b.Sort) {
			sfail("seteq needs two sets of the same type")
		}
		*env.qn++
		x := T(fmt.Sprintf("x!se%d", *env.qn), a.Sort.Key)
		// smark(s) is true for every s; the two conjuncts make the set terms
		// ground terms of the query (triggers of the membership axioms)
		mk := e.ctx.Func("smark:"+a.Sort.String(), []*Sort{a.Sort}, SBool)
		sv := T("s!sm", a.Sort)
		e.ctx.Axiom("smark:"+a.Sort.String(), []string{"smark:" + a.Sort.String()}, ForallPat([]Term{sv}, [][]Term{{T("("+mk+" s!sm)", SBool)}}, T("("+mk+" s!sm)", SBool)))
		return And(T("("+mk+" "+a.S+")", SBool), T("("+mk+" "+b.S+")", SBool),
			ForallPat([]Term{x}, [][]Term{{Select(a, x)}, {Select(b, x)}}, Iff(Select(a, x), Select(b, x))))
	case "intset":
		// intset(): the empty set of integers (object identities)
		return ConstArray(ArrSort(SInt, SBool), TFalse)
	case "setadd", "setdel":
		// setadd(s, x) / setdel(s, x)
		need(2)
		a, x := e.evalSpecTerm(env, args[0]), e.evalSpecTerm(env, args[1])
		if a.Sort.K != KArray || a.Sort.Val.K != KBool {
			sfail("%s needs a set", name)
		}
		return Store(a, x, BoolLit(name == "setadd"))
	case "emptyset":
		// emptyset(s): the empty set of the same type as the set s
		need(1)
		a := e.evalSpecTerm(env, args[0])
		if a.Sort.K != KArray || a.Sort.Val.K != KBool {
			sfail("emptyset needs a set")
		}
		return ConstArray(a.Sort, TFalse)
	case "setif":
		// setif(c, s): s if c holds, the empty set otherwise (an uninterpreted
		// function defined pointwise, so that no ite appears inside patterns)
		need(2)
		c, a := e.evalSpecBool(env, args[0]), e.evalSpecTerm(env, args[1])
		if a.Sort.K != KArray || a.Sort.Val.K != KBool {
			sfail("setif(c, s) needs a set")
		}
		f := e.ctx.Func("setif:"+a.Sort.String(), []*Sort{SBool, a.Sort}, a.Sort)
		cc, x, k := T("c!si", SBool), T("x!si", a.Sort), T("k!si", a.Sort.Key)
		ap := T("("+f+" "+cc.S+" "+x.S+")", a.Sort)
		e.ctx.Axiom("setif:"+a.Sort.String(), []string{"setif:" + a.Sort.String()}, ForallPat([]Term{cc, x, k}, [][]Term{{Select(ap, k)}}, Eq(Select(ap, k), And(cc, Select(x, k)))))
		return T("("+f+" "+c.S+" "+a.S+")", a.Sort)
	case "sunion":
		// sunion(a, b): set union (uninterpreted, defined pointwise by an axiom)
		need(2)
		a, b := e.evalSpecTerm(env, args[0]), e.evalSpecTerm(env, args[1])
		if a.Sort.K != KArray || !a.Sort.Eq(b.Sort) {
			sfail("sunion needs two sets of the same type")
		}
		f := e.ctx.Func("sunion:"+a.Sort.String(), []*Sort{a.Sort, a.Sort}, a.Sort)
		x, y, k := T("x!su", a.Sort), T("y!su", a.Sort), T("k!su", a.Sort.Key)
		ap := T("("+f+" "+x.S+" "+y.S+")", a.Sort)
		e.ctx.Axiom("sunion:"+a.Sort.String(), []string{"sunion:" + a.Sort.String()}, ForallPat([]Term{x, y, k}, [][]Term{{Select(ap, k)}}, Eq(Select(ap, k), Or(Select(x, k), Select(y, k)))))
		return T("("+f+" "+a.S+" "+b.S+")", a.Sort)
	case "override":
		// override(v0, d1, v1): the function that is v1 on d1 and v0 elsewhere
		need(3)
		v0, d1, v1 := e.evalSpecTerm(env, args[0]), e.evalSpecTerm(env, args[1]), e.evalSpecTerm(env, args[2])
		if v0.Sort.K != KArray || !v0.Sort.Eq(v1.Sort) || d1.Sort.K != KArray {
			sfail("override(v0, d1, v1): v0, v1 functions of the same type, d1 a set")
		}
		f := e.ctx.Func("override:"+v0.Sort.String(), []*Sort{v0.Sort, d1.Sort, v0.Sort}, v0.Sort)
		x, d, y, k := T("x!ov", v0.Sort), T("d!ov", d1.Sort), T("y!ov", v0.Sort), T("k!ov", v0.Sort.Key)
		ap := T("("+f+" "+x.S+" "+d.S+" "+y.S+")", v0.Sort)
		e.ctx.Axiom("override:"+v0.Sort.String(), []string{"override:" + v0.Sort.String()}, ForallPat([]Term{x, d, y, k}, [][]Term{{Select(ap, k)}}, Eq(Select(ap, k), Ite(Select(d, k), Select(y, k), Select(x, k)))))
		return T("("+f+" "+v0.S+" "+d1.S+" "+v1.S+")", v0.Sort)
	case "restrict":
		// restrict(d, v): v on d and the zero value elsewhere (a canonical form:
		// two maps with the same entries have the same restrict(domof, valsof))
		need(2)
		d, v := e.evalSpecTerm(env, args[0]), e.evalSpecTerm(env, args[1])
		if d.Sort.K != KArray || v.Sort.K != KArray {
			sfail("restrict(d, v): d a set, v a function")
		}
		f := e.ctx.Func("restrict:"+v.Sort.String(), []*Sort{d.Sort, v.Sort}, v.Sort)
		dd, x, k := T("d!rs", d.Sort), T("x!rs", v.Sort), T("k!rs", v.Sort.Key)
		ap := T("("+f+" "+dd.S+" "+x.S+")", v.Sort)
		e.ctx.Axiom("restrict:"+v.Sort.String(), []string{"restrict:" + v.Sort.String()}, ForallPat([]Term{dd, x, k}, [][]Term{{Select(ap, k)}}, Eq(Select(ap, k), Ite(Select(dd, k), Select(x, k), ZeroOf(v.Sort.Val)))))
		return T("("+f+" "+d.S+" "+v.S+")", v.Sort)
	case "dom":
		need(1)
		mv, ok := e.evalSpec(env, args[0]).(MapV)
		if !ok {
			sfail("dom needs a map")
		}
		return e.mapDom(env.st, mv.T, mv.Ref)
	case "f64":
		need(1)
		v := e.evalSpecTerm(env, args[0])
		if v.Sort.K == KF64 {
			return v
		}
		return i2fTerm(v)
	case "bits":
		need(1)
		return e.f64bits(env.st, e.evalSpecTerm(env, args[0]))
	case "frombits":
		need(1)
		return e.f64frombits(env.st, e.evalSpecTerm(env, args[0]))
	case "str":
		need(1)
		switch v := e.evalSpec(env, args[0]).(type) {
		case SliceV:
			return e.bytesToStr(env.st, v)
		case Term:
			return v
		}
		sfail("str of unsupported value")
	case "ranged":
		// ranged(): the slice that the current loop ranges over (an unnamed temporary
		// such as a call result); ranged(n) for loop n
		if e.cur == nil {
			sfail("ranged outside of a function under verification")
		}
		ln := -1
		if len(args) == 1 {
			n, ok := isIntLit(e.evalSpecTerm(env, args[0]))
			if !ok {
				sfail("ranged(n) needs a literal loop ordinal")
			}
			ln = int(n)
		} else if lv, ok := env.vars["$loop"]; ok {
			n, _ := isIntLit(lv.(Term))
			ln = int(n)
		}
		for _, li := range e.cur.loops {
			if li.ordinal != ln {
				continue
			}
			for _, ins := range li.head.Instrs {
				bo, ok := ins.(*ssa.BinOp)
				if !ok || bo.Op != token.LSS {
					continue
				}
				c, ok := bo.Y.(*ssa.Call)
				if !ok {
					continue
				}
				if b, ok := c.Call.Value.(*ssa.Builtin); ok && b.Name() == "len" && len(c.Call.Args) == 1 {
					if v, ok := env.st.env[c.Call.Args[0]]; ok {
						return wrapTyped(v, c.Call.Args[0].Type())
					}
				}
			}
		}
		sfail("ranged: loop %d does not range over a slice value", ln)
	case "acq":
		// acq(e): e evaluated in the state right after the most recent lock
		// acquisition of this function (the snapshot the lock guarantees refer to)
		need(1)
		snap, ok := env.st.labels["acq:last"]
		if !ok {
			sfail("acq(e): no lock has been acquired on this path")
		}
		n := *env
		view := *snap
		sink := env.st
		for sink.assumeTo != nil {
			sink = sink.assumeTo
		}
		view.assumeTo = sink
		n.st = &view
		return e.evalSpec(&n, args[0])
	case "unchanged":
		need(1)
		return e.specEq(env, e.evalSpec(env, args[0]), e.evalSpec(env.inOld(), args[0]))
	case "max", "min":
		need(2)
		a, b := e.evalSpecTerm(env, args[0]), e.evalSpecTerm(env, args[1])
		if name == "max" {
			return Ite(Ge(a, b), a, b)
		}
		return Ite(Le(a, b), a, b)
	case "wrap64", "wrap32", "wrapu64", "wrapu32", "wrap16", "wrap8", "wrapu8", "wrapu16":
		need(1)
		return T("("+name+" "+e.evalSpecTerm(env, args[0]).S+")", SInt)
	case "seen":
		need(1)
		if env.st == nil {
			sfail("seen outside of a loop invariant")
		}
		k := e.evalSpecTerm(env, args[0])
		s, ok := e.currentSeen(env)
		if !ok {
			sfail("seen(k): no map iterator in scope")
		}
		return Select(s, k)
	case "seencount":
		// number of keys the map iterator of loop n (default: the current loop) has yielded
		if env.st == nil {
			sfail("seencount outside of a loop invariant")
		}
		ln := -1
		if len(args) == 1 {
			n, ok := isIntLit(e.evalSpecTerm(env, args[0]))
			if !ok {
				sfail("seencount(n) needs a literal loop ordinal")
			}
			ln = int(n)
		} else if lv, ok := env.vars["$loop"]; ok {
			n, _ := isIntLit(lv.(Term))
			ln = int(n)
		}
		c, ok := e.iterCountOfLoop(env, ln)
		if !ok {
			sfail("seencount: no map iterator in scope")
		}
		return c
	case "seenOf":
		need(2)
		n, ok := isIntLit(e.evalSpecTerm(env, args[0]))
		if !ok {
			sfail("seenOf(n, k) needs a literal loop ordinal")
		}
		k := e.evalSpecTerm(env, args[1])
		s, ok := e.seenOfLoop(env, int(n))
		if !ok {
			sfail("seenOf: loop %d has no map iterator", n)
		}
		return Select(s, k)
	case "runeAt", "runeOff":
		need(2)
		f := e.ctx.Func(name, []*Sort{SStr, SInt}, SInt)
		return T("("+f+" "+e.evalSpecTerm(env, args[0]).S+" "+e.evalSpecTerm(env, args[1]).S+")", SInt)
	case "runeCount":
		need(1)
		f := e.ctx.Func(name, []*Sort{SStr}, SInt)
		return T("("+f+" "+e.evalSpecTerm(env, args[0]).S+")", SInt)
	case "runesDone":
		// number of runes consumed by the string range loop n
		need(1)
		n, _ := isIntLit(e.evalSpecTerm(env, args[0]))
		if v, ok := e.strCountOfLoop(env, int(n)); ok {
			return v
		}
		sfail("runesDone: loop %d is not a string range loop", n)
	case "sub":
		need(3)
		return e.ssub(env.st, e.evalSpecTerm(env, args[0]), e.evalSpecTerm(env, args[1]), e.evalSpecTerm(env, args[2]))
	case "held":
		need(2)
		return e.specHeld(env, args)
	case "closed":
		need(1)
		ch := e.evalSpecTerm(env, args[0])
		return e.chanGet(env.st, ch, "closed")
	case "implements":
		need(2)
		iv, ok := e.evalSpec(env, args[0]).(IfaceV)
		tv, ok2 := e.evalSpec(env, args[1]).(TypeV)
		if !ok || !ok2 {
			sfail("implements(x, I)")
		}
		return And(Neq(iv.Tag, IntLit(0)), e.implementsTerm(iv.Tag, tv.T))
	}
	// predicates
	if ps := e.specOf(env.pkg); ps != nil {
		if pr, ok := ps.Preds[name]; ok {
			if len(args) != len(pr.Params) {
				sfail("pred %s expects %d arguments", name, len(pr.Params))
			}
			if env.depth > 20 {
				sfail("pred recursion too deep in %s", name)
			}
			ne := *env
			ne.depth++
			ne.vars = map[string]Value{}
			for i, p := range pr.Params {
				ne.vars[p.Name] = e.evalSpec(env, args[i])
			}
			// keep quantified variables of the caller visible is not needed: body is closed
			ne.local = nil
			return e.evalSpec(&ne, pr.Body)
		}
		if pf, ok := ps.Pure[name]; ok {
			if len(args) != len(pf.Params) {
				sfail("pure func %s expects %d arguments", name, len(pf.Params))
			}
			var flat []Term
			var sorts []*Sort
			for _, a := range args {
				for _, t := range e.flat(e.evalSpec(env, a)) {
					flat = append(flat, t)
					sorts = append(sorts, t.Sort)
				}
			}
			rt := e.resolveType(env.pkg, pf.Result)
			rs, ok := e.scalarSort(rt)
			isPtr := false
			if !ok {
				if _, isPtr = rt.Underlying().(*types.Pointer); isPtr {
					rs = SInt
				} else {
					sfail("pure func %s: unsupported result type %s", name, pf.Result)
				}
			}
			f := e.ctx.Func("pure:"+env.pkg.Path()+"."+name, sorts, rs)
			var sb strings.Builder
			sb.WriteString("(" + f)
			for _, t := range flat {
				sb.WriteString(" " + t.S)
			}
			sb.WriteString(")")
			if len(flat) == 0 {
				sb.Reset()
				sb.WriteString(f)
			}
			r := T(sb.String(), rs)
			if isPtr {
				pt := rt.Underlying().(*types.Pointer)
				return PtrV{Ref: r, RootT: pt.Elem(), Elem: pt.Elem()}
			}
			return wrapTyped(r, rt)
		}
	}
	// type conversion T(x) for named scalar types
	if tv, ok := e.tryType(env, fnx); ok && len(args) == 1 {
		v := e.evalSpec(env, args[0])
		if t, ok := v.(Term); ok {
			if isFloat(tv.T) && t.Sort.K == KInt {
				return i2fTerm(t)
			}
			return t
		}
		return v
	}
	sfail("unknown specification function %s", fnx)
	return nil
}

// TypedV: a value with an explicit Go type (spec evaluation only)
type TypedV struct {
	T types.Type
	V Value
}

func (e *Engine) tryType(env *SpecEnv, x *SExpr) (tv TypeV, ok bool) {
	defer func() {
		if r := recover(); r != nil {
			if _, is := r.(specErr); is {
				ok = false
				return
			}
			panic(r)
		}
	}()
	v := e.evalSpec(env, x)
	tv, ok = v.(TypeV)
	return
}

func (e *Engine) refOf(v Value) Term {
	switch x := v.(type) {
	case PtrV:
		if x.Cell == 0 && x.Global == nil && len(x.Path) == 0 {
			return x.Ref
		}
	case MapV:
		return x.Ref
	case SliceV:
		return x.Arr
	case IfaceV:
		return x.Pay
	case Term:
		if x.Sort.K == KInt {
			return x
		}
	}
	sfail("value %T has no reference", v)
	return Term{}
}

// flat flattens a value into terms (event arguments, pure function arguments).
func (e *Engine) flat(v Value) []Term {
	switch x := v.(type) {
	case nil:
		return nil
	case Term:
		return []Term{x}
	case MapV:
		return []Term{x.Ref}
	case PtrV:
		if x.Cell == 0 && x.Global == nil && len(x.Path) == 0 {
			return []Term{x.Ref}
		}
		panic(unsupported("interior pointer as event/pure argument"))
	case SliceV:
		return []Term{x.Arr, x.Off, x.Len}
	case IfaceV:
		return []Term{x.Tag, x.Pay}
	case StructV:
		var out []Term
		for _, f := range x.F {
			out = append(out, e.flat(f)...)
		}
		return out
	case TupleV:
		var out []Term
		for _, f := range x {
			out = append(out, e.flat(f)...)
		}
		return out
	case OpaqueFn:
		return []Term{x.ID}
	case ClosureV:
		return []Term{e.ctx.Const("fnid:"+x.Fn.String(), SInt)}
	case NilV:
		return []Term{IntLit(0)}
	case ArrayV:
		var out []Term
		for _, f := range x.E {
			out = append(out, e.flat(f)...)
		}
		return out
	}
	panic(unsupported(fmt.Sprintf("flatten %T", v)))
}

func (e *Engine) methodFunc(mr MethodRef) *types.Func {
	ms := types.NewMethodSet(mr.T)
	for i := 0; i < ms.Len(); i++ {
		if ms.At(i).Obj().Name() == mr.Name {
			return ms.At(i).Obj().(*types.Func)
		}
	}
	sfail("type %s has no method %s", mr.T, mr.Name)
	return nil
}

func (e *Engine) methodKey(mr MethodRef) string {
	ms := types.NewMethodSet(mr.T)
	for i := 0; i < ms.Len(); i++ {
		if ms.At(i).Obj().Name() == mr.Name {
			return ms.At(i).Obj().(*types.Func).FullName()
		}
	}
	if it, ok := mr.T.Underlying().(*types.Interface); ok {
		for i := 0; i < it.NumMethods(); i++ {
			if it.Method(i).Name() == mr.Name {
				return it.Method(i).FullName()
			}
		}
	}
	sfail("type %s has no method %s", mr.T, mr.Name)
	return ""
}

// eventTerm builds the event constructor application.
func (e *Engine) eventTerm(key string, args []Term) Term {
	var sorts []*Sort
	for _, a := range args {
		sorts = append(sorts, a.Sort)
	}
	var sk []string
	for _, s := range sorts {
		sk = append(sk, s.String())
	}
	fname := "ev:" + key + "/" + strings.Join(sk, ",")
	f := e.ctx.Func(fname, sorts, SEvent)
	// events of different kinds are different events
	if _, ok := e.evKinds[fname]; !ok {
		id := len(e.evKinds) + 1
		e.evKinds[fname] = id
		kind := e.ctx.Func("evkind", []*Sort{SEvent}, SInt)
		if len(sorts) == 0 {
			e.ctx.Axiom("evkind:"+fname, []string{fname}, Eq(T("("+kind+" "+f+")", SInt), IntLit(int64(id))))
		} else {
			var vars []Term
			var sb strings.Builder
			sb.WriteString("(" + f)
			for i, so := range sorts {
				v := T(fmt.Sprintf("a%d!k", i), so)
				vars = append(vars, v)
				sb.WriteString(" " + v.S)
			}
			sb.WriteString(")")
			app := T(sb.String(), SEvent)
			e.ctx.Axiom("evkind:"+fname, []string{fname}, ForallPat(vars, [][]Term{{app}}, Eq(T("("+kind+" "+app.S+")", SInt), IntLit(int64(id)))))
		}
	}
	if len(args) == 0 {
		return T(f, SEvent)
	}
	var sb strings.Builder
	sb.WriteString("(" + f)
	for _, a := range args {
		sb.WriteString(" " + a.S)
	}
	sb.WriteString(")")
	return T(sb.String(), SEvent)
}

// event appends an event to the ghost trace.
func (e *Engine) eventNamed(st *State, key string, args []Term) { e.eventRes(st, key, args, nil) }

// eventRes appends an event together with the (flattened) result of the call.
func (e *Engine) eventRes(st *State, key string, args []Term, res []Term) {
	ev := e.eventTerm(key, args)
	if len(res) > len(st.callsR) {
		panic(unsupported("recorded call with more than 3 result words: " + key))
	}
	allInt := true
	for _, r := range res {
		if r.Sort.K != KInt {
			allInt = false // results of other sorts (bool, string, float) are not recorded
		}
	}
	for i, r := range res {
		if allInt {
			st.callsR[i] = e.ctx.Define("callsR", Store(st.callsR[i], st.callsLen, r))
		}
	}
	st.calls = e.ctx.Define("calls", Store(st.calls, st.callsLen, ev))
	st.callsLen = e.ctx.Define("callsLen", Add(st.callsLen, IntLit(1)))
}

func (e *Engine) event(st *State, key string, args []Term) { e.eventNamed(st, key, args) }

func (e *Engine) f64bits(st *State, x Term) Term {
	f := e.ctx.Func("f64bits", []*Sort{SF64}, SInt)
	r := T("("+f+" "+x.S+")", SInt)
	st.assume(And(Le(IntLit(0), r), Le(r, T("18446744073709551615", SInt))))
	return r
}

func (e *Engine) f64frombits(st *State, x Term) Term {
	f := e.ctx.Func("f64frombits", []*Sort{SInt}, SF64)
	return T("("+f+" "+x.S+")", SF64)
}
