package main

import (
	"fmt"
	"go/types"
	"strings"
)

func (e *Engine) specCall(env *SpecEnv, x *SExpr) Value {
	fnx := x.Args[0]
	args := x.Args[1:]
	name := ""
	if fnx.Op == "ident" {
		name = fnx.Name
	}
	if fnx.Op == "sel" && fnx.Args[0].Op == "ident" {
		name = fnx.Args[0].Name + "." + fnx.Name
	}
	need := func(n int) {
		if len(args) != n {
			sfail("%s expects %d arguments", name, n)
		}
	}
	switch name {
	case "old":
		need(1)
		return e.evalSpec(env.inOld(), args[0])
	case "ifbound":
		// ifbound(expr): expr, or true when it mentions an identifier that does
		// not exist in this function (e.g. a variable a closure no longer captures)
		need(1)
		var out Value
		func() {
			defer func() {
				if r := recover(); r != nil {
					if se, ok := r.(specErr); ok && strings.HasPrefix(se.msg, "unknown identifier") {
						out = TTrue
						return
					}
					panic(r)
				}
			}()
			out = e.evalSpec(env, args[0])
		}()
		return out
	case "len":
		need(1)
		switch v := e.evalSpec(env, args[0]).(type) {
		case SliceV:
			return v.Len
		case MapV:
			return e.mapLen(env.st, v.T, v.Ref)
		case TraceV:
			return env.st.callsLen
		case Term:
			if v.Sort.K == KStr {
				e.strFacts(env.st, v)
				return slen(v)
			}
		case ArrayV:
			return IntLit(int64(len(v.E)))
		}
		sfail("len of unsupported value in %s", x)
	case "cap":
		need(1)
		if v, ok := e.evalSpec(env, args[0]).(SliceV); ok {
			return v.Cap
		}
		sfail("cap of non-slice")
	case "isNaN":
		need(1)
		return app(SBool, "f64.isNaN", e.evalSpecTerm(env, args[0]))
	case "isInf":
		v := e.evalSpecTerm(env, args[0])
		pos, neg := app(SBool, "f64.isPosInf", v), app(SBool, "f64.isNegInf", v)
		if len(args) == 2 {
			s := e.evalSpecTerm(env, args[1])
			n, ok := isIntLit(s)
			if !ok {
				if s.S == "(- 1)" {
					return neg
				}
				sfail("isInf sign must be a literal")
			}
			if n > 0 {
				return pos
			}
			if n == 0 {
				return Or(pos, neg)
			}
			return neg
		}
		return Or(pos, neg)
	case "same":
		need(2)
		a := e.evalSpec(env, args[0])
		b := e.evalSpec(env, args[1])
		fa, fb := e.flat(a), e.flat(b)
		if len(fa) != len(fb) {
			sfail("same: different shapes")
		}
		var cs []Term
		for i := range fa {
			cs = append(cs, Eq(fa[i], fb[i]))
		}
		return And(cs...)
	case "fresh":
		need(1)
		r := e.refOf(e.evalSpec(env, args[0]))
		base := env.st.nextRefTerm()
		if env.old != nil {
			base = env.old.nextRefTerm()
		}
		return And(Le(base, r), Lt(r, env.st.nextRefTerm()))
	case "allocated":
		need(1)
		r := e.refOf(e.evalSpec(env, args[0]))
		base := env.st.nextRefTerm()
		if env.old != nil {
			base = env.old.nextRefTerm()
		}
		return And(Lt(IntLit(0), r), Lt(r, base))
	case "valid":
		// valid(x): x refers to an object allocated so far (or is nil)
		need(1)
		r := e.refOf(e.evalSpec(env, args[0]))
		return And(Le(IntLit(0), r), Lt(r, env.st.nextRefTerm()))
	case "ref":
		need(1)
		return e.refOf(e.evalSpec(env, args[0]))
	case "typeof":
		need(1)
		iv, ok := e.evalSpec(env, args[0]).(IfaceV)
		if !ok {
			sfail("typeof needs an interface value")
		}
		return iv.Tag
	case "tag":
		need(1)
		tv, ok := e.evalSpec(env, args[0]).(TypeV)
		if !ok {
			sfail("tag needs a type")
		}
		return e.typeTag(tv.T)
	case "is":
		need(2)
		iv, ok := e.evalSpec(env, args[0]).(IfaceV)
		tv, ok2 := e.evalSpec(env, args[1]).(TypeV)
		if !ok || !ok2 {
			sfail("is(x, T) needs an interface value and a type")
		}
		return Eq(iv.Tag, e.typeTag(tv.T))
	case "dyn":
		need(2)
		iv, ok := e.evalSpec(env, args[0]).(IfaceV)
		tv, ok2 := e.evalSpec(env, args[1]).(TypeV)
		if !ok || !ok2 {
			sfail("dyn(x, T) needs an interface value and a type")
		}
		return wrapTyped(e.unbox(env.st, iv, tv.T), tv.T)
	case "iface":
		// iface(T, v): the interface value holding pointer/map v with dynamic type T
		need(2)
		tv, ok := e.evalSpec(env, args[0]).(TypeV)
		if !ok {
			sfail("iface(T, v) needs a type")
		}
		return IfaceV{Tag: e.typeTag(tv.T), Pay: e.refOf(e.evalSpec(env, args[1]))}
	case "ev":
		if len(args) < 1 {
			sfail("ev needs a method reference")
		}
		mr, ok := e.evalSpec(env, args[0]).(MethodRef)
		if !ok {
			sfail("ev: first argument must be Interface.Method")
		}
		var flat []Term
		for _, a := range args[1:] {
			flat = append(flat, e.flat(e.evalSpec(env, a))...)
		}
		return e.eventTerm(e.methodKey(mr), flat)
	case "pcall":
		if len(args) < 2 {
			sfail("pcall(Iface.Method, recv, args...)")
		}
		mr, ok := e.evalSpec(env, args[0]).(MethodRef)
		if !ok {
			sfail("pcall: first argument must be Interface.Method")
		}
		recv, ok := e.evalSpec(env, args[1]).(IfaceV)
		if !ok {
			sfail("pcall: receiver must be an interface value")
		}
		var av []Value
		for _, a := range args[2:] {
			av = append(av, e.evalSpec(env, a))
		}
		mf := e.methodFunc(mr)
		return e.pureMethodResult(env.st, mf, recv, av)
	case "timeSub":
		need(2)
		f := e.ctx.Func("Time.Sub", []*Sort{SInt, SInt}, SInt)
		return T("("+f+" "+e.evalSpecTerm(env, args[0]).S+" "+e.evalSpecTerm(env, args[1]).S+")", SInt)
	case "iface2":
		need(2)
		return IfaceV{Tag: e.evalSpecTerm(env, args[0]), Pay: e.evalSpecTerm(env, args[1])}
	case "runestr":
		need(1)
		f := e.ctx.Func("rune2str", []*Sort{SInt}, SStr)
		return T("("+f+" "+e.evalSpecTerm(env, args[0]).S+")", SStr)
	case "deref":
		need(1)
		p, ok := e.evalSpec(env, args[0]).(PtrV)
		if !ok {
			sfail("deref needs a pointer")
		}
		return wrapTyped(e.load(env.st, p, p.Elem), p.Elem)
	case "nilslice":
		z := IntLit(0)
		return SliceV{Arr: z, Off: z, Len: z, Cap: z}
	case "itoa":
		need(1)
		f := e.ctx.Func("strconv.Itoa", []*Sort{SInt}, SStr)
		return T("("+f+" "+e.evalSpecTerm(env, args[0]).S+")", SStr)
	case "durationString":
		need(1)
		f := e.ctx.Func("Duration.String", []*Sort{SInt}, SStr)
		return T("("+f+" "+e.evalSpecTerm(env, args[0]).S+")", SStr)
	case "f2i":
		// f2i(T, x): Go conversion T(x) of a float to integer type T
		need(2)
		tv, ok := e.evalSpec(env, args[0]).(TypeV)
		if !ok {
			sfail("f2i(T, x) needs a type")
		}
		f := e.ctx.Func("f2i:"+shortType(tv.T), []*Sort{SF64}, SInt)
		return T("("+f+" "+e.evalSpecTerm(env, args[1]).S+")", SInt)
	case "typed":
		need(2)
		tv, ok := e.evalSpec(env, args[0]).(TypeV)
		if !ok {
			sfail("typed(T, v) needs a type")
		}
		return TypedV{tv.T, e.evalSpec(env, args[1])}
	case "sprintf":
		// the same uninterpreted function the executor uses for fmt.Sprintf
		if len(args) < 1 {
			sfail("sprintf(format, args...)")
		}
		flat := []Term{e.evalSpecTerm(env, args[0])}
		for _, a := range args[1:] {
			v := e.evalSpec(env, a)
			var t types.Type
			if tv, ok := v.(TypedV); ok {
				t, v = tv.T, tv.V
			} else if tm, ok := v.(Term); ok {
				switch tm.Sort.K {
				case KStr:
					t = types.Typ[types.String]
				case KF64:
					t = types.Typ[types.Float64]
				case KBool:
					t = types.Typ[types.Bool]
				default:
					sfail("sprintf: integer argument needs typed(T, v)")
				}
			} else {
				sfail("sprintf: unsupported argument")
			}
			flat = append(flat, e.typeTag(t))
			flat = append(flat, e.flat(v)...)
		}
		var sorts []*Sort
		var sk []string
		for _, t := range flat {
			sorts = append(sorts, t.Sort)
			sk = append(sk, t.Sort.String())
		}
		f := e.ctx.Func("fmt.Sprintf/"+strings.Join(sk, ","), sorts, SStr)
		var sb strings.Builder
		sb.WriteString("(" + f)
		for _, t := range flat {
			sb.WriteString(" " + t.S)
		}
		sb.WriteString(")")
		return T(sb.String(), SStr)
	case "ires":
		// ires(i): interface-typed result of the recorded call at trace index i
		need(1)
		i := e.evalSpecTerm(env, args[0])
		return IfaceV{Tag: Select(env.st.callsR[0], i), Pay: Select(env.st.callsR[1], i)}
	case "res0", "res1", "res2":
		need(1)
		i := e.evalSpecTerm(env, args[0])
		return Select(env.st.callsR[int(name[3]-'0')], i)
	case "evn":
		// evn("name", args...): engine-defined events (chan.close, go:..., conn.Write)
		if len(args) < 1 || args[0].Op != "str" {
			sfail("evn needs a literal name")
		}
		nm := strings.Trim(args[0].Name, "\"")
		var flat []Term
		for _, a := range args[1:] {
			flat = append(flat, e.flat(e.evalSpec(env, a))...)
		}
		return e.eventTerm(nm, flat)
	case "dom":
		need(1)
		mv, ok := e.evalSpec(env, args[0]).(MapV)
		if !ok {
			sfail("dom needs a map")
		}
		return e.mapDom(env.st, mv.T, mv.Ref)
	case "f64":
		need(1)
		v := e.evalSpecTerm(env, args[0])
		if v.Sort.K == KF64 {
			return v
		}
		return i2fTerm(v)
	case "bits":
		need(1)
		return e.f64bits(env.st, e.evalSpecTerm(env, args[0]))
	case "frombits":
		need(1)
		return e.f64frombits(env.st, e.evalSpecTerm(env, args[0]))
	case "str":
		need(1)
		switch v := e.evalSpec(env, args[0]).(type) {
		case SliceV:
			return e.bytesToStr(env.st, v)
		case Term:
			return v
		}
		sfail("str of unsupported value")
	case "unchanged":
		need(1)
		return e.specEq(env, e.evalSpec(env, args[0]), e.evalSpec(env.inOld(), args[0]))
	case "max", "min":
		need(2)
		a, b := e.evalSpecTerm(env, args[0]), e.evalSpecTerm(env, args[1])
		if name == "max" {
			return Ite(Ge(a, b), a, b)
		}
		return Ite(Le(a, b), a, b)
	case "wrap64", "wrap32", "wrapu64", "wrapu32", "wrap16", "wrap8", "wrapu8", "wrapu16":
		need(1)
		return T("("+name+" "+e.evalSpecTerm(env, args[0]).S+")", SInt)
	case "seen":
		need(1)
		if env.st == nil {
			sfail("seen outside of a loop invariant")
		}
		k := e.evalSpecTerm(env, args[0])
		s, ok := e.currentSeen(env)
		if !ok {
			sfail("seen(k): no map iterator in scope")
		}
		return Select(s, k)
	case "seencount":
		// number of keys the map iterator of loop n (default: the current loop) has yielded
		if env.st == nil {
			sfail("seencount outside of a loop invariant")
		}
		ln := -1
		if len(args) == 1 {
			n, ok := isIntLit(e.evalSpecTerm(env, args[0]))
			if !ok {
				sfail("seencount(n) needs a literal loop ordinal")
			}
			ln = int(n)
		} else if lv, ok := env.vars["$loop"]; ok {
			n, _ := isIntLit(lv.(Term))
			ln = int(n)
		}
		c, ok := e.iterCountOfLoop(env, ln)
		if !ok {
			sfail("seencount: no map iterator in scope")
		}
		return c
	case "seenOf":
		need(2)
		n, ok := isIntLit(e.evalSpecTerm(env, args[0]))
		if !ok {
			sfail("seenOf(n, k) needs a literal loop ordinal")
		}
		k := e.evalSpecTerm(env, args[1])
		s, ok := e.seenOfLoop(env, int(n))
		if !ok {
			sfail("seenOf: loop %d has no map iterator", n)
		}
		return Select(s, k)
	case "runeAt", "runeOff":
		need(2)
		f := e.ctx.Func(name, []*Sort{SStr, SInt}, SInt)
		return T("("+f+" "+e.evalSpecTerm(env, args[0]).S+" "+e.evalSpecTerm(env, args[1]).S+")", SInt)
	case "runeCount":
		need(1)
		f := e.ctx.Func(name, []*Sort{SStr}, SInt)
		return T("("+f+" "+e.evalSpecTerm(env, args[0]).S+")", SInt)
	case "runesDone":
		// number of runes consumed by the string range loop n
		need(1)
		n, _ := isIntLit(e.evalSpecTerm(env, args[0]))
		if v, ok := e.strCountOfLoop(env, int(n)); ok {
			return v
		}
		sfail("runesDone: loop %d is not a string range loop", n)
	case "sub":
		need(3)
		return e.ssub(env.st, e.evalSpecTerm(env, args[0]), e.evalSpecTerm(env, args[1]), e.evalSpecTerm(env, args[2]))
	case "held":
		need(2)
		return e.specHeld(env, args)
	case "closed":
		need(1)
		ch := e.evalSpecTerm(env, args[0])
		return e.chanGet(env.st, ch, "closed")
	case "implements":
		need(2)
		iv, ok := e.evalSpec(env, args[0]).(IfaceV)
		tv, ok2 := e.evalSpec(env, args[1]).(TypeV)
		if !ok || !ok2 {
			sfail("implements(x, I)")
		}
		return And(Neq(iv.Tag, IntLit(0)), e.implementsTerm(iv.Tag, tv.T))
	}
	// predicates
	if ps := e.specOf(env.pkg); ps != nil {
		if pr, ok := ps.Preds[name]; ok {
			if len(args) != len(pr.Params) {
				sfail("pred %s expects %d arguments", name, len(pr.Params))
			}
			if env.depth > 20 {
				sfail("pred recursion too deep in %s", name)
			}
			ne := *env
			ne.depth++
			ne.vars = map[string]Value{}
			for i, p := range pr.Params {
				ne.vars[p.Name] = e.evalSpec(env, args[i])
			}
			// keep quantified variables of the caller visible is not needed: body is closed
			ne.local = nil
			return e.evalSpec(&ne, pr.Body)
		}
		if pf, ok := ps.Pure[name]; ok {
			if len(args) != len(pf.Params) {
				sfail("pure func %s expects %d arguments", name, len(pf.Params))
			}
			var flat []Term
			var sorts []*Sort
			for _, a := range args {
				for _, t := range e.flat(e.evalSpec(env, a)) {
					flat = append(flat, t)
					sorts = append(sorts, t.Sort)
				}
			}
			rt := e.resolveType(env.pkg, pf.Result)
			rs, ok := e.scalarSort(rt)
			isPtr := false
			if !ok {
				if _, isPtr = rt.Underlying().(*types.Pointer); isPtr {
					rs = SInt
				} else {
					sfail("pure func %s: unsupported result type %s", name, pf.Result)
				}
			}
			f := e.ctx.Func("pure:"+env.pkg.Path()+"."+name, sorts, rs)
			var sb strings.Builder
			sb.WriteString("(" + f)
			for _, t := range flat {
				sb.WriteString(" " + t.S)
			}
			sb.WriteString(")")
			if len(flat) == 0 {
				sb.Reset()
				sb.WriteString(f)
			}
			r := T(sb.String(), rs)
			if isPtr {
				pt := rt.Underlying().(*types.Pointer)
				return PtrV{Ref: r, RootT: pt.Elem(), Elem: pt.Elem()}
			}
			return wrapTyped(r, rt)
		}
	}
	// type conversion T(x) for named scalar types
	if tv, ok := e.tryType(env, fnx); ok && len(args) == 1 {
		v := e.evalSpec(env, args[0])
		if t, ok := v.(Term); ok {
			if isFloat(tv.T) && t.Sort.K == KInt {
				return i2fTerm(t)
			}
			return t
		}
		return v
	}
	sfail("unknown specification function %s", fnx)
	return nil
}

// TypedV: a value with an explicit Go type (spec evaluation only)
type TypedV struct {
	T types.Type
	V Value
}

func (e *Engine) tryType(env *SpecEnv, x *SExpr) (tv TypeV, ok bool) {
	defer func() {
		if r := recover(); r != nil {
			if _, is := r.(specErr); is {
				ok = false
				return
			}
			panic(r)
		}
	}()
	v := e.evalSpec(env, x)
	tv, ok = v.(TypeV)
	return
}

func (e *Engine) refOf(v Value) Term {
	switch x := v.(type) {
	case PtrV:
		if x.Cell == 0 && x.Global == nil && len(x.Path) == 0 {
			return x.Ref
		}
	case MapV:
		return x.Ref
	case SliceV:
		return x.Arr
	case IfaceV:
		return x.Pay
	case Term:
		if x.Sort.K == KInt {
			return x
		}
	}
	sfail("value %T has no reference", v)
	return Term{}
}

// flat flattens a value into terms (event arguments, pure function arguments).
func (e *Engine) flat(v Value) []Term {
	switch x := v.(type) {
	case nil:
		return nil
	case Term:
		return []Term{x}
	case MapV:
		return []Term{x.Ref}
	case PtrV:
		if x.Cell == 0 && x.Global == nil && len(x.Path) == 0 {
			return []Term{x.Ref}
		}
		panic(unsupported("interior pointer as event/pure argument"))
	case SliceV:
		return []Term{x.Arr, x.Off, x.Len}
	case IfaceV:
		return []Term{x.Tag, x.Pay}
	case StructV:
		var out []Term
		for _, f := range x.F {
			out = append(out, e.flat(f)...)
		}
		return out
	case TupleV:
		var out []Term
		for _, f := range x {
			out = append(out, e.flat(f)...)
		}
		return out
	case OpaqueFn:
		return []Term{x.ID}
	case ClosureV:
		return []Term{e.ctx.Const("fnid:"+x.Fn.String(), SInt)}
	case NilV:
		return []Term{IntLit(0)}
	case ArrayV:
		var out []Term
		for _, f := range x.E {
			out = append(out, e.flat(f)...)
		}
		return out
	}
	panic(unsupported(fmt.Sprintf("flatten %T", v)))
}

func (e *Engine) methodFunc(mr MethodRef) *types.Func {
	ms := types.NewMethodSet(mr.T)
	for i := 0; i < ms.Len(); i++ {
		if ms.At(i).Obj().Name() == mr.Name {
			return ms.At(i).Obj().(*types.Func)
		}
	}
	sfail("type %s has no method %s", mr.T, mr.Name)
	return nil
}

func (e *Engine) methodKey(mr MethodRef) string {
	ms := types.NewMethodSet(mr.T)
	for i := 0; i < ms.Len(); i++ {
		if ms.At(i).Obj().Name() == mr.Name {
			return ms.At(i).Obj().(*types.Func).FullName()
		}
	}
	if it, ok := mr.T.Underlying().(*types.Interface); ok {
		for i := 0; i < it.NumMethods(); i++ {
			if it.Method(i).Name() == mr.Name {
				return it.Method(i).FullName()
			}
		}
	}
	sfail("type %s has no method %s", mr.T, mr.Name)
	return ""
}

// eventTerm builds the event constructor application.
func (e *Engine) eventTerm(key string, args []Term) Term {
	var sorts []*Sort
	for _, a := range args {
		sorts = append(sorts, a.Sort)
	}
	var sk []string
	for _, s := range sorts {
		sk = append(sk, s.String())
	}
	fname := "ev:" + key + "/" + strings.Join(sk, ",")
	f := e.ctx.Func(fname, sorts, SEvent)
	// events of different kinds are different events
	if _, ok := e.evKinds[fname]; !ok {
		id := len(e.evKinds) + 1
		e.evKinds[fname] = id
		kind := e.ctx.Func("evkind", []*Sort{SEvent}, SInt)
		if len(sorts) == 0 {
			e.ctx.Axiom("evkind:"+fname, []string{fname}, Eq(T("("+kind+" "+f+")", SInt), IntLit(int64(id))))
		} else {
			var vars []Term
			var sb strings.Builder
			sb.WriteString("(" + f)
			for i, so := range sorts {
				v := T(fmt.Sprintf("a%d!k", i), so)
				vars = append(vars, v)
				sb.WriteString(" " + v.S)
			}
			sb.WriteString(")")
			app := T(sb.String(), SEvent)
			e.ctx.Axiom("evkind:"+fname, []string{fname}, ForallPat(vars, [][]Term{{app}}, Eq(T("("+kind+" "+app.S+")", SInt), IntLit(int64(id)))))
		}
	}
	if len(args) == 0 {
		return T(f, SEvent)
	}
	var sb strings.Builder
	sb.WriteString("(" + f)
	for _, a := range args {
		sb.WriteString(" " + a.S)
	}
	sb.WriteString(")")
	return T(sb.String(), SEvent)
}

// event appends an event to the ghost trace.
func (e *Engine) eventNamed(st *State, key string, args []Term) { e.eventRes(st, key, args, nil) }

// eventRes appends an event together with the (flattened) result of the call.
func (e *Engine) eventRes(st *State, key string, args []Term, res []Term) {
	ev := e.eventTerm(key, args)
	if len(res) > len(st.callsR) {
		panic(unsupported("recorded call with more than 3 result words: " + key))
	}
	for i, r := range res {
		if r.Sort.K != KInt {
			panic(unsupported("recorded call with a non-integer result word: " + key))
		}
		st.callsR[i] = e.ctx.Define("callsR", Store(st.callsR[i], st.callsLen, r))
	}
	st.calls = e.ctx.Define("calls", Store(st.calls, st.callsLen, ev))
	st.callsLen = e.ctx.Define("callsLen", Add(st.callsLen, IntLit(1)))
}

func (e *Engine) event(st *State, key string, args []Term) { e.eventNamed(st, key, args) }

func (e *Engine) f64bits(st *State, x Term) Term {
	f := e.ctx.Func("f64bits", []*Sort{SF64}, SInt)
	r := T("("+f+" "+x.S+")", SInt)
	st.assume(And(Le(IntLit(0), r), Le(r, T("18446744073709551615", SInt))))
	return r
}

func (e *Engine) f64frombits(st *State, x Term) Term {
	f := e.ctx.Func("f64frombits", []*Sort{SInt}, SF64)
	return T("("+f+" "+x.S+")", SF64)
}
