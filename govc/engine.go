package main

import (
	"fmt"
	"go/token"
	"go/types"
	"os"
	"sort"
	"strings"

	"golang.org/x/tools/go/packages"
	"golang.org/x/tools/go/ssa"
	"golang.org/x/tools/go/ssa/ssautil"
)

type Engine struct {
	ctx     *Ctx
	prog    *ssa.Program
	modPath string
	pkgs    []*packages.Package
	spkgs   map[string]*ssa.Package
	specs   map[string]*PkgSpec

	heapKeys       map[string]*Sort
	closures       map[string]ClosureV
	typeTags       map[string]int
	tagTypes       map[int]types.Type
	strLits        map[string]int
	typeCache      map[string]types.Type
	pkgFilePos     map[string][]token.Pos
	extraPkgs      map[string]*types.Package
	importAlias    map[string]map[string]*types.Package // package path -> import alias -> package
	allTypesPkgs   []*types.Package
	loopCache      map[*ssa.Function]map[*ssa.BasicBlock]*loopInfo
	ledgerLoopKeys map[string][]string // loop headers of the unchanged tree (from the ledger), by function
	srcCache       map[string][]byte
	globalInit     map[string]globalInitInfo

	obls    []*Obligation
	covers  []*Obligation
	trivial map[string]int
	cur     *verifyCtx
	cellN   int
	qn      int

	extraAssumptions map[string][]string
	extraCoverage    map[string]map[string]interface{}
	protoContract    map[*ssa.Function]*Contract
	engineObls       []*Obligation
	driverRuns       []DriverRun
	reassignCache    map[string]bool
	initOnlyKeys     map[string]bool
	monotoneKeys     map[string]bool
	initOnlyObls     []*Obligation
	havocGen         int
	evKinds          map[string]int
	loopAnyHavoc     bool
	trustedUsed      map[string]bool
	slessUsed        bool
	allFuncs         map[*ssa.Function]bool
}

func NewEngine(repo string, patterns []string) (*Engine, error) {
	cfg := &packages.Config{
		Mode:       packages.LoadAllSyntax | packages.NeedModule,
		Dir:        repo,
		BuildFlags: []string{"-tags=verif"},
		Env:        append(os.Environ(), "GOFLAGS=-mod=mod", "GOPROXY=off", "GOSUMDB=off", "GOTOOLCHAIN=local"),
	}
	pkgs, err := packages.Load(cfg, patterns...)
	if err != nil {
		return nil, err
	}
	var errs []string
	packages.Visit(pkgs, nil, func(p *packages.Package) {
		for _, e := range p.Errors {
			errs = append(errs, e.Error())
		}
	})
	if len(errs) > 0 {
		return nil, fmt.Errorf("package load errors:\n%s", strings.Join(errs, "\n"))
	}
	prog, _ := ssautil.AllPackages(pkgs, ssa.NaiveForm|ssa.InstantiateGenerics)
	prog.Build()
	e := &Engine{
		ctx: NewCtx(), prog: prog, pkgs: pkgs,
		spkgs: map[string]*ssa.Package{}, specs: map[string]*PkgSpec{},
		heapKeys: map[string]*Sort{}, closures: map[string]ClosureV{},
		typeTags: map[string]int{}, tagTypes: map[int]types.Type{}, strLits: map[string]int{},
		typeCache: map[string]types.Type{}, pkgFilePos: map[string][]token.Pos{}, extraPkgs: map[string]*types.Package{}, importAlias: map[string]map[string]*types.Package{},
		loopCache: map[*ssa.Function]map[*ssa.BasicBlock]*loopInfo{}, trivial: map[string]int{},
		extraAssumptions: map[string][]string{}, extraCoverage: map[string]map[string]interface{}{},
		protoContract: map[*ssa.Function]*Contract{}, reassignCache: map[string]bool{}, evKinds: map[string]int{},
		trustedUsed: map[string]bool{}, globalInit: map[string]globalInitInfo{},
	}
	for _, p := range pkgs {
		if p.Module != nil && e.modPath == "" {
			e.modPath = p.Module.Path
		}
	}
	var perr error
	packages.Visit(pkgs, nil, func(p *packages.Package) {
		sp := prog.Package(p.Types)
		if sp != nil {
			e.spkgs[p.PkgPath] = sp
		}
		e.allTypesPkgs = append(e.allTypesPkgs, p.Types)
		// import aliases used by the files of this package (m3thrift "…/thrift/v2")
		for _, f := range p.Syntax {
			for _, im := range f.Imports {
				if im.Name == nil || im.Name.Name == "_" || im.Name.Name == "." {
					continue
				}
				path := strings.Trim(im.Path.Value, "\"")
				if ip, ok := p.Imports[path]; ok && ip.Types != nil {
					if e.importAlias[p.PkgPath] == nil {
						e.importAlias[p.PkgPath] = map[string]*types.Package{}
					}
					e.importAlias[p.PkgPath][im.Name.Name] = ip.Types
				}
			}
		}
		if _, ok := e.extraPkgs[p.Types.Name()]; !ok {
			e.extraPkgs[p.Types.Name()] = p.Types
		}
		if !e.inModule(p.Types) {
			return
		}
		var lines []specLine
		for i, f := range p.Syntax {
			e.pkgFilePos[p.PkgPath] = append(e.pkgFilePos[p.PkgPath], f.End()-1)
			name := p.CompiledGoFiles[i]
			if strings.HasSuffix(name, "contracts_verif.go") {
				lines = append(lines, parseContractComments(f, name)...)
			}
		}
		if len(lines) > 0 {
			ps, err := parsePkgSpec(p.PkgPath, lines)
			if err != nil {
				perr = err
				return
			}
			e.specs[p.PkgPath] = ps
		}
	})
	if perr != nil {
		return nil, perr
	}
	e.allFuncs = ssautil.AllFunctions(prog)
	return e, nil
}

// findFunc locates the SSA function for a contract key.
func (e *Engine) findFunc(pkg, rel string) *ssa.Function {
	for fn := range e.allFuncs {
		p, r := e.relName(fn)
		if p == pkg && r == rel {
			return fn
		}
	}
	return nil
}

func sortedKeys(m map[string]bool) []string {
	var out []string
	for k := range m {
		out = append(out, k)
	}
	sort.Strings(out)
	return out
}
