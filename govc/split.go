package main

import "strings"

// Goal splitting: G is equivalent to the conjunction of splitGoal(G).
// (and a b ..) -> parts of a, b, ..; (=> p q) -> (=> p qi); (forall (vs) b) -> (forall (vs) bi).
// Used when the portfolio answers `unknown` on a large quantified goal: each
// part is a smaller query with the same hypotheses.  Sound in both directions,
// so a `sat` part refutes the whole goal.

const maxGoalParts = 512

// sexprArgs splits "(op a b c)" into op and its top-level arguments.
func sexprArgs(s string) (string, []string, bool) {
	s = strings.TrimSpace(s)
	if len(s) < 2 || s[0] != '(' || s[len(s)-1] != ')' {
		return "", nil, false
	}
	in := s[1 : len(s)-1]
	var toks []string
	i := 0
	for i < len(in) {
		c := in[i]
		switch {
		case c == ' ' || c == '\n' || c == '\t':
			i++
		case c == '(':
			d := 0
			j := i
			for j < len(in) {
				switch in[j] {
				case '(':
					d++
				case ')':
					d--
				case '|':
					j++
					for j < len(in) && in[j] != '|' {
						j++
					}
				case '"':
					j++
					for j < len(in) && in[j] != '"' {
						j++
					}
				}
				j++
				if d == 0 {
					break
				}
			}
			if d != 0 {
				return "", nil, false
			}
			toks = append(toks, in[i:j])
			i = j
		case c == '|':
			j := i + 1
			for j < len(in) && in[j] != '|' {
				j++
			}
			if j >= len(in) {
				return "", nil, false
			}
			toks = append(toks, in[i:j+1])
			i = j + 1
		case c == '"':
			j := i + 1
			for j < len(in) && in[j] != '"' {
				j++
			}
			if j >= len(in) {
				return "", nil, false
			}
			toks = append(toks, in[i:j+1])
			i = j + 1
		default:
			j := i
			for j < len(in) && in[j] != ' ' && in[j] != '\n' && in[j] != '\t' && in[j] != '(' && in[j] != ')' {
				j++
			}
			toks = append(toks, in[i:j])
			i = j
		}
	}
	if len(toks) == 0 {
		return "", nil, false
	}
	return toks[0], toks[1:], true
}

func splitGoal(g string) []string {
	parts := splitGoalRec(g, 0)
	if len(parts) > maxGoalParts || len(parts) <= 1 {
		return []string{g}
	}
	return parts
}

func splitGoalRec(g string, depth int) []string {
	if depth > 12 {
		return []string{g}
	}
	op, args, ok := sexprArgs(g)
	if !ok {
		return []string{g}
	}
	switch op {
	case "and":
		var out []string
		for _, a := range args {
			out = append(out, splitGoalRec(a, depth+1)...)
			if len(out) > maxGoalParts {
				return []string{g}
			}
		}
		return out
	case "=>":
		if len(args) != 2 {
			return []string{g}
		}
		qs := splitGoalRec(args[1], depth+1)
		if len(qs) <= 1 {
			return []string{g}
		}
		out := make([]string, 0, len(qs))
		for _, q := range qs {
			out = append(out, "(=> "+args[0]+" "+q+")")
		}
		return out
	case "forall":
		if len(args) != 2 {
			return []string{g}
		}
		bs := splitGoalRec(args[1], depth+1)
		if len(bs) <= 1 {
			return []string{g}
		}
		out := make([]string, 0, len(bs))
		for _, b := range bs {
			out = append(out, "(forall "+args[0]+" "+b+")")
		}
		return out
	}
	return []string{g}
}

// queryWithGoal replaces the final negated-goal assertion of a query built by
// buildQuery with the negation of part.
func queryWithGoal(query, negGoal, part string) (string, bool) {
	tail := "(assert " + negGoal + ")\n(check-sat)\n"
	if !strings.HasSuffix(query, tail) {
		return "", false
	}
	return query[:len(query)-len(tail)] + "(assert (not " + part + "))\n(check-sat)\n", true
}
