package main

import "strings"

// Goal splitting: G is equivalent to the conjunction of splitGoal(G).
// (and a b ..) -> parts of a, b, ..; (=> p q) -> (=> p qi); (forall (vs) b) -> (forall (vs) bi).
// Used when the portfolio answers `unknown` on a large quantified goal: each
// part is a smaller query with the same hypotheses.  Sound in both directions,
// so a `sat` part refutes the whole goal.

const maxGoalParts = 512

// sexprArgs splits "(op a b c)" into op and its top-level arguments.
func sexprArgs(s string) (string, []string, bool) {
	s = strings.TrimSpace(s)
	if len(s) < 2 || s[0] != '(' || s[len(s)-1] != ')' {
		return "", nil, false
	}
	in := s[1 : len(s)-1]
	var toks []string
	i := 0
	for i < len(in) {
		c := in[i]
		switch {
		case c == ' ' || c == '\n' || c == '\t':
			i++
		case c == '(':
			d := 0
			j := i
			for j < len(in) {
				switch in[j] {
				case '(':
					d++
				case ')':
					d--
				case '|':
					j++
					for j < len(in) && in[j] != '|' {
						j++
					}
				case '"':
					j++
					for j < len(in) && in[j] != '"' {
						j++
					}
				}
				j++
				if d == 0 {
					break
				}
			}
			if d != 0 {
				return "", nil, false
			}
			toks = append(toks, in[i:j])
			i = j
		case c == '|':
			j := i + 1
			for j < len(in) && in[j] != '|' {
				j++
			}
			if j >= len(in) {
				return "", nil, false
			}
			toks = append(toks, in[i:j+1])
			i = j + 1
		case c == '"':
			j := i + 1
			for j < len(in) && in[j] != '"' {
				j++
			}
			if j >= len(in) {
				return "", nil, false
			}
			toks = append(toks, in[i:j+1])
			i = j + 1
		default:
			j := i
			for j < len(in) && in[j] != ' ' && in[j] != '\n' && in[j] != '\t' && in[j] != '(' && in[j] != ')' {
				j++
			}
			toks = append(toks, in[i:j])
			i = j
		}
	}
	if len(toks) == 0 {
		return "", nil, false
	}
	return toks[0], toks[1:], true
}

func splitGoal(g string) []string {
	parts := splitGoalRec(g, 0)
	if len(parts) > maxGoalParts || len(parts) <= 1 {
		return []string{g}
	}
	return parts
}

func splitGoalRec(g string, depth int) []string {
	if depth > 12 {
		return []string{g}
	}
	op, args, ok := sexprArgs(g)
	if !ok {
		return []string{g}
	}
	switch op {
	case "and":
		var out []string
		for _, a := range args {
			out = append(out, splitGoalRec(a, depth+1)...)
			if len(out) > maxGoalParts {
				return []string{g}
			}
		}
		return out
	case "=>":
		if len(args) != 2 {
			return []string{g}
		}
		qs := splitGoalRec(args[1], depth+1)
		if len(qs) <= 1 {
			return []string{g}
		}
		out := make([]string, 0, len(qs))
		for _, q := range qs {
			out = append(out, "(=> "+args[0]+" "+q+")")
		}
		return out
	case "forall":
		if len(args) != 2 {
			return []string{g}
		}
		bs := splitGoalRec(args[1], depth+1)
		if len(bs) <= 1 {
			return []string{g}
		}
		out := make([]string, 0, len(bs))
		for _, b := range bs {
			out = append(out, "(forall "+args[0]+" "+b+")")
		}
		return out
	}
	return []string{g}
}

// queryWithGoal replaces the final negated-goal assertion of a query built by
// buildQuery with the negation of part.
func queryWithGoal(query, negGoal, part string) (string, bool) {
	tail := "(assert " + negGoal + ")\n(check-sat)\n"
	if !strings.HasSuffix(query, tail) {
		return "", false
	}
	return query[:len(query)-len(tail)] + "(assert (not " + part + "))\n(check-sat)\n", true
}

// pruneStale drops quantified hypotheses that talk about a havocked heap
// version (a heap array symbol H:...) which the goal does not depend on, not
// even through definitions.  Such facts describe earlier program states (an
// outer loop head, a state before a call) and only add instantiation noise.
// Dropping hypotheses is sound.  ok=false when nothing was dropped.
func pruneStale(query string) (string, bool) {
	lines := strings.Split(query, "\n")
	gi := -1
	for i := len(lines) - 1; i >= 0; i-- {
		if strings.HasPrefix(lines[i], "(assert ") {
			gi = i
			break
		}
	}
	if gi < 0 {
		return "", false
	}
	defs := map[string]string{}
	for _, l := range lines {
		if strings.HasPrefix(l, "(define-fun ") {
			rest := l[len("(define-fun "):]
			name := rest
			if rest[0] == '|' {
				if k := strings.IndexByte(rest[1:], '|'); k >= 0 {
					name = rest[:k+2]
				}
			} else if k := strings.IndexByte(rest, ' '); k >= 0 {
				name = rest[:k]
			}
			defs[name] = l
		}
	}
	rel := map[string]bool{}
	var work []string
	add := func(text string) {
		for _, s := range symbolsIn(text) {
			if !rel[s] {
				rel[s] = true
				work = append(work, s)
			}
		}
	}
	add(lines[gi])
	// does the goal itself (through definitions) talk about specification functions?
	for len(work) > 0 {
		s := work[len(work)-1]
		work = work[:len(work)-1]
		if d, ok := defs[s]; ok {
			add(d)
		}
	}
	goalUsesPure := false
	for s := range rel {
		if strings.HasPrefix(s, "|pure:") || strings.HasPrefix(s, "pure:") {
			goalUsesPure = true
		}
	}
	// non-quantified hypotheses are kept, and what they mention stays relevant
	for i, l := range lines {
		if i != gi && strings.HasPrefix(l, "(assert ") && !strings.Contains(l, "(forall ") && !strings.Contains(l, "(exists ") {
			add(l)
		}
	}
	for len(work) > 0 {
		s := work[len(work)-1]
		work = work[:len(work)-1]
		if d, ok := defs[s]; ok {
			add(d)
		}
	}
	dropped := false
	var out []string
	for i, l := range lines {
		if !goalUsesPure && i != gi && strings.HasPrefix(l, "(assert ") && strings.Contains(l, "(forall ") && strings.Contains(l, "pure:") {
			// axioms and invariants about specification functions the goal does not mention
			dropped = true
			continue
		}
		if i != gi && strings.HasPrefix(l, "(assert ") && (strings.Contains(l, "(forall ") || strings.Contains(l, "(exists ")) && strings.Contains(l, "H:") {
			stale := false
			for _, s := range symbolsIn(l) {
				if (strings.HasPrefix(s, "|H:") || strings.HasPrefix(s, "H:")) && !rel[s] {
					stale = true
					break
				}
			}
			if stale {
				dropped = true
				continue
			}
		}
		out = append(out, l)
	}
	if !dropped {
		return "", false
	}
	return strings.Join(out, "\n"), true
}
