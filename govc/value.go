package main

import (
	"fmt"
	"go/types"
	"strings"

	"golang.org/x/tools/go/ssa"
)

// Symbolic values. Scalars (ints, bools, floats, strings, map/chan refs) are a
// Term. Everything else is structured at the executor level and flattened into
// several SMT arrays when it lives in the heap.

type Value interface{}

type SliceV struct {
	Arr, Off, Len, Cap Term
	Elem               types.Type
}

type IfaceV struct {
	Tag, Pay Term
}

type StructV struct {
	T types.Type
	F []Value
}

type ArrayV struct {
	T *types.Array
	E []Value
}

type TupleV []Value

type Step struct {
	Field int  // >=0: field index
	Index Term // if Field < 0
	T     types.Type
}

// PtrV is a pointer: a root object plus an access path into it.
type PtrV struct {
	Cell   int // >0: local cell
	Ref    Term
	Global *ssa.Global
	RootT  types.Type // type of the root object
	Path   []Step
	Elem   types.Type // type pointed to
}

type ClosureV struct {
	Fn   *ssa.Function
	Bind []Value
}

// OpaqueFn: a function value stored in / loaded from the heap: only an identity.
type OpaqueFn struct {
	ID  Term
	Sig *types.Signature
}

type IterV struct {
	R     *ssa.Range
	IsMap bool
	Map   Term
	MapT  *types.Map
	Str   Term
}

func (p PtrV) isNilConst() bool { return p.Cell == 0 && p.Global == nil && p.Ref.S == "0" }

func (p PtrV) field(i int, t types.Type) PtrV {
	np := p
	np.Path = append(append([]Step{}, p.Path...), Step{Field: i, T: t})
	np.Elem = t
	return np
}

func (p PtrV) index(ix Term, t types.Type) PtrV {
	np := p
	np.Path = append(append([]Step{}, p.Path...), Step{Field: -1, Index: ix, T: t})
	np.Elem = t
	return np
}

// ---------------------------------------------------------------------------
// Types

func typeKey(t types.Type) string {
	return types.TypeString(t, func(p *types.Package) string { return p.Path() })
}

func shortType(t types.Type) string {
	return types.TypeString(t, func(p *types.Package) string { return p.Name() })
}

// opaque leaf types: external struct types modelled as one scalar.
var opaqueSorts = map[string]*Sort{
	"go.uber.org/atomic.Bool":   SBool,
	"go.uber.org/atomic.Int64":  SInt,
	"go.uber.org/atomic.Uint64": SInt,
	"go.uber.org/atomic.Int32":  SInt,
	"go.uber.org/atomic.Uint32": SInt,
	"sync.RWMutex":              SInt,
	"sync.Mutex":                SInt,
	"sync.WaitGroup":            SInt,
	"sync.Pool":                 SInt,
	"sync.Once":                 SInt,
	"bytes.Buffer":              SStr,
	"time.Time":                 SInt,
	"hash/maphash.Seed":         SInt,
	"hash/maphash.Hash":         SInt,
}

func (e *Engine) inModule(p *types.Package) bool {
	return p != nil && (p.Path() == e.modPath || strings.HasPrefix(p.Path(), e.modPath+"/"))
}

// opaqueSort reports whether t is an external named struct modelled as a leaf.
func (e *Engine) opaqueSort(t types.Type) (*Sort, bool) {
	n, ok := t.(*types.Named)
	if !ok {
		return nil, false
	}
	if s, ok := opaqueSorts[typeKey(n)]; ok {
		return s, true
	}
	if st, isStruct := n.Underlying().(*types.Struct); isStruct && !e.inModule(n.Obj().Pkg()) {
		if plainDataStruct(st, 0) {
			// option/record structs of dependencies whose fields are all exported
			// are modelled structurally (field by field), like in-module structs
			return nil, false
		}
		return SInt, true
	}
	return nil, false
}

// plainDataStruct: every field is exported and not itself a struct with hidden
// state (checked to a small depth).
func plainDataStruct(st *types.Struct, depth int) bool {
	if st.NumFields() == 0 || depth > 2 {
		return false
	}
	for i := 0; i < st.NumFields(); i++ {
		f := st.Field(i)
		if !f.Exported() || f.Embedded() {
			return false
		}
		if inner, ok := f.Type().Underlying().(*types.Struct); ok {
			if !plainDataStruct(inner, depth+1) {
				return false
			}
		}
	}
	return true
}

func isFloat(t types.Type) bool {
	b, ok := t.Underlying().(*types.Basic)
	return ok && b.Info()&types.IsFloat != 0
}

func isString(t types.Type) bool {
	b, ok := t.Underlying().(*types.Basic)
	return ok && b.Info()&types.IsString != 0
}

func isInteger(t types.Type) bool {
	b, ok := t.Underlying().(*types.Basic)
	return ok && b.Info()&types.IsInteger != 0
}

func isBool(t types.Type) bool {
	b, ok := t.Underlying().(*types.Basic)
	return ok && b.Info()&types.IsBoolean != 0
}

// intRange returns bit width and signedness of an integer type.
func intRange(t types.Type) (bits int, signed bool) {
	b := t.Underlying().(*types.Basic)
	switch b.Kind() {
	case types.Int8:
		return 8, true
	case types.Int16:
		return 16, true
	case types.Int32:
		return 32, true
	case types.Int64, types.Int, types.UntypedInt, types.UntypedRune:
		return 64, true
	case types.Uint8:
		return 8, false
	case types.Uint16:
		return 16, false
	case types.Uint32:
		return 32, false
	case types.Uint64, types.Uint, types.Uintptr:
		return 64, false
	}
	return 64, true
}

func intBounds(t types.Type) (lo, hi string) {
	bits, signed := intRange(t)
	switch {
	case signed && bits == 64:
		return "(- 9223372036854775808)", "9223372036854775807"
	case signed && bits == 32:
		return "(- 2147483648)", "2147483647"
	case signed && bits == 16:
		return "(- 32768)", "32767"
	case signed && bits == 8:
		return "(- 128)", "127"
	case bits == 64:
		return "0", "18446744073709551615"
	case bits == 32:
		return "0", "4294967295"
	case bits == 16:
		return "0", "65535"
	default:
		return "0", "255"
	}
}

func wrapFn(t types.Type) string {
	bits, signed := intRange(t)
	if signed {
		return fmt.Sprintf("wrap%d", bits)
	}
	return fmt.Sprintf("wrapu%d", bits)
}

// scalarSort gives the SMT sort of a type that is represented by one term.
func (e *Engine) scalarSort(t types.Type) (*Sort, bool) {
	if s, ok := e.opaqueSort(t); ok {
		return s, true
	}
	switch u := t.Underlying().(type) {
	case *types.Basic:
		switch {
		case u.Info()&types.IsBoolean != 0:
			return SBool, true
		case u.Info()&types.IsInteger != 0:
			return SInt, true
		case u.Info()&types.IsFloat != 0:
			return SF64, true
		case u.Info()&types.IsString != 0:
			return SStr, true
		case u.Kind() == types.UnsafePointer:
			return SInt, true
		case u.Kind() == types.UntypedNil:
			return SInt, true
		}
	case *types.Map, *types.Chan:
		return SInt, true
	}
	return nil, false
}

// zeroValue builds the zero Value of a type.
func (e *Engine) zeroValue(t types.Type) Value {
	if s, ok := e.scalarSort(t); ok {
		return ZeroOf(s)
	}
	switch u := t.Underlying().(type) {
	case *types.Pointer:
		return PtrV{Ref: IntLit(0), RootT: u.Elem(), Elem: u.Elem()}
	case *types.Slice:
		z := IntLit(0)
		return SliceV{Arr: z, Off: z, Len: z, Cap: z, Elem: u.Elem()}
	case *types.Interface:
		return IfaceV{Tag: IntLit(0), Pay: IntLit(0)}
	case *types.Signature:
		return OpaqueFn{ID: IntLit(0), Sig: u}
	case *types.Struct:
		sv := StructV{T: t}
		for i := 0; i < u.NumFields(); i++ {
			sv.F = append(sv.F, e.zeroValue(u.Field(i).Type()))
		}
		return sv
	case *types.Array:
		if u.Len() > 16 {
			panic(unsupported("zero value of large array " + t.String()))
		}
		av := ArrayV{T: u}
		for i := int64(0); i < u.Len(); i++ {
			av.E = append(av.E, e.zeroValue(u.Elem()))
		}
		return av
	case *types.Tuple:
		var tv TupleV
		for i := 0; i < u.Len(); i++ {
			tv = append(tv, e.zeroValue(u.At(i).Type()))
		}
		return tv
	}
	panic(unsupported("zeroValue of " + t.String()))
}

// freshValue builds an unconstrained symbolic Value of a type, adding range /
// well-formedness assumptions to the state.
func (e *Engine) freshValue(st *State, name string, t types.Type) Value {
	if s, ok := e.scalarSort(t); ok {
		v := e.ctx.Fresh(name, s)
		e.assumeTyped(st, v, t)
		return v
	}
	switch u := t.Underlying().(type) {
	case *types.Pointer:
		r := e.ctx.Fresh(name, SInt)
		e.assumeRef(st, r)
		return PtrV{Ref: r, RootT: u.Elem(), Elem: u.Elem()}
	case *types.Slice:
		sv := SliceV{Arr: e.ctx.Fresh(name+"#arr", SInt), Off: e.ctx.Fresh(name+"#off", SInt),
			Len: e.ctx.Fresh(name+"#len", SInt), Cap: e.ctx.Fresh(name+"#cap", SInt), Elem: u.Elem()}
		e.assumeSlice(st, sv)
		return sv
	case *types.Interface:
		iv := IfaceV{Tag: e.ctx.Fresh(name+"#tag", SInt), Pay: e.ctx.Fresh(name+"#pay", SInt)}
		e.assumeIface(st, iv)
		return iv
	case *types.Signature:
		return OpaqueFn{ID: e.ctx.Fresh(name+"#fn", SInt), Sig: u}
	case *types.Struct:
		sv := StructV{T: t}
		for i := 0; i < u.NumFields(); i++ {
			sv.F = append(sv.F, e.freshValue(st, name+"."+u.Field(i).Name(), u.Field(i).Type()))
		}
		return sv
	case *types.Array:
		if u.Len() > 16 {
			panic(unsupported("fresh value of large array " + t.String()))
		}
		av := ArrayV{T: u}
		for i := int64(0); i < u.Len(); i++ {
			av.E = append(av.E, e.freshValue(st, fmt.Sprintf("%s[%d]", name, i), u.Elem()))
		}
		return av
	case *types.Tuple:
		var tv TupleV
		for i := 0; i < u.Len(); i++ {
			tv = append(tv, e.freshValue(st, fmt.Sprintf("%s#%d", name, i), u.At(i).Type()))
		}
		return tv
	}
	panic(unsupported("freshValue of " + t.String()))
}

// assumeTyped adds the range assumption of an integer-typed scalar.
func (e *Engine) assumeTyped(st *State, v Term, t types.Type) {
	if _, ok := e.opaqueSort(t); ok {
		// atomic integer wrappers carry the range of their payload
		bounds := map[string][2]string{
			"go.uber.org/atomic.Int64":  {"(- 9223372036854775808)", "9223372036854775807"},
			"go.uber.org/atomic.Uint64": {"0", "18446744073709551615"},
			"go.uber.org/atomic.Int32":  {"(- 2147483648)", "2147483647"},
			"go.uber.org/atomic.Uint32": {"0", "4294967295"},
		}
		if b, ok := bounds[types.TypeString(t, nil)]; ok {
			st.assume(And(Le(T(b[0], SInt), v), Le(v, T(b[1], SInt))))
		}
		return
	}
	switch u := t.Underlying().(type) {
	case *types.Chan:
		e.assumeRef(st, v)
		// channels of different types are different objects
		f := e.ctx.Func("chanTypeOf", []*Sort{SInt}, SInt)
		st.assume(Implies(Neq(v, IntLit(0)), Eq(T("("+f+" "+v.S+")", SInt), e.typeTag(t))))
		return
	case *types.Basic:
		if u.Info()&types.IsInteger != 0 {
			lo, hi := intBounds(t)
			st.assume(And(Le(T(lo, SInt), v), Le(v, T(hi, SInt))))
		}
		if u.Info()&types.IsString != 0 {
			e.strFacts(st, v)
		}
	case *types.Map:
		e.assumeRef(st, v)
	}
}

func (e *Engine) assumeRef(st *State, r Term) {
	if _, ok := isIntLit(r); ok {
		return
	}
	st.assume(And(Le(IntLit(0), r), Lt(r, st.nextRefTerm())))
}

func (e *Engine) assumeSlice(st *State, s SliceV) {
	e.assumeRef(st, s.Arr)
	max := T("4611686018427387904", SInt)
	st.assume(And(Le(IntLit(0), s.Off), Le(IntLit(0), s.Len), Le(s.Len, s.Cap), Le(s.Cap, max), Le(s.Off, max)))
	// a nil slice has no backing array and zero length; a non-nil one may be empty
	st.assume(Implies(Eq(s.Arr, IntLit(0)), And(Eq(s.Len, IntLit(0)), Eq(s.Cap, IntLit(0)), Eq(s.Off, IntLit(0)))))
}

func (e *Engine) assumeIface(st *State, iv IfaceV) {
	st.assume(Le(IntLit(0), iv.Tag))
	st.assume(Implies(Eq(iv.Tag, IntLit(0)), Eq(iv.Pay, IntLit(0))))
	st.assume(And(Le(IntLit(0), iv.Pay), Lt(iv.Pay, st.nextRefTerm())))
}

type unsupportedErr struct{ msg string }

func (u unsupportedErr) Error() string { return "unsupported: " + u.msg }
func unsupported(msg string) error     { return unsupportedErr{msg} }
