package main

// Contract files: comment-only Go files (build tag verif) whose //@ lines carry
// the contracts, keyed by function (types.Func relative name, closures Parent$k)
// and loop ordinal.

import (
	"fmt"
	"go/ast"
	"regexp"
	"strconv"
	"strings"
)

type Clause struct {
	Label string
	Expr  *SExpr
	Src   string
	Where string
}

type Case struct {
	Name     string
	Requires []*Clause
	Ensures  []*Clause
}

type ModLoc struct {
	Expr *SExpr // pointer / map / slice expression whose target may change
	All  string // "T.f": the whole field array of type T may change
	Any  bool   // "*": anything
	When *SExpr // optional condition (evaluated in the pre-state)
}

type Contract struct {
	Pkg        string
	Func       string
	Props      []string
	Requires   []*Clause
	Assumes    []*Clause // assumed at entry, NOT checked at call sites (reported as unchecked assumptions)
	Ensures    []*Clause
	Cases      []*Case
	Modifies   []ModLoc
	ModAny     bool
	LoopInv    map[int][]*Clause
	LoopAssume map[int][]*Clause // assumed (unchecked) facts at loop heads; reported as assumptions
	Unroll     map[int]int
	Panics     *Clause
	Inline     bool
	Hooks      []*AtHook // ghost updates / assertions attached to source lines (after "<text>": ... / before "<text>": ...)
	GhostVars  []GhostVar
	Abstracts  []*Clause // postconditions ASSUMED at call sites and not checked in the body (reported as unchecked abstractions)
	Trusted    bool
	BitVector  bool // verified by translation to bit-vectors (bv.go)
	ExternDep  bool // assumed contract of a dependency function (extern func)
	Emits      bool // may extend the call trace
	Allocs     bool // may allocate (moves the allocation frontier)
	Proto      string
	Discipline bool
	Where      string
	Atomic     []string
	NoFrame    bool
	Ghost      []BoundVar
	Witness    []WitnessDecl
	Holds      []HoldDecl
	Acquires   []HoldDecl // locks the function takes (and releases) itself
}

// GhostVar: a specification-only variable of the function under verification.
type GhostVar struct {
	Name string
	Type string
	Init *SExpr
}

// AtHook is attached to the unique source line of the function that contains
// Text: After hooks run after the assignment (store to a local) on that line,
// Before hooks run before the call on that line.
type AtHook struct {
	Before bool
	All    bool // the text may occur on several lines; the hook is attached to each
	Text   string
	Kind   string // "set", "assert", "assume"
	Ghost  string // Kind set: the ghost variable assigned
	Clause *Clause
	Where  string
}

// HoldDecl: a lock the caller holds on entry (and still holds on return).
type HoldDecl struct {
	Lock  *SExpr // expression denoting the struct that contains the lock
	Field string
	Mode  lockMode
}

// MarkRule: a ghost update of a mark set attached to an atomic load of a field
// or to a call of a function.
//
//	on load scope.closed: closedSeen[self] = closedSeen[self] || after
//	on call (*scope).report: flushed[s] = closedSeen[s]
type MarkRule struct {
	Kind   string // load | call
	Target string // Type.field | function relative name
	Mark   string
	Index  *SExpr
	Value  *SExpr
	Where  string
}

// WitnessDecl: a name usable in postconditions that stands for the final value
// of a local variable of the function (a skolem constant at call sites).
type WitnessDecl struct {
	Name, Type, Local string
}

type Pred struct {
	Name   string
	Params []BoundVar
	Body   *SExpr
}

type PureFn struct {
	Name   string
	Params []BoundVar
	Result string
}

type Lemma struct {
	Name  string
	Props []string
	Expr  *SExpr
	Axiom bool
	Where string
	Vars  []BoundVar
	// Strings: the lemma is about text only and is decided in the solvers' theory
	// of strings (Str := String, + := str.++, < := str.<) instead of the
	// uninterpreted string sort; a refutation then comes with concrete strings.
	Strings bool
}

type ClosedIface struct {
	Name  string
	Impls []string
}

type PkgSpec struct {
	Pkg        string
	Contracts  map[string]*Contract
	Order      []string
	Preds      map[string]*Pred
	Pure       map[string]*PureFn
	Lemmas     []*Lemma
	RoundTrips []*RoundTrip
	Extern     map[string]bool      // extern interfaces: invoke = trace event
	PureM      map[string]bool      // "Iface.Method": deterministic, effect-free interface methods
	ExtPost    map[string][]*Clause // "Iface.Method": assumed facts about results of extern calls
	Marks      []string             // ghost mark sets (Array Int Bool), function-local knowledge
	MarkRules  []MarkRule
	Closed     map[string]*ClosedIface
	Protos     map[string]*Protocol
	Locks      []*LockSpec
	InitOnly   []string
	Monotone   []string             // Type.field: boolean flags that only ever go from false to true
	ExtFuncs   map[string]*Contract // assumed contracts of dependency functions, keyed by ssa.Function.String()
}

var keywordRe = regexp.MustCompile(`^(abstracts|after|before|bitvector|func|token|require|monotone|mark|witness|pred|pure|axiom|lemma|roundtrip|extern|closed|protocol|lock|property|requires|ensures|case|modifies|loop|panics|inline|trusted|emits|allocs|unroll|shared|ghost|inv|threads|on|guar|protects|discipline|initonly|atomic|noframe|level|assume|self|local|single|init|rely|counter|holds|acquires)\b`)

// parseContractFile extracts the //@ lines of a file.
func parseContractComments(f *ast.File, fname string) []specLine {
	var lines []specLine
	for _, cg := range f.Comments {
		for _, c := range cg.List {
			t := c.Text
			if strings.HasPrefix(t, "//@") {
				lines = append(lines, specLine{text: strings.TrimRight(t[3:], " \t"), where: fname})
			}
		}
	}
	return lines
}

type specLine struct {
	text  string
	where string
}

// joinLines merges continuation lines (those not starting with a keyword).
func joinLines(lines []specLine) []specLine {
	var out []specLine
	for i, l := range lines {
		tr := strings.TrimSpace(l.text)
		if tr == "" {
			continue
		}
		l.where = fmt.Sprintf("%s#%d", l.where, i+1)
		if keywordRe.MatchString(tr) || len(out) == 0 {
			out = append(out, specLine{tr, l.where})
		} else {
			out[len(out)-1].text += " " + tr
		}
	}
	return out
}

func parseLabelled(rest string, where string) (*Clause, error) {
	rest = strings.TrimSpace(rest)
	label := ""
	if strings.HasPrefix(rest, "@") {
		i := strings.IndexAny(rest, " \t")
		if i < 0 {
			return nil, fmt.Errorf("%s: clause without expression", where)
		}
		label = rest[1:i]
		rest = strings.TrimSpace(rest[i:])
	}
	x, err := parseSpec(rest)
	if err != nil {
		return nil, fmt.Errorf("%s: %v", where, err)
	}
	return &Clause{Label: label, Expr: x, Src: rest, Where: where}, nil
}

func parseParams(s string) []BoundVar {
	var out []BoundVar
	depth := 0
	start := 0
	parts := []string{}
	for i, c := range s {
		switch c {
		case '[', '(':
			depth++
		case ']', ')':
			depth--
		case ',':
			if depth == 0 {
				parts = append(parts, s[start:i])
				start = i + 1
			}
		}
	}
	parts = append(parts, s[start:])
	for _, p := range parts {
		p = strings.TrimSpace(p)
		if p == "" {
			continue
		}
		i := strings.IndexAny(p, " \t")
		if i < 0 {
			out = append(out, BoundVar{p, ""})
			continue
		}
		out = append(out, BoundVar{p[:i], strings.TrimSpace(p[i:])})
	}
	// "a, b T": fill missing types from the right
	for i := len(out) - 2; i >= 0; i-- {
		if out[i].Type == "" {
			out[i].Type = out[i+1].Type
		}
	}
	return out
}

func parsePkgSpec(pkg string, lines []specLine) (*PkgSpec, error) {
	ps := &PkgSpec{Pkg: pkg, Contracts: map[string]*Contract{}, Preds: map[string]*Pred{}, Pure: map[string]*PureFn{},
		Extern: map[string]bool{}, PureM: map[string]bool{}, ExtPost: map[string][]*Clause{}, Closed: map[string]*ClosedIface{}, Protos: map[string]*Protocol{}}
	var cur *Contract
	var curCase *Case
	var curProto *Protocol
	var curLock *LockSpec
	for _, l := range joinLines(lines) {
		t := l.text
		kw := keywordRe.FindString(t)
		rest := strings.TrimSpace(t[len(kw):])
		switch kw {
		case "func":
			cur = &Contract{Pkg: pkg, Func: rest, LoopInv: map[int][]*Clause{}, Unroll: map[int]int{}, Where: l.where}
			curCase, curProto, curLock = nil, nil, nil
			if _, dup := ps.Contracts[rest]; dup {
				return nil, fmt.Errorf("%s: duplicate contract for %s", l.where, rest)
			}
			ps.Contracts[rest] = cur
			ps.Order = append(ps.Order, rest)
		case "pred":
			// pred name(params) { body }
			i := strings.Index(rest, "(")
			j := matchParen(rest, i)
			b1 := strings.Index(rest[j:], "{")
			b2 := strings.LastIndex(rest, "}")
			if i < 0 || j < 0 || b1 < 0 || b2 < 0 {
				return nil, fmt.Errorf("%s: malformed pred", l.where)
			}
			body, err := parseSpec(rest[j+b1+1 : b2])
			if err != nil {
				return nil, fmt.Errorf("%s: %v", l.where, err)
			}
			name := strings.TrimSpace(rest[:i])
			ps.Preds[name] = &Pred{Name: name, Params: parseParams(rest[i+1 : j]), Body: body}
			cur, curProto, curLock = nil, nil, nil
		case "pure":
			// pure func name(params) result
			if strings.HasPrefix(rest, "method") {
				ps.PureM[strings.TrimSpace(strings.TrimPrefix(rest, "method"))] = true
				continue
			}
			r := strings.TrimSpace(strings.TrimPrefix(rest, "func"))
			i := strings.Index(r, "(")
			j := matchParen(r, i)
			name := strings.TrimSpace(r[:i])
			ps.Pure[name] = &PureFn{Name: name, Params: parseParams(r[i+1 : j]), Result: strings.TrimSpace(r[j+1:])}
			cur, curProto, curLock = nil, nil, nil
		case "axiom", "lemma":
			// lemma name [C01,C02]: expr
			i := strings.Index(rest, ":")
			head := strings.TrimSpace(rest[:i])
			strMode := false
			if strings.HasSuffix(head, " strings") {
				strMode = true
				head = strings.TrimSpace(strings.TrimSuffix(head, " strings"))
			}
			var props []string
			if b := strings.Index(head, "["); b >= 0 {
				props = strings.Split(strings.Trim(head[b:], "[]"), ",")
				head = strings.TrimSpace(head[:b])
			}
			x, err := parseSpec(rest[i+1:])
			if err != nil {
				return nil, fmt.Errorf("%s: %v", l.where, err)
			}
			ps.Lemmas = append(ps.Lemmas, &Lemma{Name: head, Props: props, Expr: x, Axiom: kw == "axiom", Where: l.where, Strings: strMode})
			cur, curProto, curLock = nil, nil, nil
		case "roundtrip":
			// roundtrip name [C16]: encode F decode G unroll N
			i := strings.Index(rest, ":")
			if i < 0 {
				return nil, fmt.Errorf("%s: malformed roundtrip", l.where)
			}
			rt, err := parseRoundTrip(strings.TrimSpace(rest[:i]), rest[i+1:], l.where)
			if err != nil {
				return nil, err
			}
			ps.RoundTrips = append(ps.RoundTrips, rt)
			cur, curProto, curLock = nil, nil, nil
		case "extern":
			if strings.HasPrefix(rest, "func ") {
				// extern func <ssa name of a dependency function>: an ASSUMED contract
				name := strings.TrimSpace(strings.TrimPrefix(rest, "func "))
				cur = &Contract{Pkg: pkg, Func: name, LoopInv: map[int][]*Clause{}, Unroll: map[int]int{}, Where: l.where, Trusted: true, ExternDep: true}
				curCase, curProto, curLock = nil, nil, nil
				if ps.ExtFuncs == nil {
					ps.ExtFuncs = map[string]*Contract{}
				}
				ps.ExtFuncs[name] = cur
				continue
			}
			ps.Extern[strings.TrimSpace(strings.TrimPrefix(rest, "interface"))] = true
		case "closed":
			r := strings.TrimSpace(strings.TrimPrefix(rest, "interface"))
			parts := strings.SplitN(r, "=", 2)
			ci := &ClosedIface{Name: strings.TrimSpace(parts[0])}
			for _, im := range strings.Split(parts[1], ",") {
				ci.Impls = append(ci.Impls, strings.TrimSpace(im))
			}
			ps.Closed[ci.Name] = ci
		case "assume":
			if curProto != nil {
				if err := curProto.parseLine(kw, rest, l.where); err != nil {
					return nil, err
				}
				continue
			}
			if cur != nil && !strings.Contains(rest, " ensures ") {
				if err := cur.parseLine(&curCase, kw, rest, l.where); err != nil {
					return nil, err
				}
				continue
			}
			// assume Iface.Method ensures expr
			i := strings.Index(rest, " ensures ")
			if i < 0 {
				return nil, fmt.Errorf("%s: assume Iface.Method ensures expr", l.where)
			}
			cl, err := parseLabelled(rest[i+len(" ensures "):], l.where)
			if err != nil {
				return nil, err
			}
			k := strings.TrimSpace(rest[:i])
			ps.ExtPost[k] = append(ps.ExtPost[k], cl)
		case "mark":
			for _, m := range strings.Split(rest, ",") {
				ps.Marks = append(ps.Marks, strings.TrimSpace(m))
			}
			cur, curProto, curLock = nil, nil, nil
		case "on":
			if curProto != nil {
				if err := curProto.parseLine(kw, rest, l.where); err != nil {
					return nil, err
				}
				continue
			}
			// on load T.f: m[idx] = e   |   on call F: m[idx] = e
			i := strings.Index(rest, ":")
			f := strings.Fields(rest[:i])
			if i < 0 || len(f) < 2 || (f[0] != "load" && f[0] != "call") {
				return nil, fmt.Errorf("%s: on load T.f: m[i] = e | on call F: m[i] = e", l.where)
			}
			for _, a := range strings.Split(rest[i+1:], ";") {
				a = strings.TrimSpace(a)
				if a == "" {
					continue
				}
				eq := strings.Index(a, "] =")
				b := strings.Index(a, "[")
				if eq < 0 || b < 0 {
					return nil, fmt.Errorf("%s: mark assignment m[i] = e expected", l.where)
				}
				ix, err := parseSpec(a[b+1 : eq])
				if err != nil {
					return nil, fmt.Errorf("%s: %v", l.where, err)
				}
				val, err := parseSpec(a[eq+3:])
				if err != nil {
					return nil, fmt.Errorf("%s: %v", l.where, err)
				}
				ps.MarkRules = append(ps.MarkRules, MarkRule{Kind: f[0], Target: strings.Join(f[1:], " "), Mark: strings.TrimSpace(a[:b]), Index: ix, Value: val, Where: l.where})
			}
		case "monotone":
			for _, f := range strings.Split(rest, ",") {
				ps.Monotone = append(ps.Monotone, strings.TrimSpace(f))
			}
		case "initonly":
			for _, f := range strings.Split(rest, ",") {
				ps.InitOnly = append(ps.InitOnly, strings.TrimSpace(f))
			}
		case "protocol":
			curProto = &Protocol{Name: strings.Fields(rest)[0], Pkg: pkg, Where: l.where}
			if f := strings.Fields(rest); len(f) >= 3 && f[1] == "on" {
				curProto.On = f[2]
			}
			ps.Protos[curProto.Name] = curProto
			cur, curLock = nil, nil
		case "lock":
			ls, err := parseLockHeader(rest, pkg, l.where)
			if err != nil {
				return nil, err
			}
			curLock = ls
			ps.Locks = append(ps.Locks, curLock)
			cur, curProto = nil, nil
		default:
			switch {
			case curProto != nil:
				if err := curProto.parseLine(kw, rest, l.where); err != nil {
					return nil, err
				}
			case curLock != nil:
				if err := curLock.parseLine(kw, rest, l.where); err != nil {
					return nil, err
				}
			case cur != nil:
				if err := cur.parseLine(&curCase, kw, rest, l.where); err != nil {
					return nil, err
				}
			default:
				return nil, fmt.Errorf("%s: clause outside of a declaration: %s", l.where, t)
			}
		}
	}
	return ps, nil
}

func matchParen(s string, i int) int {
	if i < 0 {
		return -1
	}
	d := 0
	for j := i; j < len(s); j++ {
		switch s[j] {
		case '(':
			d++
		case ')':
			d--
			if d == 0 {
				return j
			}
		}
	}
	return -1
}

func (c *Contract) parseLine(curCase **Case, kw, rest, where string) error {
	switch kw {
	case "property":
		for _, p := range strings.Split(rest, ",") {
			c.Props = append(c.Props, strings.TrimSpace(p))
		}
	case "requires":
		cl, err := parseLabelled(rest, where)
		if err != nil {
			return err
		}
		if *curCase != nil {
			(*curCase).Requires = append((*curCase).Requires, cl)
		} else {
			c.Requires = append(c.Requires, cl)
		}
	case "ensures":
		cl, err := parseLabelled(rest, where)
		if err != nil {
			return err
		}
		if *curCase != nil {
			(*curCase).Ensures = append((*curCase).Ensures, cl)
		} else {
			c.Ensures = append(c.Ensures, cl)
		}
	case "case":
		// case name: [requires expr]
		i := strings.Index(rest, ":")
		if i < 0 {
			return fmt.Errorf("%s: case needs a name followed by ':'", where)
		}
		cs := &Case{Name: strings.TrimSpace(rest[:i])}
		c.Cases = append(c.Cases, cs)
		*curCase = cs
		r := strings.TrimSpace(rest[i+1:])
		if strings.HasPrefix(r, "requires") {
			cl, err := parseLabelled(strings.TrimPrefix(r, "requires"), where)
			if err != nil {
				return err
			}
			cs.Requires = append(cs.Requires, cl)
		}
	case "modifies":
		// modifies [if <cond> :] loc, loc, ...
		var when *SExpr
		if strings.HasPrefix(rest, "if ") {
			i := strings.Index(rest, " : ")
			if i < 0 {
				return fmt.Errorf("%s: modifies if <cond> : <locations>", where)
			}
			w, err := parseSpec(rest[3:i])
			if err != nil {
				return fmt.Errorf("%s: %v", where, err)
			}
			when = w
			rest = rest[i+3:]
		}
		for _, m := range splitTop(rest) {
			m = strings.TrimSpace(m)
			switch {
			case m == "nothing":
			case m == "*":
				if when == nil {
					c.ModAny = true
				} else {
					c.Modifies = append(c.Modifies, ModLoc{Any: true, When: when})
				}
			case strings.HasPrefix(m, "all "):
				c.Modifies = append(c.Modifies, ModLoc{All: strings.TrimSpace(m[4:]), When: when})
			default:
				x, err := parseSpec(m)
				if err != nil {
					return fmt.Errorf("%s: %v", where, err)
				}
				c.Modifies = append(c.Modifies, ModLoc{Expr: x, When: when})
			}
		}
	case "loop":
		f := strings.Fields(rest)
		if len(f) < 3 {
			return fmt.Errorf("%s: malformed loop clause", where)
		}
		n, err := strconv.Atoi(f[0])
		if err != nil {
			return fmt.Errorf("%s: loop ordinal: %v", where, err)
		}
		body := strings.TrimSpace(strings.TrimPrefix(strings.TrimSpace(strings.TrimPrefix(rest, f[0])), f[1]))
		switch f[1] {
		case "invariant":
			cl, err := parseLabelled(body, where)
			if err != nil {
				return err
			}
			c.LoopInv[n] = append(c.LoopInv[n], cl)
		case "assume":
			cl, err := parseLabelled(body, where)
			if err != nil {
				return err
			}
			if c.LoopAssume == nil {
				c.LoopAssume = map[int][]*Clause{}
			}
			c.LoopAssume[n] = append(c.LoopAssume[n], cl)
		case "unroll":
			k, err := strconv.Atoi(strings.TrimSpace(body))
			if err != nil {
				return fmt.Errorf("%s: unroll count: %v", where, err)
			}
			c.Unroll[n] = k
		default:
			return fmt.Errorf("%s: unknown loop clause %s", where, f[1])
		}
	case "panics":
		cl, err := parseLabelled(rest, where)
		if err != nil {
			return err
		}
		c.Panics = cl
	case "inline":
		c.Inline = true
	case "trusted":
		c.Trusted = true
	case "bitvector":
		c.BitVector = true
	case "emits":
		c.Emits = true
	case "allocs":
		c.Allocs = true
	case "noframe":
		c.NoFrame = true
	case "protocol":
		c.Proto = rest
	case "discipline":
		c.Discipline = true
	case "atomic":
		c.Atomic = append(c.Atomic, rest)
	case "ghost":
		if i := strings.Index(rest, "="); i >= 0 && !strings.Contains(rest, ",") {
			// ghost name T = init  (a specification variable of this function)
			pv := parseParams(rest[:i])
			x, err := parseSpec(strings.TrimSpace(rest[i+1:]))
			if err != nil || len(pv) != 1 {
				return fmt.Errorf("%s: ghost name T = init: %v", where, err)
			}
			c.GhostVars = append(c.GhostVars, GhostVar{Name: pv[0].Name, Type: pv[0].Type, Init: x})
			break
		}
		c.Ghost = append(c.Ghost, parseParams(rest)...)
	case "after", "before":
		// after "<source text>": g = expr | assert @label expr | assume @label expr
		all := false
		if strings.HasPrefix(rest, "all ") {
			all = true
			rest = strings.TrimSpace(strings.TrimPrefix(rest, "all "))
		}
		q1 := strings.Index(rest, "\"")
		q2 := -1
		if q1 >= 0 {
			q2 = strings.Index(rest[q1+1:], "\"")
		}
		if q1 != 0 || q2 < 0 {
			return fmt.Errorf("%s: %s \"<source text>\": ...", where, kw)
		}
		text := rest[1 : 1+q2]
		body := strings.TrimSpace(rest[q2+2:])
		body = strings.TrimSpace(strings.TrimPrefix(body, ":"))
		h := &AtHook{Before: kw == "before", Text: text, Where: where, All: all}
		switch {
		case strings.HasPrefix(body, "assert "):
			h.Kind = "assert"
			body = strings.TrimPrefix(body, "assert ")
		case strings.HasPrefix(body, "assume "):
			h.Kind = "assume"
			body = strings.TrimPrefix(body, "assume ")
		default:
			h.Kind = "set"
			i := strings.Index(body, "=")
			if i <= 0 {
				return fmt.Errorf("%s: ghost assignment g = expr expected", where)
			}
			h.Ghost = strings.TrimSpace(body[:i])
			body = strings.TrimSpace(body[i+1:])
		}
		cl, err := parseLabelled(body, where)
		if err != nil {
			return err
		}
		h.Clause = cl
		c.Hooks = append(c.Hooks, h)
	case "acquires":
		// acquires <expr>.<lockfield>[, ...]
		for _, a := range splitTop(rest) {
			a = strings.TrimSpace(a)
			i := strings.LastIndex(a, ".")
			if i < 0 {
				return fmt.Errorf("%s: acquires <expr>.<lockfield>", where)
			}
			x, err := parseSpec(a[:i])
			if err != nil {
				return fmt.Errorf("%s: %v", where, err)
			}
			c.Acquires = append(c.Acquires, HoldDecl{Lock: x, Field: a[i+1:], Mode: lockW})
		}
	case "assume":
		cl, err := parseLabelled(rest, where)
		if err != nil {
			return err
		}
		c.Assumes = append(c.Assumes, cl)
	case "abstracts":
		cl, err := parseLabelled(rest, where)
		if err != nil {
			return err
		}
		c.Abstracts = append(c.Abstracts, cl)
	case "holds":
		// holds <expr>.<lockfield> R|W
		f := strings.Fields(rest)
		if len(f) != 2 || (f[1] != "R" && f[1] != "W") {
			return fmt.Errorf("%s: holds <expr>.<lockfield> R|W", where)
		}
		i := strings.LastIndex(f[0], ".")
		if i < 0 {
			return fmt.Errorf("%s: holds <expr>.<lockfield> R|W", where)
		}
		x, err := parseSpec(f[0][:i])
		if err != nil {
			return fmt.Errorf("%s: %v", where, err)
		}
		m := lockR
		if f[1] == "W" {
			m = lockW
		}
		c.Holds = append(c.Holds, HoldDecl{Lock: x, Field: f[0][i+1:], Mode: m})
	case "witness":
		// witness b int = idx
		parts := strings.SplitN(rest, "=", 2)
		if len(parts) != 2 {
			return fmt.Errorf("%s: witness name type = local", where)
		}
		bv := parseParams(parts[0])
		if len(bv) != 1 {
			return fmt.Errorf("%s: witness name type = local", where)
		}
		c.Witness = append(c.Witness, WitnessDecl{bv[0].Name, bv[0].Type, strings.TrimSpace(parts[1])})
	default:
		return fmt.Errorf("%s: unexpected clause %q in func contract", where, kw)
	}
	return nil
}

func splitTop(s string) []string {
	var out []string
	d := 0
	start := 0
	for i, c := range s {
		switch c {
		case '(', '[':
			d++
		case ')', ']':
			d--
		case ',':
			if d == 0 {
				out = append(out, s[start:i])
				start = i + 1
			}
		}
	}
	out = append(out, s[start:])
	return out
}
