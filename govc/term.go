package main

// SMT term layer: terms are SMT-LIB2 text with a sort attached. Large terms are
// named through the global definition table (Ctx) so that terms stay small; a
// query is emitted with the dependency closure of the symbols it mentions.

import (
	"fmt"
	"math"
	"sort"
	"strings"
)

type SortKind int

const (
	KInt SortKind = iota
	KBool
	KF64
	KStr
	KEvent
	KArray
	KBV
)

type Sort struct {
	K        SortKind
	Key, Val *Sort
	W        int
}

var (
	SInt   = &Sort{K: KInt}
	SBool  = &Sort{K: KBool}
	SF64   = &Sort{K: KF64}
	SStr   = &Sort{K: KStr}
	SEvent = &Sort{K: KEvent}
	SBV64  = &Sort{K: KBV, W: 64}
)

func ArrSort(k, v *Sort) *Sort { return &Sort{K: KArray, Key: k, Val: v} }

func (s *Sort) String() string {
	switch s.K {
	case KInt:
		return "Int"
	case KBool:
		return "Bool"
	case KF64:
		return "F64"
	case KStr:
		return "Str"
	case KEvent:
		return "Event"
	case KBV:
		return fmt.Sprintf("(_ BitVec %d)", s.W)
	case KArray:
		return "(Array " + s.Key.String() + " " + s.Val.String() + ")"
	}
	return "?"
}

func (s *Sort) Eq(o *Sort) bool {
	if s.K != o.K {
		return false
	}
	if s.K == KArray {
		return s.Key.Eq(o.Key) && s.Val.Eq(o.Val)
	}
	if s.K == KBV {
		return s.W == o.W
	}
	return true
}

type Term struct {
	S    string
	Sort *Sort
}

func (t Term) String() string { return t.S }
func (t Term) IsZero() bool   { return t.S == "" }

func T(s string, so *Sort) Term { return Term{s, so} }

var (
	TTrue  = Term{"true", SBool}
	TFalse = Term{"false", SBool}
)

func IntLit(n int64) Term {
	if n < 0 {
		if n == math.MinInt64 {
			return Term{"(- 9223372036854775808)", SInt}
		}
		return Term{fmt.Sprintf("(- %d)", -n), SInt}
	}
	return Term{fmt.Sprintf("%d", n), SInt}
}

func UintLit(n uint64) Term { return Term{fmt.Sprintf("%d", n), SInt} }

func BoolLit(b bool) Term {
	if b {
		return TTrue
	}
	return TFalse
}

// F64Lit: a float64 literal is a named constant of the abstract float sort;
// its NaN flag and order key are asserted when the symbol is used (Closure).
func F64Lit(f float64) Term {
	return Term{fmt.Sprintf("|f64:%016x|", math.Float64bits(f)), SF64}
}

// i2fTerm converts an integer term to float64; integer literals become float
// literals (Go rounds to nearest in both constant and run-time conversions).
func i2fTerm(t Term) Term {
	if n, ok := isIntLit(t); ok {
		return F64Lit(float64(n))
	}
	return T("(i2f "+t.S+")", SF64)
}

func f64LitDecl(sym string) string {
	var b uint64
	fmt.Sscanf(sym, "|f64:%x|", &b)
	f := math.Float64frombits(b)
	if f != f {
		return fmt.Sprintf("(declare-fun %s () F64)\n(assert (fnan %s))\n", sym, sym)
	}
	var key string
	mag := b & 0x7fffffffffffffff
	if b>>63 == 1 && mag != 0 {
		key = fmt.Sprintf("(- %d)", mag)
	} else {
		key = fmt.Sprintf("%d", mag)
	}
	return fmt.Sprintf("(declare-fun %s () F64)\n(assert (and (not (fnan %s)) (= (fkey %s) %s)))\n", sym, sym, sym, key)
}

func app(so *Sort, op string, args ...Term) Term {
	var sb strings.Builder
	sb.WriteByte('(')
	sb.WriteString(op)
	for _, a := range args {
		sb.WriteByte(' ')
		sb.WriteString(a.S)
	}
	sb.WriteByte(')')
	return Term{sb.String(), so}
}

func Not(a Term) Term {
	switch a.S {
	case "true":
		return TFalse
	case "false":
		return TTrue
	}
	if strings.HasPrefix(a.S, "(not ") {
		return Term{a.S[5 : len(a.S)-1], SBool}
	}
	return app(SBool, "not", a)
}

func And(as ...Term) Term {
	var out []Term
	for _, a := range as {
		if a.S == "true" {
			continue
		}
		if a.S == "false" {
			return TFalse
		}
		out = append(out, a)
	}
	if len(out) == 0 {
		return TTrue
	}
	if len(out) == 1 {
		return out[0]
	}
	return app(SBool, "and", out...)
}

func Or(as ...Term) Term {
	var out []Term
	for _, a := range as {
		if a.S == "false" {
			continue
		}
		if a.S == "true" {
			return TTrue
		}
		out = append(out, a)
	}
	if len(out) == 0 {
		return TFalse
	}
	if len(out) == 1 {
		return out[0]
	}
	return app(SBool, "or", out...)
}

func Implies(a, b Term) Term {
	if a.S == "true" {
		return b
	}
	if a.S == "false" || b.S == "true" {
		return TTrue
	}
	return app(SBool, "=>", a, b)
}

func Iff(a, b Term) Term { return app(SBool, "=", a, b) }

func Eq(a, b Term) Term {
	if a.S == b.S {
		if a.Sort.K != KF64 {
			return TTrue
		}
	}
	if !a.Sort.Eq(b.Sort) {
		panic(fmt.Sprintf("Eq: sort mismatch %s:%s vs %s:%s", a.S, a.Sort, b.S, b.Sort))
	}
	if a.Sort.K == KInt {
		if x, ok := litValue(a.S); ok {
			if y, ok := litValue(b.S); ok {
				return BoolLit(x == y)
			}
		}
	}
	if a.Sort.K == KBool && (a.S == "true" || a.S == "false") && (b.S == "true" || b.S == "false") {
		return BoolLit(a.S == b.S)
	}
	return app(SBool, "=", a, b)
}

func Neq(a, b Term) Term { return Not(Eq(a, b)) }

func Ite(c, a, b Term) Term {
	if c.S == "true" {
		return a
	}
	if c.S == "false" {
		return b
	}
	if a.S == b.S {
		return a
	}
	return app(a.Sort, "ite", c, a, b)
}

// litValue parses integer literals including negative ones "(- n)".
func litValue(s string) (string, bool) {
	if strings.HasPrefix(s, "(- ") && strings.HasSuffix(s, ")") {
		inner := s[3 : len(s)-1]
		for _, c := range inner {
			if c < '0' || c > '9' {
				return "", false
			}
		}
		return "-" + inner, inner != ""
	}
	for _, c := range s {
		if c < '0' || c > '9' {
			return "", false
		}
	}
	return s, s != ""
}

func isIntLit(t Term) (int64, bool) {
	var n int64
	if _, err := fmt.Sscanf(t.S, "%d", &n); err == nil && fmt.Sprintf("%d", n) == t.S {
		return n, true
	}
	return 0, false
}

func Add(a, b Term) Term {
	if x, ok := isIntLit(a); ok {
		if y, ok := isIntLit(b); ok && x < 1<<40 && y < 1<<40 {
			return IntLit(x + y)
		}
		if x == 0 {
			return b
		}
	}
	if y, ok := isIntLit(b); ok && y == 0 {
		return a
	}
	return app(SInt, "+", a, b)
}
func Sub(a, b Term) Term {
	if y, ok := isIntLit(b); ok && y == 0 {
		return a
	}
	if x, ok := isIntLit(a); ok {
		if y, ok := isIntLit(b); ok && x < 1<<40 && y < 1<<40 && x >= y {
			return IntLit(x - y)
		}
	}
	return app(SInt, "-", a, b)
}
func Mul(a, b Term) Term { return app(SInt, "*", a, b) }

// IX is the position of element i of a slice with offset off. It is an
// uninterpreted function with the axiom ix(o,i) = o+i, so that quantifier
// triggers over element reads do not contain arithmetic.
func IX(off, i Term) Term {
	// literal positions stay literals (stores through array pointers use
	// them); everything else is an ix term so that patterns can mention it
	if o, ok := isIntLit(off); ok {
		if k, ok := isIntLit(i); ok && o < 1<<40 && k < 1<<40 {
			return IntLit(o + k)
		}
	}
	return app(SInt, "ix", off, i)
}
func Neg(a Term) Term { return app(SInt, "-", a) }
func cmpLit(a, b Term) (int, bool) {
	x, ok1 := isIntLit(a)
	y, ok2 := isIntLit(b)
	if !ok1 || !ok2 {
		return 0, false
	}
	switch {
	case x < y:
		return -1, true
	case x > y:
		return 1, true
	}
	return 0, true
}
func Lt(a, b Term) Term {
	if c, ok := cmpLit(a, b); ok {
		return BoolLit(c < 0)
	}
	return app(SBool, "<", a, b)
}
func Le(a, b Term) Term {
	if c, ok := cmpLit(a, b); ok {
		return BoolLit(c <= 0)
	}
	return app(SBool, "<=", a, b)
}
func Gt(a, b Term) Term {
	if c, ok := cmpLit(a, b); ok {
		return BoolLit(c > 0)
	}
	return app(SBool, ">", a, b)
}
func Ge(a, b Term) Term {
	if c, ok := cmpLit(a, b); ok {
		return BoolLit(c >= 0)
	}
	return app(SBool, ">=", a, b)
}

// storeParts remembers the structure of store terms (and of the names given to
// them) so that reads can be resolved syntactically (read-over-write).
var storeParts = map[string][3]Term{}
var constArrays = map[string]Term{}

func Select(a, i Term) Term {
	if a.Sort.K != KArray {
		panic("Select on non-array " + a.S + " : " + a.Sort.String())
	}
	if !a.Sort.Key.Eq(i.Sort) {
		panic(fmt.Sprintf("Select: key sort mismatch %s[%s:%s]", a.Sort, i.S, i.Sort))
	}
	cur := a
	for n := 0; n < 64; n++ {
		if v, ok := constArrays[cur.S]; ok {
			return v
		}
		p, ok := storeParts[cur.S]
		if !ok {
			break
		}
		if p[1].S == i.S {
			return p[2]
		}
		if !syntacticallyDistinct(p[1], i) {
			break
		}
		cur = p[0]
	}
	return app(a.Sort.Val, "select", cur, i)
}

// syntacticallyDistinct: two integer terms that denote different values in
// every model: different literals, or the same base plus different offsets.
func syntacticallyDistinct(x, y Term) bool {
	if x.Sort.K != KInt || y.Sort.K != KInt {
		return false
	}
	bx, ox, okx := baseOffset(x.S)
	by, oy, oky := baseOffset(y.S)
	if !okx || !oky {
		return false
	}
	return bx == by && ox != oy
}

func baseOffset(s string) (base string, off int64, ok bool) {
	var n int64
	if _, err := fmt.Sscanf(s, "%d", &n); err == nil && fmt.Sprintf("%d", n) == s {
		return "", n, true
	}
	if strings.HasPrefix(s, "(+ ") && strings.HasSuffix(s, ")") {
		body := s[3 : len(s)-1]
		k := strings.LastIndexByte(body, ' ')
		if k > 0 {
			if _, err := fmt.Sscanf(body[k+1:], "%d", &n); err == nil && fmt.Sprintf("%d", n) == body[k+1:] && !strings.ContainsAny(body[:k], " ()") {
				return body[:k], n, true
			}
		}
		return "", 0, false
	}
	if !strings.ContainsAny(s, " ()") {
		return s, 0, true
	}
	return "", 0, false
}

func Store(a, i, v Term) Term {
	if a.Sort.K != KArray {
		panic("Store on non-array " + a.S)
	}
	if !a.Sort.Val.Eq(v.Sort) {
		panic(fmt.Sprintf("Store: value sort mismatch array %s value %s:%s", a.Sort, v.S, v.Sort))
	}
	if !a.Sort.Key.Eq(i.Sort) {
		panic(fmt.Sprintf("Store: key sort mismatch array %s key %s:%s", a.Sort, i.S, i.Sort))
	}
	t := app(a.Sort, "store", a, i, v)
	storeParts[t.S] = [3]Term{a, i, v}
	return t
}

// constArrDecls: constant arrays whose element is not a builtin value (cvc5
// only accepts values in "as const") are declared symbols with an axiom.
var constArrDecls = map[string]string{}
var constArrAxioms = map[string]string{}

func ConstArray(so *Sort, v Term) Term {
	builtin := v.Sort.K == KInt || v.Sort.K == KBool
	if _, lit := isIntLit(v); v.Sort.K == KInt && !lit && !strings.HasPrefix(v.S, "(- ") {
		builtin = false
	}
	if v.Sort.K == KArray {
		if _, ok := constArrays[v.S]; ok && strings.HasPrefix(v.S, "((as const") {
			builtin = true
		}
	}
	if builtin {
		t := Term{"((as const " + so.String() + ") " + v.S + ")", so}
		constArrays[t.S] = v
		return t
	}
	name := "|carr:" + strings.ReplaceAll(so.String(), "|", "!") + ":" + strings.ReplaceAll(v.S, "|", "!") + "|"
	if _, ok := constArrDecls[name]; !ok {
		constArrDecls[name] = fmt.Sprintf("(declare-fun %s () %s)\n", name, so)
		constArrAxioms[name] = fmt.Sprintf("(assert (forall ((i!c %s)) (! (= (select %s i!c) %s) :pattern ((select %s i!c)))))\n", so.Key, name, v.S, name)
	}
	t := Term{name, so}
	constArrays[name] = v
	return t
}

func Forall(vars []Term, body Term) Term { return quant("forall", vars, body) }
func Exists(vars []Term, body Term) Term { return quant("exists", vars, body) }

// ForallPat: universally quantified formula with explicit instantiation
// patterns (one multi-pattern per entry of pats).
func ForallPat(vars []Term, pats [][]Term, body Term) Term {
	if len(vars) == 0 || body.S == "true" {
		return body
	}
	var sb strings.Builder
	sb.WriteString("(forall (")
	for _, v := range vars {
		sb.WriteString("(" + v.S + " " + v.Sort.String() + ")")
	}
	sb.WriteString(") (! " + body.S)
	for _, p := range pats {
		sb.WriteString(" :pattern (")
		for i, t := range p {
			if i > 0 {
				sb.WriteString(" ")
			}
			sb.WriteString(t.S)
		}
		sb.WriteString(")")
	}
	sb.WriteString("))")
	return Term{sb.String(), SBool}
}

func quant(q string, vars []Term, body Term) Term {
	if len(vars) == 0 {
		return body
	}
	if body.S == "true" || body.S == "false" {
		return body
	}
	var sb strings.Builder
	sb.WriteString("(" + q + " (")
	for _, v := range vars {
		sb.WriteString("(" + v.S + " " + v.Sort.String() + ")")
	}
	sb.WriteString(") " + body.S + ")")
	return Term{sb.String(), SBool}
}

// zero value term of a sort
func ZeroOf(so *Sort) Term {
	switch so.K {
	case KInt:
		return IntLit(0)
	case KBool:
		return TFalse
	case KF64:
		return F64Lit(0)
	case KStr:
		return Term{"strEmpty", SStr}
	case KEvent:
		return Term{"evNone", SEvent}
	case KArray:
		return ConstArray(so, ZeroOf(so.Val))
	case KBV:
		return Term{fmt.Sprintf("(_ bv0 %d)", so.W), so}
	}
	panic("ZeroOf")
}

// ---------------------------------------------------------------------------
// Ctx: global symbol table (declarations and definitions), shared by all
// paths of all functions of one run. Append-only.

type symKind int

const (
	symDecl symKind = iota
	symDef
	symAxiom
)

type Sym struct {
	Name   string
	Kind   symKind
	Text   string   // full SMT-LIB command
	Deps   []string // symbols mentioned in Text (excluding Name)
	Always bool
}

type Ctx struct {
	syms      map[string]*Sym
	order     []string
	n         int
	noDefine  int
	canonMemo map[string]string
	axioms    []*Sym // global axioms, included when any of their trigger symbols is used
}

func NewCtx() *Ctx {
	c := &Ctx{syms: map[string]*Sym{}}
	return c
}

func quoteSym(s string) string {
	simple := true
	for _, r := range s {
		if !(r >= 'a' && r <= 'z' || r >= 'A' && r <= 'Z' || r >= '0' && r <= '9' || r == '_' || r == '.' || r == '$' || r == '!') {
			simple = false
			break
		}
	}
	if simple && len(s) > 0 && !(s[0] >= '0' && s[0] <= '9') {
		return s
	}
	s = strings.ReplaceAll(s, "|", "!")
	s = strings.ReplaceAll(s, "\\", "!")
	return "|" + s + "|"
}

// Fresh declares a fresh constant.
func (c *Ctx) Fresh(prefix string, so *Sort) Term {
	c.n++
	name := quoteSym(fmt.Sprintf("%s!%d", prefix, c.n))
	c.add(&Sym{Name: name, Kind: symDecl, Text: fmt.Sprintf("(declare-fun %s () %s)", name, so)})
	return Term{name, so}
}

// Const declares (once) a named constant.
func (c *Ctx) Const(name string, so *Sort) Term {
	name = quoteSym(name)
	if _, ok := c.syms[name]; !ok {
		c.add(&Sym{Name: name, Kind: symDecl, Text: fmt.Sprintf("(declare-fun %s () %s)", name, so)})
	}
	return Term{name, so}
}

// Func declares (once) an uninterpreted function and returns its symbol.
func (c *Ctx) Func(name string, args []*Sort, res *Sort) string {
	name = quoteSym(name)
	if _, ok := c.syms[name]; !ok {
		var as []string
		for _, a := range args {
			as = append(as, a.String())
		}
		c.add(&Sym{Name: name, Kind: symDecl, Text: fmt.Sprintf("(declare-fun %s (%s) %s)", name, strings.Join(as, " "), res)})
	}
	return name
}

// Define names a term.
func (c *Ctx) Define(prefix string, t Term) Term {
	if c.noDefine > 0 {
		return t
	}
	if len(t.S) < 40 && !strings.HasPrefix(t.S, "(store") {
		return t
	}
	c.n++
	name := quoteSym(fmt.Sprintf("%s!%d", prefix, c.n))
	c.add(&Sym{Name: name, Kind: symDef, Text: fmt.Sprintf("(define-fun %s () %s %s)", name, t.Sort, t.S), Deps: symbolsIn(t.S)})
	if p, ok := storeParts[t.S]; ok {
		storeParts[name] = p
	}
	if v, ok := constArrays[t.S]; ok {
		constArrays[name] = v
	}
	return Term{name, t.Sort}
}

// DefineFun defines a named function with parameters (macro).
func (c *Ctx) DefineFun(name string, params []Term, res *Sort, body Term) string {
	name = quoteSym(name)
	if _, ok := c.syms[name]; ok {
		return name
	}
	var ps []string
	for _, p := range params {
		ps = append(ps, "("+p.S+" "+p.Sort.String()+")")
	}
	c.add(&Sym{Name: name, Kind: symDef, Text: fmt.Sprintf("(define-fun %s (%s) %s %s)", name, strings.Join(ps, " "), res, body.S), Deps: symbolsIn(body.S)})
	return name
}

// Axiom registers a global axiom that is included in a query whenever one of
// the trigger symbols appears in it.
func (c *Ctx) Axiom(id string, triggers []string, body Term) {
	id = quoteSym("ax:" + id)
	if _, ok := c.syms[id]; ok {
		return
	}
	s := &Sym{Name: id, Kind: symAxiom, Text: "(assert " + body.S + ")", Deps: symbolsIn(body.S)}
	for i := range triggers {
		triggers[i] = quoteSym(triggers[i])
	}
	s.Text = "(assert " + body.S + ")"
	c.syms[id] = s
	c.axioms = append(c.axioms, s)
	axTriggers[id] = triggers
}

var axTriggers = map[string][]string{}

// Canon expands named definitions in a term text so that two loads of the same
// location get the same string (used for lock-set keys).
func (c *Ctx) Canon(text string) string {
	if c.canonMemo == nil {
		c.canonMemo = map[string]string{}
	}
	var sb strings.Builder
	i := 0
	for i < len(text) {
		ch := text[i]
		if ch == '(' || ch == ')' || ch == ' ' {
			sb.WriteByte(ch)
			i++
			continue
		}
		j := i
		if ch == '|' {
			k := strings.IndexByte(text[i+1:], '|')
			if k < 0 {
				sb.WriteString(text[i:])
				break
			}
			j = i + k + 2
		} else {
			for j < len(text) && text[j] != '(' && text[j] != ')' && text[j] != ' ' {
				j++
			}
		}
		tok := text[i:j]
		if m, ok := c.canonMemo[tok]; ok {
			sb.WriteString(m)
		} else if sym, ok := c.syms[tok]; ok && sym.Kind == symDef && strings.HasPrefix(sym.Text, "(define-fun "+tok+" () ") {
			body := sym.Text[len("(define-fun "+tok+" () "):]
			// skip the sort
			depth, k := 0, 0
			for k < len(body) {
				if body[k] == '(' {
					depth++
				} else if body[k] == ')' {
					depth--
				} else if body[k] == ' ' && depth == 0 {
					break
				}
				k++
			}
			exp := c.Canon(strings.TrimSuffix(strings.TrimSpace(body[k:]), ")"))
			c.canonMemo[tok] = exp
			sb.WriteString(exp)
		} else {
			sb.WriteString(tok)
		}
		i = j
	}
	return sb.String()
}

func (c *Ctx) add(s *Sym) {
	c.syms[s.Name] = s
	c.order = append(c.order, s.Name)
}

// symbolsIn tokenises SMT text and returns the identifiers.
func symbolsIn(s string) []string {
	var out []string
	seen := map[string]bool{}
	i := 0
	for i < len(s) {
		ch := s[i]
		switch {
		case ch == '(' || ch == ')' || ch == ' ' || ch == '\n' || ch == '\t':
			i++
		case ch == '|':
			j := strings.IndexByte(s[i+1:], '|')
			if j < 0 {
				return out
			}
			tok := s[i : i+j+2]
			if !seen[tok] {
				seen[tok] = true
				out = append(out, tok)
			}
			i += j + 2
		case ch == '"':
			j := strings.IndexByte(s[i+1:], '"')
			if j < 0 {
				return out
			}
			i += j + 2
		default:
			j := i
			for j < len(s) && s[j] != '(' && s[j] != ')' && s[j] != ' ' && s[j] != '\n' && s[j] != '\t' {
				j++
			}
			tok := s[i:j]
			if !seen[tok] {
				seen[tok] = true
				out = append(out, tok)
			}
			i = j
		}
	}
	return out
}

// Closure returns the SMT preamble (declarations, definitions, axioms) needed
// by the given texts, in declaration order.
func (c *Ctx) Closure(texts ...string) string {
	need := map[string]bool{}
	var work []string
	push := func(toks []string) {
		for _, t := range toks {
			if _, ok := c.syms[t]; ok && !need[t] {
				need[t] = true
				work = append(work, t)
			}
		}
	}
	for _, t := range texts {
		push(symbolsIn(t))
	}
	for {
		for len(work) > 0 {
			n := work[len(work)-1]
			work = work[:len(work)-1]
			push(c.syms[n].Deps)
		}
		// axioms triggered
		added := false
		for _, ax := range c.axioms {
			if need[ax.Name] {
				continue
			}
			for _, tr := range axTriggers[ax.Name] {
				if need[tr] {
					need[ax.Name] = true
					push(ax.Deps)
					added = true
					break
				}
			}
		}
		if !added && len(work) == 0 {
			break
		}
	}
	var sb strings.Builder
	lits := map[string]bool{}
	collect := func(text string) {
		for _, t := range symbolsIn(text) {
			if strings.HasPrefix(t, "|f64:") {
				lits[t] = true
			}
		}
	}
	for _, t := range texts {
		collect(t)
	}
	for n := range need {
		collect(c.syms[n].Text)
	}
	var ls []string
	for l := range lits {
		ls = append(ls, l)
	}
	sort.Strings(ls)
	for _, l := range ls {
		sb.WriteString(f64LitDecl(l))
	}
	// constant arrays over non-builtin element sorts (after literals, which
	// their axioms may mention); collect transitively
	carr := map[string]bool{}
	var collectC func(text string)
	collectC = func(text string) {
		for _, t := range symbolsIn(text) {
			if strings.HasPrefix(t, "|carr:") && !carr[t] {
				carr[t] = true
			}
		}
	}
	for _, t := range texts {
		collectC(t)
	}
	for n := range need {
		collectC(c.syms[n].Text)
	}
	var cs []string
	for k := range carr {
		cs = append(cs, k)
	}
	sort.Strings(cs)
	var carrText, carrDecl strings.Builder
	for _, k := range cs {
		carrDecl.WriteString(constArrDecls[k])
		carrText.WriteString(constArrAxioms[k])
	}
	// literals mentioned only inside constant-array axioms
	for _, t := range symbolsIn(carrText.String()) {
		if strings.HasPrefix(t, "|f64:") && !lits[t] {
			lits[t] = true
			sb.WriteString(f64LitDecl(t))
		}
	}
	sb.WriteString(carrDecl.String())
	for _, n := range c.order {
		if need[n] {
			sb.WriteString(c.syms[n].Text)
			sb.WriteByte('\n')
		}
	}
	sb.WriteString(carrText.String())
	var axs []string
	for _, ax := range c.axioms {
		if need[ax.Name] {
			axs = append(axs, ax.Text)
		}
	}
	sort.Strings(axs)
	for _, a := range axs {
		sb.WriteString(a)
		sb.WriteByte('\n')
	}
	return sb.String()
}

const smtPrelude = `(set-option :produce-models true)
(set-logic ALL)
(declare-sort Str 0)
(declare-sort Event 0)
(declare-sort F64 0)
(declare-fun fnan (F64) Bool)
(declare-fun fkey (F64) Int)
(define-fun f64.lt ((x F64) (y F64)) Bool (and (not (fnan x)) (not (fnan y)) (< (fkey x) (fkey y))))
(define-fun f64.leq ((x F64) (y F64)) Bool (and (not (fnan x)) (not (fnan y)) (<= (fkey x) (fkey y))))
(define-fun f64.gt ((x F64) (y F64)) Bool (and (not (fnan x)) (not (fnan y)) (> (fkey x) (fkey y))))
(define-fun f64.geq ((x F64) (y F64)) Bool (and (not (fnan x)) (not (fnan y)) (>= (fkey x) (fkey y))))
(define-fun f64.eq ((x F64) (y F64)) Bool (and (not (fnan x)) (not (fnan y)) (= (fkey x) (fkey y))))
(define-fun f64.isNaN ((x F64)) Bool (fnan x))
(define-fun f64.isPosInf ((x F64)) Bool (and (not (fnan x)) (= (fkey x) 9218868437227405312)))
(define-fun f64.isNegInf ((x F64)) Bool (and (not (fnan x)) (= (fkey x) (- 9218868437227405312))))
(declare-fun f64.neg (F64) F64)
(declare-fun f64.add (F64 F64) F64)
(declare-fun f64.sub (F64 F64) F64)
(declare-fun f64.mul (F64 F64) F64)
(declare-fun f64.div (F64 F64) F64)
(declare-fun i2f (Int) F64)
(assert (forall ((x F64)) (! (and (<= (- 9218868437227405312) (fkey x)) (<= (fkey x) 9218868437227405312)) :pattern ((fkey x)))))
(assert (forall ((x F64)) (! (and (= (fnan (f64.neg x)) (fnan x)) (= (fkey (f64.neg x)) (- (fkey x)))) :pattern ((f64.neg x)))))
(declare-fun strEmpty () Str)
(declare-fun evNone () Event)
(declare-fun slen (Str) Int)
(declare-fun sconcat (Str Str) Str)
(declare-fun ssub (Str Int Int) Str)
(declare-fun sbyte (Str Int) Int)
(assert (forall ((a Str) (b Str)) (! (= (ssub (sconcat a b) 0 (slen a)) a) :pattern ((ssub (sconcat a b) 0 (slen a))))))
(declare-fun sdrop (Str Int) Str)
(declare-fun bytestr (Int) Str)
(assert (forall ((c Int)) (! (and (= (slen (bytestr c)) 1) (= (sbyte (bytestr c) 0) c)) :pattern ((bytestr c)))))
(assert (forall ((a Str) (b Str)) (! (and (= (sdrop (sconcat a b) (slen a)) b) (= (ssub (sconcat a b) 0 (slen a)) a) (= (slen (sconcat a b)) (+ (slen a) (slen b)))) :pattern ((sconcat a b)))))
(assert (forall ((a Str)) (! (and (= (sconcat strEmpty a) a) (= (sconcat a strEmpty) a)) :pattern ((sconcat strEmpty a)) :pattern ((sconcat a strEmpty)))))
(declare-fun ix (Int Int) Int)
(assert (forall ((o Int) (i Int)) (! (= (ix o i) (+ o i)) :pattern ((ix o i)))))
(declare-fun ixmark (Int) Bool)
(assert (forall ((x Int)) (! (ixmark x) :pattern ((ixmark x)))))
(assert (forall ((s Str)) (! (and (<= 0 (slen s)) (<= (slen s) 4611686018427387904) (= (= (slen s) 0) (= s strEmpty))) :pattern ((slen s)))))
(define-fun wrap64 ((x Int)) Int (ite (and (<= (- 9223372036854775808) x) (<= x 9223372036854775807)) x (- (mod (+ x 9223372036854775808) 18446744073709551616) 9223372036854775808)))
(define-fun wrapu64 ((x Int)) Int (ite (and (<= 0 x) (<= x 18446744073709551615)) x (mod x 18446744073709551616)))
(define-fun wrap32 ((x Int)) Int (ite (and (<= (- 2147483648) x) (<= x 2147483647)) x (- (mod (+ x 2147483648) 4294967296) 2147483648)))
(define-fun wrapu32 ((x Int)) Int (ite (and (<= 0 x) (<= x 4294967295)) x (mod x 4294967296)))
(define-fun wrap16 ((x Int)) Int (ite (and (<= (- 32768) x) (<= x 32767)) x (- (mod (+ x 32768) 65536) 32768)))
(define-fun wrapu16 ((x Int)) Int (ite (and (<= 0 x) (<= x 65535)) x (mod x 65536)))
(define-fun wrap8 ((x Int)) Int (ite (and (<= (- 128) x) (<= x 127)) x (- (mod (+ x 128) 256) 128)))
(define-fun wrapu8 ((x Int)) Int (ite (and (<= 0 x) (<= x 255)) x (mod x 256)))
`
