package main

import (
	"fmt"
	"go/constant"
	"go/token"
	"go/types"
	"strings"

	"golang.org/x/tools/go/ssa"
)

// frame of one function activation being explored.
type frame struct {
	fn    *ssa.Function
	top   bool
	rets  []*State
	loops map[*ssa.BasicBlock]*loopInfo
	steps int
}

const maxPaths = 6000

func (e *Engine) pos(p token.Pos) string {
	if !p.IsValid() {
		return ""
	}
	pp := e.prog.Fset.Position(p)
	return fmt.Sprintf("%s:%d", pp.Filename, pp.Line)
}

// val evaluates an SSA value in a state.
func (e *Engine) val(st *State, v ssa.Value) Value {
	switch x := v.(type) {
	case *ssa.Const:
		return e.constVal(st, x)
	case *ssa.Global:
		return PtrV{Global: x, RootT: x.Type().(*types.Pointer).Elem(), Elem: x.Type().(*types.Pointer).Elem()}
	case *ssa.Function:
		return ClosureV{Fn: x}
	case *ssa.Builtin:
		return x
	}
	if r, ok := st.env[v]; ok {
		return r
	}
	panic(unsupported(fmt.Sprintf("no value for %s (%T) in %s", v.Name(), v, v.Parent())))
}

func (e *Engine) term(st *State, v ssa.Value) Term {
	x := e.val(st, v)
	t, ok := x.(Term)
	if !ok {
		panic(unsupported(fmt.Sprintf("expected scalar for %s, got %T", v.Name(), x)))
	}
	return t
}

func (e *Engine) constVal(st *State, c *ssa.Const) Value {
	t := c.Type()
	if c.Value == nil {
		return e.zeroValue(t)
	}
	switch u := t.Underlying().(type) {
	case *types.Basic:
		switch {
		case u.Info()&types.IsBoolean != 0:
			return BoolLit(constant.BoolVal(c.Value))
		case u.Info()&types.IsInteger != 0:
			return constIntTerm(c.Value)
		case u.Info()&types.IsFloat != 0:
			f, _ := constant.Float64Val(c.Value)
			return F64Lit(f)
		case u.Info()&types.IsString != 0:
			return e.strLit(st, constant.StringVal(c.Value))
		}
	}
	panic(unsupported("constant of type " + t.String()))
}

func constIntTerm(v constant.Value) Term {
	v = constant.ToInt(v)
	s := v.ExactString()
	if strings.HasPrefix(s, "-") {
		return T("(- "+s[1:]+")", SInt)
	}
	return T(s, SInt)
}

// strLit returns the constant for a string literal with its facts.
func (e *Engine) strLit(st *State, s string) Term {
	if s == "" {
		return T("strEmpty", SStr)
	}
	name := "str:" + fmt.Sprintf("%q", s)
	t := e.ctx.Const(name, SStr)
	if _, ok := e.strLits[s]; !ok {
		id := len(e.strLits) + 1
		e.strLits[s] = id
		idf := e.ctx.Func("strLitId", []*Sort{SStr}, SInt)
		facts := []Term{
			Eq(T("(slen "+t.S+")", SInt), IntLit(int64(len(s)))),
			Eq(T("("+idf+" "+t.S+")", SInt), IntLit(int64(id))),
		}
		if len(s) == 1 {
			facts = append(facts, Eq(t, T(fmt.Sprintf("(bytestr %d)", s[0]), SStr)))
		}
		if len(s) <= 24 {
			for i := 0; i < len(s); i++ {
				facts = append(facts, Eq(T(fmt.Sprintf("(sbyte %s %d)", t.S, i), SInt), IntLit(int64(s[i]))))
			}
		}
		e.ctx.Axiom("strlit:"+name, []string{name}, And(facts...))
		e.ctx.Axiom("strlit:empty", []string{"strLitId"}, And(Eq(T("(slen strEmpty)", SInt), IntLit(0)), Eq(T("("+idf+" strEmpty)", SInt), IntLit(0))))
	}
	return t
}

// strFacts: string length facts are global axioms (see smtPrelude).
func (e *Engine) strFacts(st *State, v Term) {}

func slen(s Term) Term { return T("(slen "+s.S+")", SInt) }

func (e *Engine) sconcat(st *State, a, b Term) Term {
	if a.S == "strEmpty" {
		return b
	}
	if b.S == "strEmpty" {
		return a
	}
	r := e.ctx.Define("cat", T("(sconcat "+a.S+" "+b.S+")", SStr))
	st.assume(Eq(slen(r), Add(slen(a), slen(b))))
	e.strFacts(st, r)
	return r
}

// ---------------------------------------------------------------------------

// runFunction explores all paths of fn from the given state and returns the
// states at its returns (retVal set). top marks the function under contract
// (loops are cut with its invariants).
func (e *Engine) runFunction(st *State, fn *ssa.Function, args []Value, bind []Value, top bool) []*State {
	if fn.Blocks == nil {
		panic(unsupported("no body for " + fn.String()))
	}
	if st.depth > 12 {
		panic(unsupported("inline depth exceeded at " + fn.String()))
	}
	fr := &frame{fn: fn, top: top, loops: e.loopsOf(fn)}
	if !top && len(fr.loops) > 0 {
		// loops in an inlined callee are only allowed when the callee's
		// contract gives invariants (handled by caller) – otherwise refuse.
		if c := e.contractOf(fn); c == nil || len(c.LoopInv) == 0 {
			panic(unsupported("inlined callee with loops needs a contract: " + fn.String() + " (path: " + strings.Join(st.trail, "; ") + ")"))
		}
	}
	for i, p := range fn.Params {
		st.env[p] = args[i]
	}
	for i, fv := range fn.FreeVars {
		st.env[fv] = bind[i]
	}
	st.defers = append(st.defers, nil)
	st.depth++
	e.execFrom(st, fr, fn.Blocks[0], 0, nil)
	for _, r := range fr.rets {
		r.depth--
		r.defers = r.defers[:len(r.defers)-1]
	}
	return fr.rets
}

func (e *Engine) enter(st *State, fr *frame, b *ssa.BasicBlock, pred *ssa.BasicBlock) {
	fr.steps++
	if fr.steps > maxPaths {
		panic(unsupported("path explosion in " + fr.fn.String()))
	}
	if li, ok := fr.loops[b]; ok {
		if !e.atLoopHead(st, fr, li, pred) {
			return
		}
	}
	e.execFrom(st, fr, b, 0, pred)
}

func (e *Engine) execFrom(st *State, fr *frame, b *ssa.BasicBlock, i int, pred *ssa.BasicBlock) {
	for ; i < len(b.Instrs); i++ {
		switch ins := b.Instrs[i].(type) {
		case *ssa.If:
			c := e.term(st, ins.Cond)
			if c.S == "true" || st.known[c.S] {
				e.enter(st, fr, b.Succs[0], b)
				return
			}
			nc := Not(c)
			if c.S == "false" || st.known[nc.S] {
				e.enter(st, fr, b.Succs[1], b)
				return
			}
			st2 := st.clone()
			st.assume(c)
			st.trail = append(st.trail, fmt.Sprintf("%s: true", e.pos(ins.Cond.Pos())))
			e.enter(st, fr, b.Succs[0], b)
			st2.assume(nc)
			st2.trail = append(st2.trail, fmt.Sprintf("%s: false", e.pos(ins.Cond.Pos())))
			e.enter(st2, fr, b.Succs[1], b)
			return
		case *ssa.Jump:
			e.enter(st, fr, b.Succs[0], b)
			return
		case *ssa.Return:
			switch len(ins.Results) {
			case 0:
				st.retVal = nil
			case 1:
				st.retVal = e.val(st, ins.Results[0])
			default:
				var tv TupleV
				for _, r := range ins.Results {
					tv = append(tv, e.val(st, r))
				}
				st.retVal = tv
			}
			fr.rets = append(fr.rets, st)
			return
		case *ssa.Panic:
			e.onPanic(st, fr, ins)
			return
		case *ssa.Call:
			if fr.top && e.cur != nil {
				e.runHooks(st, e.cur.hooksBefore[ins], ins.Pos())
			}
			outs := e.doCall(st, ins.Common(), ins, ins.Pos())
			for _, o := range outs {
				if o.panicked {
					continue
				}
				e.execFrom(o, fr, b, i+1, pred)
			}
			return
		case *ssa.RunDefers:
			outs := e.runDefers(st)
			for _, o := range outs {
				e.execFrom(o, fr, b, i+1, pred)
			}
			return
		case *ssa.Phi:
			idx := -1
			for k, p := range b.Preds {
				if p == pred {
					idx = k
				}
			}
			if idx < 0 {
				panic(unsupported("phi without predecessor"))
			}
			st.env[ins] = e.val(st, ins.Edges[idx])
		default:
			e.execInstr(st, fr, b.Instrs[i])
			if fr.top && e.cur != nil {
				if _, isStore := b.Instrs[i].(*ssa.Store); isStore {
					e.runHooks(st, e.cur.hooksAfter[b.Instrs[i]], b.Instrs[i].Pos())
				}
			}
		}
	}
}

func (e *Engine) onPanic(st *State, fr *frame, ins *ssa.Panic) {
	// an explicit panic: allowed only where the contract of the function under
	// verification says so.
	vc := e.cur
	if vc != nil && vc.c != nil && vc.c.Panics != nil && fr.top {
		cond := e.evalSpecBool(vc.specEnv(st), vc.c.Panics.Expr)
		e.oblige(st, "panic", "only_when_specified", cond, ins.Pos())
		return
	}
	e.oblige(st, "safe", "no_explicit_panic", TFalse, ins.Pos())
}

func (e *Engine) runDefers(st *State) []*State {
	ds := st.defers[len(st.defers)-1]
	st.defers[len(st.defers)-1] = nil
	states := []*State{st}
	for i := len(ds) - 1; i >= 0; i-- {
		d := ds[i]
		var next []*State
		for _, s := range states {
			outs := e.doCallValues(s, d.call, d.fnv, d.args, nil, d.pos)
			next = append(next, outs...)
		}
		states = next
	}
	return states
}

// checkNil emits the nil-dereference obligation for a pointer.
func (e *Engine) checkNil(st *State, p PtrV, pos token.Pos) {
	if p.Cell > 0 || p.Global != nil {
		return
	}
	if len(p.Path) > 0 && p.Path[0].Field < 0 {
		// array-rooted element pointer: bounds were checked at IndexAddr
		return
	}
	nz := Neq(p.Ref, IntLit(0))
	if st.known[nz.S] || strings.HasPrefix(p.Ref.S, "(+ nextRef") || strings.HasPrefix(p.Ref.S, "nextRef") || strings.HasPrefix(p.Ref.S, "|nextRef") {
		return
	}
	e.oblige(st, "safe", "nil_deref", nz, pos)
}

func (e *Engine) execInstr(st *State, fr *frame, instr ssa.Instruction) {
	switch ins := instr.(type) {
	case *ssa.DebugRef:
	case *ssa.Alloc:
		et := ins.Type().(*types.Pointer).Elem()
		_, isArr := et.Underlying().(*types.Array)
		if ins.Heap || isArr {
			ref := st.alloc()
			p := PtrV{Ref: ref, RootT: et, Elem: et}
			if at, ok := et.Underlying().(*types.Array); ok {
				for _, ks := range e.leafKeys(e.rootKey(et)+"[]", at.Elem(), 1) {
					a := st.heapArr(ks.Key, ks.Sort)
					e.noteHeapKey(ks.Key, ks.Sort)
					st.setHeapArr(ks.Key, Store(a, ref, ZeroOf(ks.Sort.Val)))
				}
			} else {
				e.storeAt(st, e.rootKey(et), ref, nil, et, e.zeroValue(et))
			}
			st.env[ins] = p
		} else {
			e.cellN++
			st.cells[e.cellN] = e.zeroValue(et)
			st.env[ins] = PtrV{Cell: e.cellN, RootT: et, Elem: et}
		}
	case *ssa.Store:
		p := e.val(st, ins.Addr).(PtrV)
		e.checkNil(st, p, ins.Pos())
		e.checkWrite(st, p, ins.Pos())
		e.checkInitOnlyStore(st, ins, p)
		e.store(st, p, ins.Val.Type(), e.val(st, ins.Val))
	case *ssa.UnOp:
		st.env[ins] = e.unop(st, ins)
	case *ssa.BinOp:
		if isRangeIndexIncr(ins) {
			// the hidden counter of a range loop over a slice/array/string:
			// -1 <= rangeindex < len, so rangeindex + 1 never overflows
			st.env[ins] = Add(e.term(st, ins.X), IntLit(1))
		} else {
			st.env[ins] = e.binop(st, ins.Op, e.val(st, ins.X), e.val(st, ins.Y), ins.X.Type(), ins.Type(), ins.Pos())
		}
	case *ssa.FieldAddr:
		p := e.val(st, ins.X).(PtrV)
		e.checkNil(st, p, ins.Pos())
		ft := ins.Type().(*types.Pointer).Elem()
		st.env[ins] = p.field(ins.Field, ft)
	case *ssa.Field:
		sv, ok := e.val(st, ins.X).(StructV)
		if !ok {
			panic(unsupported("Field of non-struct value"))
		}
		st.env[ins] = sv.F[ins.Field]
	case *ssa.IndexAddr:
		st.env[ins] = e.indexAddr(st, ins)
	case *ssa.Index:
		st.env[ins] = e.indexVal(st, ins)
	case *ssa.Lookup:
		st.env[ins] = e.lookup(st, ins)
	case *ssa.Slice:
		st.env[ins] = e.sliceOp(st, ins)
	case *ssa.MakeSlice:
		st.env[ins] = e.makeSlice(st, ins.Type().Underlying().(*types.Slice).Elem(), e.term(st, ins.Len), e.term(st, ins.Cap), ins.Pos())
	case *ssa.MakeMap:
		st.env[ins] = e.makeMap(st, ins.Type().Underlying().(*types.Map))
	case *ssa.MakeChan:
		r := st.alloc()
		e.chanSet(st, r, "closed", TFalse)
		st.env[ins] = r
	case *ssa.MakeClosure:
		var bind []Value
		for _, b := range ins.Bindings {
			bind = append(bind, e.val(st, b))
		}
		st.env[ins] = ClosureV{Fn: ins.Fn.(*ssa.Function), Bind: bind}
	case *ssa.MakeInterface:
		st.env[ins] = e.makeInterface(st, ins.X.Type(), e.val(st, ins.X))
	case *ssa.ChangeInterface:
		st.env[ins] = e.val(st, ins.X)
	case *ssa.ChangeType:
		v := e.val(st, ins.X)
		if sv, ok := v.(StructV); ok {
			sv.T = ins.Type()
			v = sv
		}
		st.env[ins] = v
	case *ssa.Convert:
		st.env[ins] = e.convert(st, ins)
	case *ssa.TypeAssert:
		st.env[ins] = e.typeAssert(st, ins)
	case *ssa.Extract:
		tv, ok := e.val(st, ins.Tuple).(TupleV)
		if !ok {
			panic(unsupported("extract from non-tuple"))
		}
		st.env[ins] = tv[ins.Index]
	case *ssa.Range:
		st.env[ins] = e.rangeInit(st, ins)
	case *ssa.Next:
		st.env[ins] = e.next(st, ins)
	case *ssa.MapUpdate:
		e.mapUpdate(st, ins)
	case *ssa.Defer:
		var args []Value
		for _, a := range ins.Call.Args {
			args = append(args, e.val(st, a))
		}
		var fnv Value
		if !ins.Call.IsInvoke() {
			fnv = e.val(st, ins.Call.Value)
		} else {
			fnv = e.val(st, ins.Call.Value)
		}
		cc := ins.Call
		st.defers[len(st.defers)-1] = append(st.defers[len(st.defers)-1], deferred{call: &cc, args: args, fnv: fnv, pos: ins.Pos()})
	case *ssa.Go:
		e.goStmt(st, ins)
	case *ssa.Send:
		e.chanSend(st, ins)
	case *ssa.Select:
		st.env[ins] = e.selectOp(st, ins)
	default:
		panic(unsupported(fmt.Sprintf("instruction %T (%s) at %s", instr, instr, e.pos(instr.Pos()))))
	}
}

// checkWrite hooks the lock discipline (writes to protected fields).
func (e *Engine) checkWrite(st *State, p PtrV, pos token.Pos) {
	if e.cur == nil || e.cur.discipline == nil {
		return
	}
	e.cur.discipline.onAccess(e, st, p, true, pos)
}

func (e *Engine) unop(st *State, ins *ssa.UnOp) Value {
	switch ins.Op {
	case token.MUL:
		p, ok := e.val(st, ins.X).(PtrV)
		if !ok {
			panic(unsupported("load through non-pointer"))
		}
		e.checkNil(st, p, ins.Pos())
		if e.cur != nil && e.cur.discipline != nil {
			e.cur.discipline.onAccess(e, st, p, false, ins.Pos())
		}
		if p.Global != nil {
			if v, ok := e.globalConst(st, p, ins.Type()); ok {
				return v
			}
		}
		lv := e.load(st, p, ins.Type())
		if e.cur != nil && e.cur.discipline != nil {
			e.cur.discipline.afterLoad(e, st, p, lv)
		}
		return lv
	case token.NOT:
		return Not(e.term(st, ins.X))
	case token.SUB:
		x := e.term(st, ins.X)
		if isFloat(ins.Type()) {
			return app(SF64, "f64.neg", x)
		}
		return e.wrap(ins.Type(), Neg(x))
	case token.ARROW:
		return e.chanRecv(st, ins)
	case token.XOR:
		x := e.term(st, ins.X)
		f := e.ctx.Func("bitnot:"+shortType(ins.Type()), []*Sort{SInt}, SInt)
		r := T("("+f+" "+x.S+")", SInt)
		e.assumeTyped(st, r, ins.Type())
		return r
	}
	panic(unsupported("unop " + ins.Op.String()))
}

// isRangeIndexIncr recognises go/ssa's `rangeindex + 1` of a range loop.
func isRangeIndexIncr(ins *ssa.BinOp) bool {
	if ins.Op != token.ADD {
		return false
	}
	c, ok := ins.Y.(*ssa.Const)
	if !ok || c.Value == nil || c.Value.ExactString() != "1" {
		return false
	}
	u, ok := ins.X.(*ssa.UnOp)
	if !ok || u.Op != token.MUL {
		return false
	}
	a, ok := u.X.(*ssa.Alloc)
	return ok && a.Comment == "rangeindex"
}

func (e *Engine) wrap(t types.Type, x Term) Term {
	if !isInteger(t) {
		return x
	}
	if _, ok := isIntLit(x); ok {
		return x
	}
	return T("("+wrapFn(t)+" "+x.S+")", SInt)
}

func (e *Engine) binop(st *State, op token.Token, xv, yv Value, xt types.Type, rt types.Type, pos token.Pos) Value {
	// comparisons on structured values
	switch op {
	case token.EQL, token.NEQ:
		eq := e.valuesEqual(st, xv, yv, xt)
		if op == token.NEQ {
			return Not(eq)
		}
		return eq
	}
	x, ok1 := xv.(Term)
	y, ok2 := yv.(Term)
	if !ok1 || !ok2 {
		panic(unsupported(fmt.Sprintf("binop %s on %T,%T", op, xv, yv)))
	}
	switch {
	case isFloat(xt):
		switch op {
		case token.ADD:
			return app(SF64, "f64.add", x, y)
		case token.SUB:
			return app(SF64, "f64.sub", x, y)
		case token.MUL:
			return app(SF64, "f64.mul", x, y)
		case token.QUO:
			return app(SF64, "f64.div", x, y)
		case token.LSS:
			return app(SBool, "f64.lt", x, y)
		case token.LEQ:
			return app(SBool, "f64.leq", x, y)
		case token.GTR:
			return app(SBool, "f64.gt", x, y)
		case token.GEQ:
			return app(SBool, "f64.geq", x, y)
		}
	case isString(xt):
		switch op {
		case token.ADD:
			return e.sconcat(st, x, y)
		case token.LSS:
			return e.sless(x, y)
		case token.GTR:
			return e.sless(y, x)
		case token.LEQ:
			return Not(e.sless(y, x))
		case token.GEQ:
			return Not(e.sless(x, y))
		}
	case isBool(xt):
		switch op {
		case token.LAND:
			return And(x, y)
		case token.LOR:
			return Or(x, y)
		}
	case isInteger(xt):
		switch op {
		case token.ADD:
			return e.wrap(rt, Add(x, y))
		case token.SUB:
			return e.wrap(rt, Sub(x, y))
		case token.MUL:
			return e.wrap(rt, Mul(x, y))
		case token.QUO:
			e.oblige(st, "safe", "div_by_zero", Neq(y, IntLit(0)), pos)
			if _, signed := intRange(xt); !signed {
				return T("(div "+x.S+" "+y.S+")", SInt)
			}
			return e.wrap(rt, e.tdiv(x, y))
		case token.REM:
			e.oblige(st, "safe", "div_by_zero", Neq(y, IntLit(0)), pos)
			if _, signed := intRange(xt); !signed {
				return T("(mod "+x.S+" "+y.S+")", SInt)
			}
			return Sub(x, Mul(y, e.tdiv(x, y)))
		case token.LSS:
			return Lt(x, y)
		case token.LEQ:
			return Le(x, y)
		case token.GTR:
			return Gt(x, y)
		case token.GEQ:
			return Ge(x, y)
		case token.SHL:
			if n, ok := isIntLit(y); ok && n < 63 {
				return e.wrap(rt, Mul(x, IntLit(1<<uint(n))))
			}
		case token.SHR:
			if n, ok := isIntLit(y); ok && n < 63 {
				return T(fmt.Sprintf("(div %s %d)", x.S, int64(1)<<uint(n)), SInt)
			}
		case token.AND:
			if n, ok := isIntLit(y); ok && n > 0 && (n+1)&n == 0 {
				return T(fmt.Sprintf("(mod %s %d)", x.S, n+1), SInt)
			}
		}
		// bit operations: uninterpreted (sound over-approximation)
		f := e.ctx.Func("bitop:"+op.String()+":"+shortType(rt), []*Sort{SInt, SInt}, SInt)
		r := T("("+f+" "+x.S+" "+y.S+")", SInt)
		e.assumeTyped(st, r, rt)
		e.note("bit operation " + op.String() + " treated as uninterpreted")
		return r
	}
	panic(unsupported(fmt.Sprintf("binop %s on %s", op, xt)))
}

func (e *Engine) tdiv(x, y Term) Term {
	name := e.ctx.DefineFun("tdiv", []Term{T("a", SInt), T("b", SInt)}, SInt,
		T("(ite (>= a 0) (ite (> b 0) (div a b) (- (div a (- b)))) (ite (> b 0) (- (div (- a) b)) (div (- a) (- b))))", SInt))
	return T("("+name+" "+x.S+" "+y.S+")", SInt)
}

// sless: the byte-wise order of Go strings. Strings are a countable linear
// order, so they embed into the reals: sless(a,b) is skey(a) < skey(b) with an
// injective skey (see smtPrelude); the order axioms are then arithmetic.
func (e *Engine) sless(a, b Term) Term {
	e.slessUsed = true
	// declared on first use only: a Real-sorted symbol in the prelude changes
	// the solver's strategy for every query, also those without strings
	if _, ok := e.ctx.syms["sless"]; !ok {
		e.ctx.add(&Sym{Name: "skey", Kind: symDecl, Text: "(declare-fun skey (Str) Real)"})
		e.ctx.add(&Sym{Name: "sunkey", Kind: symDecl, Text: "(declare-fun sunkey (Real) Str)"})
		e.ctx.add(&Sym{Name: "sless", Kind: symDef, Text: "(define-fun sless ((a Str) (b Str)) Bool (< (skey a) (skey b)))", Deps: []string{"skey"}})
		av := T("a", SStr)
		e.ctx.Axiom("sless:order", []string{"sless"}, ForallPat([]Term{av}, [][]Term{{T("(skey a)", SInt)}},
			And(Eq(T("(sunkey (skey a))", SStr), av), T("(<= (skey strEmpty) (skey a))", SBool))))
	}
	return T("(sless "+a.S+" "+b.S+")", SBool)
}

// valuesEqual implements Go's == on symbolic values.
func (e *Engine) valuesEqual(st *State, xv, yv Value, t types.Type) Term {
	switch x := xv.(type) {
	case Term:
		y := yv.(Term)
		if x.Sort.K == KF64 {
			return app(SBool, "f64.eq", x, y)
		}
		return Eq(x, y)
	case PtrV:
		y := yv.(PtrV)
		if x.Cell == 0 && y.Cell == 0 && x.Global == nil && y.Global == nil && len(x.Path) == 0 && len(y.Path) == 0 {
			return Eq(x.Ref, y.Ref)
		}
		if x.isNilConst() {
			return BoolLit(false == (y.Cell > 0 || y.Global != nil || len(y.Path) > 0)) // non-root pointers are never nil
		}
		if y.isNilConst() {
			if x.Cell > 0 || x.Global != nil || len(x.Path) > 0 {
				return TFalse
			}
		}
		panic(unsupported("comparison of interior pointers"))
	case IfaceV:
		y := yv.(IfaceV)
		if y.Tag.S == "0" {
			return Eq(x.Tag, IntLit(0))
		}
		if x.Tag.S == "0" {
			return Eq(y.Tag, IntLit(0))
		}
		e.note("interface == interface compared by identity of dynamic value")
		return And(Eq(x.Tag, y.Tag), Eq(x.Pay, y.Pay))
	case SliceV:
		y := yv.(SliceV)
		if y.Arr.S == "0" {
			return Eq(x.Arr, IntLit(0))
		}
		if x.Arr.S == "0" {
			return Eq(y.Arr, IntLit(0))
		}
	case OpaqueFn:
		if y, ok := yv.(OpaqueFn); ok && y.ID.S == "0" {
			return Eq(x.ID, IntLit(0))
		}
	case ClosureV:
		if y, ok := yv.(OpaqueFn); ok && y.ID.S == "0" {
			return TFalse
		}
	case StructV:
		y := yv.(StructV)
		var cs []Term
		stt := x.T.Underlying().(*types.Struct)
		for i := range x.F {
			cs = append(cs, e.valuesEqual(st, x.F[i], y.F[i], stt.Field(i).Type()))
		}
		return And(cs...)
	case ArrayV:
		y := yv.(ArrayV)
		var cs []Term
		for i := range x.E {
			cs = append(cs, e.valuesEqual(st, x.E[i], y.E[i], x.T.Elem()))
		}
		return And(cs...)
	}
	panic(unsupported(fmt.Sprintf("== on %T / %T", xv, yv)))
}

// arrRootT is the pseudo root type of the backing array of a slice.
func arrRootT(elem types.Type) types.Type { return types.NewSlice(elem) }

func (e *Engine) elemPtr(s SliceV, i Term) PtrV {
	return PtrV{Ref: s.Arr, RootT: arrRootT(s.Elem), Elem: s.Elem,
		Path: []Step{{Field: -1, Index: IX(s.Off, i), T: s.Elem}}}
}

func (e *Engine) indexAddr(st *State, ins *ssa.IndexAddr) Value {
	i := e.term(st, ins.Index)
	switch x := e.val(st, ins.X).(type) {
	case SliceV:
		e.oblige(st, "safe", "index_in_range", And(Le(IntLit(0), i), Lt(i, x.Len)), ins.Pos())
		return e.elemPtr(x, i)
	case PtrV:
		at, ok := x.Elem.Underlying().(*types.Array)
		if !ok {
			panic(unsupported("IndexAddr on pointer to non-array"))
		}
		e.checkNil(st, x, ins.Pos())
		e.oblige(st, "safe", "index_in_range", And(Le(IntLit(0), i), Lt(i, IntLit(at.Len()))), ins.Pos())
		return x.index(i, at.Elem())
	}
	panic(unsupported("IndexAddr"))
}

func (e *Engine) indexVal(st *State, ins *ssa.Index) Value {
	i := e.term(st, ins.Index)
	switch x := e.val(st, ins.X).(type) {
	case ArrayV:
		n, ok := isIntLit(i)
		if !ok {
			panic(unsupported("symbolic index of array value"))
		}
		return x.E[n]
	case Term: // string
		e.oblige(st, "safe", "index_in_range", And(Le(IntLit(0), i), Lt(i, slen(x))), ins.Pos())
		r := T("(sbyte "+x.S+" "+i.S+")", SInt)
		st.assume(And(Le(IntLit(0), r), Le(r, IntLit(255))))
		return r
	}
	panic(unsupported("Index"))
}

func (e *Engine) sliceOp(st *State, ins *ssa.Slice) Value {
	var lo, hi Term
	hasHi := ins.High != nil
	if ins.Low != nil {
		lo = e.term(st, ins.Low)
	} else {
		lo = IntLit(0)
	}
	var mx Term
	hasMax := ins.Max != nil
	if hasMax {
		mx = e.term(st, ins.Max)
	}
	switch x := e.val(st, ins.X).(type) {
	case SliceV:
		if hasHi {
			hi = e.term(st, ins.High)
		} else {
			hi = x.Len
		}
		if hasMax {
			// s[lo:hi:max]: capacity max-lo
			e.oblige(st, "safe", "slice_bounds", And(Le(IntLit(0), lo), Le(lo, hi), Le(hi, mx), Le(mx, x.Cap)), ins.Pos())
			return SliceV{Arr: x.Arr, Off: Add(x.Off, lo), Len: Sub(hi, lo), Cap: Sub(mx, lo), Elem: x.Elem}
		}
		e.oblige(st, "safe", "slice_bounds", And(Le(IntLit(0), lo), Le(lo, hi), Le(hi, x.Cap)), ins.Pos())
		return SliceV{Arr: x.Arr, Off: Add(x.Off, lo), Len: Sub(hi, lo), Cap: Sub(x.Cap, lo), Elem: x.Elem}
	case Term: // string
		if hasMax {
			panic(unsupported("3-index slice of a string"))
		}
		if hasHi {
			hi = e.term(st, ins.High)
		} else {
			hi = slen(x)
		}
		e.oblige(st, "safe", "slice_bounds", And(Le(IntLit(0), lo), Le(lo, hi), Le(hi, slen(x))), ins.Pos())
		return e.ssub(st, x, lo, hi)
	case PtrV:
		at, ok := x.Elem.Underlying().(*types.Array)
		if !ok {
			panic(unsupported("slice of pointer to non-array"))
		}
		if x.Cell > 0 || x.Global != nil || len(x.Path) > 0 {
			panic(unsupported("slice of a non-root array pointer"))
		}
		e.checkNil(st, x, ins.Pos())
		n := IntLit(at.Len())
		if hasHi {
			hi = e.term(st, ins.High)
		} else {
			hi = n
		}
		if hasMax {
			e.oblige(st, "safe", "slice_bounds", And(Le(IntLit(0), lo), Le(lo, hi), Le(hi, mx), Le(mx, n)), ins.Pos())
			return SliceV{Arr: x.Ref, Off: lo, Len: Sub(hi, lo), Cap: Sub(mx, lo), Elem: at.Elem()}
		}
		e.oblige(st, "safe", "slice_bounds", And(Le(IntLit(0), lo), Le(lo, hi), Le(hi, n)), ins.Pos())
		return SliceV{Arr: x.Ref, Off: lo, Len: Sub(hi, lo), Cap: Sub(n, lo), Elem: at.Elem()}
	}
	panic(unsupported("Slice"))
}

func (e *Engine) ssub(st *State, s, lo, hi Term) Term {
	r := e.ctx.Define("sub", T("(ssub "+s.S+" "+lo.S+" "+hi.S+")", SStr))
	st.assume(Eq(slen(r), Sub(hi, lo)))
	st.assume(Implies(And(Eq(lo, IntLit(0)), Eq(hi, slen(s))), Eq(r, s)))
	e.strFacts(st, r)
	return r
}

func (e *Engine) makeSlice(st *State, elem types.Type, n, c Term, pos token.Pos) Value {
	e.oblige(st, "safe", "makeslice_len", And(Le(IntLit(0), n), Le(n, c)), pos)
	arr := st.alloc()
	for _, ks := range e.leafKeys(typeKey(arrRootT(elem))+"[]", elem, 1) {
		// zero the whole backing array
		a := st.heapArr(ks.Key, ks.Sort)
		e.noteHeapKey(ks.Key, ks.Sort)
		st.setHeapArr(ks.Key, Store(a, arr, ZeroOf(ks.Sort.Val)))
	}
	return SliceV{Arr: arr, Off: IntLit(0), Len: n, Cap: c, Elem: elem}
}

// ---------------------------------------------------------------------------
// interfaces

func (e *Engine) typeTag(t types.Type) Term {
	k := typeKey(t)
	if id, ok := e.typeTags[k]; ok {
		return IntLit(int64(id))
	}
	id := len(e.typeTags) + 1
	e.typeTags[k] = id
	e.tagTypes[id] = t
	return IntLit(int64(id))
}

func (e *Engine) makeInterface(st *State, t types.Type, v Value) Value {
	if _, ok := t.Underlying().(*types.Interface); ok {
		return v
	}
	tag := e.typeTag(t)
	switch x := v.(type) {
	case PtrV:
		if x.Cell > 0 || x.Global != nil || len(x.Path) > 0 {
			if x.Global != nil && len(x.Path) == 0 {
				return IfaceV{Tag: tag, Pay: e.ctx.Const("globref:"+x.rootName(e), SInt)}
			}
			panic(unsupported("interior pointer converted to interface"))
		}
		return IfaceV{Tag: tag, Pay: x.Ref}
	case Term:
		if _, isMap := t.Underlying().(*types.Map); isMap {
			return IfaceV{Tag: tag, Pay: x}
		}
	}
	ref := st.alloc()
	e.storeAt(st, "ibox:"+e.rootKey(t), ref, nil, t, v)
	return IfaceV{Tag: tag, Pay: ref}
}

func (e *Engine) unbox(st *State, iv IfaceV, t types.Type) Value {
	switch u := t.Underlying().(type) {
	case *types.Pointer:
		return PtrV{Ref: iv.Pay, RootT: u.Elem(), Elem: u.Elem()}
	case *types.Map:
		return iv.Pay
	}
	return e.loadAt(st, "ibox:"+e.rootKey(t), iv.Pay, nil, t)
}

func (e *Engine) implementsTerm(tag Term, it types.Type) Term {
	f := e.ctx.Func("implements:"+typeKey(it), []*Sort{SInt}, SBool)
	return T("("+f+" "+tag.S+")", SBool)
}

func (e *Engine) typeAssert(st *State, ins *ssa.TypeAssert) Value {
	iv, ok := e.val(st, ins.X).(IfaceV)
	if !ok {
		panic(unsupported("TypeAssert on non-interface"))
	}
	at := ins.AssertedType
	var okT Term
	var res Value
	if _, isIface := at.Underlying().(*types.Interface); isIface {
		okT = And(Neq(iv.Tag, IntLit(0)), e.implementsTerm(iv.Tag, at))
		// a static type that already implements the asserted interface
		if types.Implements(ins.X.Type(), at.Underlying().(*types.Interface)) {
			okT = Neq(iv.Tag, IntLit(0))
		}
		res = iv
	} else {
		okT = Eq(iv.Tag, e.typeTag(at))
		res = e.unbox(st, iv, at)
	}
	if ins.CommaOk {
		// on failure the value is the zero value; keep the unboxed one guarded by ok
		return TupleV{e.iteValue(st, okT, res, e.zeroValue(at)), okT}
	}
	e.oblige(st, "safe", "type_assertion", okT, ins.Pos())
	return res
}

// iteValue builds if-then-else over structured values.
func (e *Engine) iteValue(st *State, c Term, a, b Value) Value {
	if c.S == "true" {
		return a
	}
	if c.S == "false" {
		return b
	}
	switch x := a.(type) {
	case Term:
		return Ite(c, x, b.(Term))
	case PtrV:
		y := b.(PtrV)
		if x.Cell == 0 && y.Cell == 0 && x.Global == nil && y.Global == nil && len(x.Path) == 0 && len(y.Path) == 0 {
			return PtrV{Ref: Ite(c, x.Ref, y.Ref), RootT: x.RootT, Elem: x.Elem}
		}
	case SliceV:
		y := b.(SliceV)
		return SliceV{Arr: Ite(c, x.Arr, y.Arr), Off: Ite(c, x.Off, y.Off), Len: Ite(c, x.Len, y.Len), Cap: Ite(c, x.Cap, y.Cap), Elem: x.Elem}
	case IfaceV:
		y := b.(IfaceV)
		return IfaceV{Tag: Ite(c, x.Tag, y.Tag), Pay: Ite(c, x.Pay, y.Pay)}
	case StructV:
		y := b.(StructV)
		r := StructV{T: x.T}
		for i := range x.F {
			r.F = append(r.F, e.iteValue(st, c, x.F[i], y.F[i]))
		}
		return r
	case OpaqueFn:
		if y, ok := b.(OpaqueFn); ok {
			return OpaqueFn{ID: Ite(c, x.ID, y.ID), Sig: x.Sig}
		}
	case nil:
		return nil
	}
	panic(unsupported(fmt.Sprintf("ite over %T", a)))
}

// ---------------------------------------------------------------------------
// conversions

func (e *Engine) convert(st *State, ins *ssa.Convert) Value {
	from, to := ins.X.Type(), ins.Type()
	v := e.val(st, ins.X)
	switch {
	case isInteger(from) && isInteger(to):
		return e.wrap(to, v.(Term))
	case isInteger(from) && isFloat(to):
		x := v.(Term)
		return i2fTerm(x)
	case isFloat(from) && isFloat(to):
		return v
	case isFloat(from) && isInteger(to):
		f := e.ctx.Func("f2i:"+shortType(to), []*Sort{SF64}, SInt)
		r := T("("+f+" "+v.(Term).S+")", SInt)
		e.assumeTyped(st, r, to)
		e.note("float->int conversion treated as an uninterpreted function")
		return r
	case isString(from) && isString(to):
		return v
	case isString(to):
		if sl, ok := v.(SliceV); ok { // []byte -> string
			return e.bytesToStr(st, sl)
		}
		if isInteger(from) {
			f := e.ctx.Func("rune2str", []*Sort{SInt}, SStr)
			r := T("("+f+" "+v.(Term).S+")", SStr)
			e.strFacts(st, r)
			return r
		}
	case isString(from):
		if st2, ok := to.Underlying().(*types.Slice); ok && isInteger(st2.Elem()) {
			return e.strToBytes(st, v.(Term), st2.Elem())
		}
	}
	if _, ok := to.Underlying().(*types.Pointer); ok {
		if b, ok := from.Underlying().(*types.Basic); ok && b.Kind() == types.UnsafePointer {
			return e.fromUnsafe(st, v, to)
		}
	}
	if b, ok := to.Underlying().(*types.Basic); ok && b.Kind() == types.UnsafePointer {
		return unsafePtr{v}
	}
	panic(unsupported(fmt.Sprintf("convert %s -> %s", from, to)))
}

type unsafePtr struct{ inner Value }

// fromUnsafe handles *(*string)(unsafe.Pointer(&buf)): a pointer to a []byte
// local reinterpreted as a pointer to a string with the same bytes.
func (e *Engine) fromUnsafe(st *State, v Value, to types.Type) Value {
	up, ok := v.(unsafePtr)
	if !ok {
		panic(unsupported("conversion from unsafe.Pointer"))
	}
	p, ok := up.inner.(PtrV)
	if ok && isString(to.(*types.Pointer).Elem()) {
		if sl, ok := p.Elem.Underlying().(*types.Slice); ok && isInteger(sl.Elem()) {
			bv := e.load(st, p, p.Elem).(SliceV)
			s := e.bytesToStr(st, bv)
			e.cellN++
			st.cells[e.cellN] = s
			e.note("unsafe []byte->string header cast modelled as string(buf)")
			return PtrV{Cell: e.cellN, RootT: to.(*types.Pointer).Elem(), Elem: to.(*types.Pointer).Elem()}
		}
	}
	panic(unsupported("conversion from unsafe.Pointer"))
}

// bytesOf is the abstract content of a byte slice as a Str.
func (e *Engine) bytesToStr(st *State, sl SliceV) Term {
	key := typeKey(arrRootT(sl.Elem)) + "[]"
	arr := st.heapArr(key, arrSortFor(1, SInt))
	e.noteHeapKey(key, arrSortFor(1, SInt))
	f := e.ctx.Func("bytes2str", []*Sort{ArrSort(SInt, SInt), SInt, SInt}, SStr)
	r := e.ctx.Define("b2s", T("("+f+" (select "+arr.S+" "+sl.Arr.S+") "+sl.Off.S+" "+sl.Len.S+")", SStr))
	st.assume(Eq(slen(r), sl.Len))
	{
		a, o := T("a!b1", ArrSort(SInt, SInt)), T("o!b1", SInt)
		one := T("("+f+" a!b1 o!b1 1)", SStr)
		e.ctx.Axiom("bytes2str:one", []string{"bytes2str"}, ForallPat([]Term{a, o}, [][]Term{{one}}, Eq(one, T("(bytestr (select a!b1 (ix o!b1 0)))", SStr))))
	}
	e.strFacts(st, r)
	return r
}

func (e *Engine) strToBytes(st *State, s Term, elem types.Type) Value {
	arr := st.alloc()
	key := typeKey(arrRootT(elem)) + "[]"
	so := arrSortFor(1, SInt)
	e.noteHeapKey(key, so)
	a := st.heapArr(key, so)
	f := e.ctx.Func("str2bytes", []*Sort{SStr}, ArrSort(SInt, SInt))
	b2s := e.ctx.Func("bytes2str", []*Sort{ArrSort(SInt, SInt), SInt, SInt}, SStr)
	x := T("s!q", SStr)
	e.ctx.Axiom("str2bytes:inverse", []string{"str2bytes"},
		Forall([]Term{x}, Eq(T("("+b2s+" ("+f+" s!q) 0 (slen s!q))", SStr), x)))
	st.setHeapArr(key, Store(a, arr, T("("+f+" "+s.S+")", ArrSort(SInt, SInt))))
	return SliceV{Arr: arr, Off: IntLit(0), Len: slen(s), Cap: slen(s), Elem: elem}
}

func (e *Engine) note(s string) {
	if e.cur != nil {
		e.cur.notes[s] = true
	}
}
