package tally

// quick-tier: yes (deterministic, sequential, no I/O, < 1 s)
//
// Bounded replay / fall-back driver for property C06 (injected with go test -overlay).
//
// With an alphanumeric+underscore sanitizer, for every derivation program of depth <= 3
// over subscope names and tag maps that contain characters to be replaced (also bytes
// that are not valid UTF-8) and over root prefixes/tags of both kinds, and for all four
// metric kinds: every name, tag key and tag value that reaches the reporter (plain and
// cached allocation) consists of allowed characters only - also when the caller reuses
// and overwrites the maps it handed in, before the metric is first used.  Prints
// DRIVER-FAIL lines.

import (
	"fmt"
	"os"
	"sync"
	"testing"
	"time"
)

type vdC06Rep struct {
	mu   sync.Mutex
	seen []string
}

func (r *vdC06Rep) note(name string, tags map[string]string) {
	r.mu.Lock()
	r.seen = append(r.seen, name)
	for k, v := range tags {
		r.seen = append(r.seen, k, v)
	}
	r.mu.Unlock()
}
func (r *vdC06Rep) Capabilities() Capabilities                                 { return capabilitiesReportingTagging }
func (r *vdC06Rep) Flush()                                                     {}
func (r *vdC06Rep) ReportCounter(n string, t map[string]string, v int64)       { r.note(n, t) }
func (r *vdC06Rep) ReportGauge(n string, t map[string]string, v float64)       { r.note(n, t) }
func (r *vdC06Rep) ReportTimer(n string, t map[string]string, d time.Duration) { r.note(n, t) }
func (r *vdC06Rep) ReportHistogramValueSamples(n string, t map[string]string, b Buckets, lo, hi float64, s int64) {
	r.note(n, t)
}
func (r *vdC06Rep) ReportHistogramDurationSamples(n string, t map[string]string, b Buckets, lo, hi time.Duration, s int64) {
	r.note(n, t)
}

type vdC06Nop struct{}

func (vdC06Nop) ReportCount(int64)         {}
func (vdC06Nop) ReportGauge(float64)       {}
func (vdC06Nop) ReportTimer(time.Duration) {}
func (vdC06Nop) ReportSamples(int64)       {}
func (vdC06Nop) ValueBucket(float64, float64) CachedHistogramBucket {
	return vdC06Nop{}
}
func (vdC06Nop) DurationBucket(time.Duration, time.Duration) CachedHistogramBucket {
	return vdC06Nop{}
}
func (r *vdC06Rep) AllocateCounter(n string, t map[string]string) CachedCount {
	r.note(n, t)
	return vdC06Nop{}
}
func (r *vdC06Rep) AllocateGauge(n string, t map[string]string) CachedGauge {
	r.note(n, t)
	return vdC06Nop{}
}
func (r *vdC06Rep) AllocateTimer(n string, t map[string]string) CachedTimer {
	r.note(n, t)
	return vdC06Nop{}
}
func (r *vdC06Rep) AllocateHistogram(n string, t map[string]string, b Buckets) CachedHistogram {
	r.note(n, t)
	return vdC06Nop{}
}

func vdC06Clean(s string) bool {
	for i := 0; i < len(s); i++ {
		c := s[i]
		if !(c >= 'a' && c <= 'z' || c >= 'A' && c <= 'Z' || c >= '0' && c <= '9' || c == '_') {
			return false
		}
	}
	return true
}

func TestVerifDriverC06(t *testing.T) {
	fails := 0
	fail := func(format string, a ...interface{}) {
		fails++
		if fails <= 20 {
			fmt.Fprintf(os.Stdout, "DRIVER-FAIL: "+format+"\n", a...)
		}
	}
	sopts := SanitizeOptions{
		NameCharacters:       ValidCharacters{Ranges: AlphanumericRange, Characters: UnderscoreCharacters},
		KeyCharacters:        ValidCharacters{Ranges: AlphanumericRange, Characters: UnderscoreCharacters},
		ValueCharacters:      ValidCharacters{Ranges: AlphanumericRange, Characters: UnderscoreCharacters},
		ReplacementCharacter: DefaultReplacementCharacter,
	}
	type op struct {
		sub  bool
		name string
		tags map[string]string
	}
	ops := []op{{sub: true, name: "ok"}, {sub: true, name: "a.b/c"}, {sub: true, name: "x\xffy"},
		{tags: map[string]string{"clean": "value"}}, {tags: map[string]string{"req id": "/users/:id"}}, {tags: map[string]string{"k\xfe": "v\xfd", "z": "1"}}, {tags: map[string]string{}}}
	var progs [][]op
	progs = append(progs, nil)
	for _, a := range ops {
		progs = append(progs, []op{a})
		for _, b := range ops {
			progs = append(progs, []op{a, b})
			for _, c := range ops {
				progs = append(progs, []op{a, b, c})
			}
		}
	}
	type rootCfg struct {
		prefix, sep string
		tags        map[string]string
	}
	roots := []rootCfg{{"", "", nil}, {"my-svc", ".", map[string]string{"env": "prod"}}, {"svc", "_", map[string]string{"e.nv": "pr od"}}}
	cp := func(m map[string]string) map[string]string {
		if m == nil {
			return nil
		}
		c := map[string]string{}
		for k, v := range m {
			c[k] = v
		}
		return c
	}
	for _, cached := range []bool{false, true} {
		for _, rc := range roots {
			for _, prog := range progs {
				rep := &vdC06Rep{}
				rootTags := cp(rc.tags)
				so := ScopeOptions{Prefix: rc.prefix, Separator: rc.sep, Tags: rootTags, SanitizeOptions: &sopts}
				if cached {
					so.CachedReporter = rep
				} else {
					so.Reporter = rep
				}
				root, closer := NewRootScope(so, 0)
				s := root
				var handed []map[string]string
				for _, o := range prog {
					if o.sub {
						s = s.SubScope(o.name)
					} else {
						m := cp(o.tags)
						handed = append(handed, m)
						s = s.Tagged(m)
					}
				}
				// the caller reuses its maps for something else
				for _, m := range append([]map[string]string{rootTags}, handed...) {
					for k := range m {
						m[k] = "dirty value/1"
					}
					if m != nil {
						m["dirty key"] = "x y"
					}
				}
				s.Counter("c.ount").Inc(1)
				s.Gauge("g auge").Update(1)
				s.Timer("t/imer").Record(time.Second)
				s.Histogram("h:ist", ValueBuckets{1, 2}).RecordValue(1)
				closer.Close()
				for _, x := range rep.seen {
					if !vdC06Clean(x) {
						fail("cached=%v root=%+v program=%+v: %q reached the reporter", cached, rc, prog, x)
						break
					}
				}
				if len(rep.seen) == 0 {
					fail("cached=%v root=%+v program=%+v: nothing reached the reporter", cached, rc, prog)
				}
			}
		}
	}
	// several roots with DIFFERENT sanitizers in one process, in every order, with the
	// registry's own cardinality metrics switched on and given tags that need
	// sanitizing: whatever reaches a root's reporter (also the cardinality gauges and
	// their tags) is clean by that root's own rules
	type sanCfg struct {
		label string
		opts  SanitizeOptions
		ok    func(r rune) bool
	}
	alnum := func(r rune) bool { return r >= 'a' && r <= 'z' || r >= 'A' && r <= 'Z' || r >= '0' && r <= '9' }
	cfgs := []sanCfg{
		{"alnum+underscore, replace with _", sopts, func(r rune) bool { return alnum(r) || r == '_' }},
		{"alnum only, replace with X", SanitizeOptions{NameCharacters: ValidCharacters{Ranges: AlphanumericRange}, KeyCharacters: ValidCharacters{Ranges: AlphanumericRange}, ValueCharacters: ValidCharacters{Ranges: AlphanumericRange}, ReplacementCharacter: 'X'}, alnum},
		{"alnum+dot+dash, replace with -", SanitizeOptions{NameCharacters: ValidCharacters{Ranges: AlphanumericRange, Characters: []rune{'.', '-'}}, KeyCharacters: ValidCharacters{Ranges: AlphanumericRange, Characters: []rune{'.', '-'}}, ValueCharacters: ValidCharacters{Ranges: AlphanumericRange, Characters: []rune{'.', '-'}}, ReplacementCharacter: '-'}, func(r rune) bool { return alnum(r) || r == '.' || r == '-' }},
	}
	for _, order := range [][]int{{0, 1, 2}, {1, 2, 0}, {2, 0, 1}, {2, 1, 0}} {
		for _, cached := range []bool{false, true} {
			for _, ci := range order {
				cfg := cfgs[ci]
				rep := &vdC06Rep{}
				o := cfg.opts
				so := ScopeOptions{Prefix: "my svc", Tags: map[string]string{"e nv": "pr/od"}, SanitizeOptions: &o, CardinalityMetricsTags: map[string]string{"data center": "us-east/1"}}
				if cached {
					so.CachedReporter = rep
				} else {
					so.Reporter = rep
				}
				root := newRootScope(so, 0)
				root.Counter("hits total").Inc(1)
				root.Tagged(map[string]string{"req id": "/a"}).Gauge("queue.depth").Update(1)
				root.reportRegistry()
				rep.mu.Lock()
				seen := append([]string{}, rep.seen...)
				rep.mu.Unlock()
				if len(seen) == 0 {
					fail("sanitizer %q (order %v, cached=%v): nothing reached the reporter", cfg.label, order, cached)
				}
				for _, x := range seen {
					for _, r := range x {
						if !cfg.ok(r) {
							fail("sanitizer %q (order %v, cached=%v): %q reached the reporter", cfg.label, order, cached, x)
							break
						}
					}
				}
				root.Close()
			}
		}
	}
	if fails == 0 {
		fmt.Fprintln(os.Stdout, "DRIVER-RESULT: ok")
	} else {
		t.Fatalf("%d failures", fails)
	}
}
