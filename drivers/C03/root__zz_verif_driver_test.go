package tally

// quick-tier: yes (deterministic, sequential, no I/O, < 1 s)
//
// BOUNDED replay / fall-back driver for property C03 (injected with go test -overlay).
// For a family of bucket specifications (value and duration; sorted, unsorted,
// duplicated, negative, zero, single element, 64 bounds) and samples at every bound, one
// ulp / one nanosecond either side of it, the extremes, the non-finite floats and pseudo
// random points (seed VERIF_SEED), through plain and cached reporters: every sample is
// delivered in exactly the bucket with the smallest upper bound >= the sample, with the
// lower bound of that bucket in the tiling of the sorted specification (first lower =
// minimum, last upper = maximum); +Inf goes to the last, -Inf to the first bucket, a NaN
// to at most one; delivered counts add up to the number of samples recorded (NaNs
// optionally left out); a value histogram ignores durations and vice versa; nothing
// panics.  Prints DRIVER-FAIL lines.

import (
	"fmt"
	"math"
	"math/rand"
	"os"
	"sort"
	"strconv"
	"testing"
	"time"
)

type vdC03Ev struct {
	lo, hi   float64
	dlo, dhi time.Duration
	n        int64
	dur      bool
}

type vdC03Rep struct{ evs map[string][]vdC03Ev }

func (r *vdC03Rep) Capabilities() Capabilities                           { return capabilitiesReportingTagging }
func (r *vdC03Rep) Flush()                                               {}
func (r *vdC03Rep) ReportCounter(string, map[string]string, int64)       {}
func (r *vdC03Rep) ReportGauge(string, map[string]string, float64)       {}
func (r *vdC03Rep) ReportTimer(string, map[string]string, time.Duration) {}
func (r *vdC03Rep) ReportHistogramValueSamples(name string, _ map[string]string, _ Buckets, lo, hi float64, n int64) {
	r.evs[name] = append(r.evs[name], vdC03Ev{lo: lo, hi: hi, n: n})
}
func (r *vdC03Rep) ReportHistogramDurationSamples(name string, _ map[string]string, _ Buckets, lo, hi time.Duration, n int64) {
	r.evs[name] = append(r.evs[name], vdC03Ev{dlo: lo, dhi: hi, n: n, dur: true})
}

type vdC03Bucket struct {
	r    *vdC03Rep
	name string
	ev   vdC03Ev
}

func (b vdC03Bucket) ReportSamples(n int64) {
	e := b.ev
	e.n = n
	b.r.evs[b.name] = append(b.r.evs[b.name], e)
}

type vdC03Hist struct {
	r    *vdC03Rep
	name string
}

func (h vdC03Hist) ValueBucket(lo, hi float64) CachedHistogramBucket {
	return vdC03Bucket{h.r, h.name, vdC03Ev{lo: lo, hi: hi}}
}
func (h vdC03Hist) DurationBucket(lo, hi time.Duration) CachedHistogramBucket {
	return vdC03Bucket{h.r, h.name, vdC03Ev{dlo: lo, dhi: hi, dur: true}}
}

type vdC03Nop struct{}

func (vdC03Nop) ReportCount(int64)         {}
func (vdC03Nop) ReportGauge(float64)       {}
func (vdC03Nop) ReportTimer(time.Duration) {}

type vdC03Cached struct{ r *vdC03Rep }

func (c vdC03Cached) Capabilities() Capabilities                            { return capabilitiesReportingTagging }
func (c vdC03Cached) Flush()                                                {}
func (c vdC03Cached) AllocateCounter(string, map[string]string) CachedCount { return vdC03Nop{} }
func (c vdC03Cached) AllocateGauge(string, map[string]string) CachedGauge   { return vdC03Nop{} }
func (c vdC03Cached) AllocateTimer(string, map[string]string) CachedTimer   { return vdC03Nop{} }
func (c vdC03Cached) AllocateHistogram(name string, _ map[string]string, _ Buckets) CachedHistogram {
	return vdC03Hist{c.r, name}
}

func TestVerifDriverC03(t *testing.T) {
	seed := int64(1)
	if s, err := strconv.ParseInt(os.Getenv("VERIF_SEED"), 10, 64); err == nil {
		seed = s
	}
	rng := rand.New(rand.NewSource(seed))
	fails := 0
	fail := func(format string, a ...interface{}) {
		fails++
		if fails <= 20 {
			fmt.Printf("DRIVER-FAIL: "+format+"\n", a...)
		}
	}
	lin64 := MustMakeLinearValueBuckets(-10, 0.5, 64)
	vspecs := []ValueBuckets{
		{1, 2, 5}, {5, 1, 2}, {1, 1, 2}, {2, 1, 1, 2}, {-3, 0, 3}, {7}, {0}, {-1e300, 1e300},
		MustMakeExponentialValueBuckets(1, 2, 8), lin64, {1, 3}, {1.5, 2},
	}
	dspecs := []DurationBuckets{
		{time.Millisecond, time.Second, time.Minute}, {time.Minute, time.Millisecond, time.Second},
		{time.Second, time.Second, 2 * time.Second}, {-time.Second, 0, time.Second}, {5 * time.Second}, {0},
		MustMakeExponentialDurationBuckets(time.Millisecond, 2, 10), {time.Second, 4 * time.Second}, {2 * time.Second, 3 * time.Second},
		{math.MinInt64 + 1, math.MaxInt64 - 1},
	}
	cases := 0
	for _, cached := range []bool{false, true} {
		rep := &vdC03Rep{evs: map[string][]vdC03Ev{}}
		opts := ScopeOptions{OmitCardinalityMetrics: true}
		if cached {
			opts.CachedReporter = vdC03Cached{rep}
		} else {
			opts.Reporter = rep
		}
		root := newRootScope(opts, 0)
		pass := func() {
			root.reportRegistry()
		}
		// value histograms
		for si, spec := range vspecs {
			name := fmt.Sprintf("v%d", si)
			orig := append(ValueBuckets{}, spec...)
			h := root.SubScope(fmt.Sprintf("s%d", si%3)).Histogram(name, spec)
			full := root.SubScope(fmt.Sprintf("s%d", si%3)).(*scope).fullyQualifiedName(name)
			sorted := append([]float64{}, orig...)
			sort.Float64s(sorted)
			var samples []float64
			for _, b := range sorted {
				samples = append(samples, b, math.Nextafter(b, math.Inf(1)), math.Nextafter(b, math.Inf(-1)))
			}
			samples = append(samples, 0, -0.0, math.MaxFloat64, -math.MaxFloat64, math.SmallestNonzeroFloat64, math.Inf(1), math.Inf(-1))
			for i := 0; i < 20; i++ {
				samples = append(samples, sorted[0]+(sorted[len(sorted)-1]-sorted[0]+2)*rng.Float64()-1)
			}
			want := map[[2]float64]int64{}
			for _, v := range samples {
				h.RecordValue(v)
				h.RecordDuration(time.Duration(rng.Int63())) // must be ignored
				i := sort.SearchFloat64s(sorted, v)          // first bound >= v
				lo, hi := -math.MaxFloat64, math.MaxFloat64
				if i < len(sorted) {
					hi = sorted[i]
				}
				if i > 0 {
					lo = sorted[i-1]
				}
				want[[2]float64{lo, hi}]++
			}
			h.RecordValue(math.NaN())
			pass()
			got := map[[2]float64]int64{}
			var total int64
			for _, e := range rep.evs[full] {
				if e.dur {
					fail("cached=%v value spec %v: a duration bucket was delivered", cached, orig)
				}
				got[[2]float64{e.lo, e.hi}] += e.n
				total += e.n
				if e.n <= 0 {
					fail("cached=%v value spec %v: bucket (%v, %v] delivered with count %d", cached, orig, e.lo, e.hi, e.n)
				}
			}
			nanExtra := total - int64(len(samples))
			if nanExtra != 0 && nanExtra != 1 {
				fail("cached=%v value spec %v: %d samples recorded (+1 NaN), %d delivered", cached, orig, len(samples), total)
			}
			mismatch := 0
			for k, n := range want {
				if got[k] != n && got[k] != n+nanExtra {
					mismatch++
					fail("cached=%v value spec %v: bucket (%v, %v]: %d samples expected, %d delivered", cached, orig, k[0], k[1], n, got[k])
				}
			}
			for k, n := range got {
				if _, ok := want[k]; !ok && !(nanExtra == 1 && n == 1) {
					fail("cached=%v value spec %v: delivered (%v, %v] x%d is not a bucket of the specification that received samples", cached, orig, k[0], k[1], n)
				}
			}
			for i := range orig {
				if spec[i] != orig[i] && !(len(spec) == len(orig)) {
					fail("caller's value specification modified: %v -> %v", orig, spec)
				}
			}
			cases++
		}
		// duration histograms
		for si, spec := range dspecs {
			name := fmt.Sprintf("d%d", si)
			orig := append(DurationBuckets{}, spec...)
			h := root.Tagged(map[string]string{"t": strconv.Itoa(si % 2)}).Histogram(name, spec)
			sorted := append([]time.Duration{}, orig...)
			sort.Slice(sorted, func(i, j int) bool { return sorted[i] < sorted[j] })
			var samples []time.Duration
			for _, b := range sorted {
				samples = append(samples, b, b+1, b-1)
			}
			samples = append(samples, 0, 1, -1, math.MaxInt64, math.MinInt64)
			for i := 0; i < 20; i++ {
				samples = append(samples, time.Duration(rng.Int63n(int64(3*time.Minute)))-time.Minute)
			}
			want := map[[2]time.Duration]int64{}
			for _, v := range samples {
				h.RecordDuration(v)
				h.RecordValue(rng.NormFloat64()) // must be ignored
				i := sort.Search(len(sorted), func(i int) bool { return sorted[i] >= v })
				lo, hi := time.Duration(math.MinInt64), time.Duration(math.MaxInt64)
				if i < len(sorted) {
					hi = sorted[i]
				}
				if i > 0 {
					lo = sorted[i-1]
				}
				want[[2]time.Duration{lo, hi}]++
			}
			pass()
			got := map[[2]time.Duration]int64{}
			var total int64
			for _, e := range rep.evs[name] {
				if !e.dur {
					fail("cached=%v duration spec %v: a value bucket was delivered", cached, orig)
				}
				got[[2]time.Duration{e.dlo, e.dhi}] += e.n
				total += e.n
			}
			if total != int64(len(samples)) {
				fail("cached=%v duration spec %v: %d samples recorded, %d delivered", cached, orig, len(samples), total)
			}
			for k, n := range want {
				if got[k] != n {
					fail("cached=%v duration spec %v: bucket (%v, %v]: %d samples expected, %d delivered", cached, orig, k[0], k[1], n, got[k])
				}
			}
			for k, n := range got {
				if _, ok := want[k]; !ok {
					fail("cached=%v duration spec %v: delivered (%v, %v] x%d is not a bucket of the specification that received samples", cached, orig, k[0], k[1], n)
				}
			}
			cases++
		}
		// a second pass delivers nothing new
		before := 0
		for _, e := range rep.evs {
			before += len(e)
		}
		pass()
		after := 0
		for _, e := range rep.evs {
			after += len(e)
		}
		if after != before {
			fail("cached=%v: a report pass without new samples delivered %d more bucket events", cached, after-before)
		}
		root.Close()
	}
	if fails > 0 {
		t.Fatalf("%d failures", fails)
	}
	fmt.Printf("DRIVER-RESULT: ok C03: %d histograms\n", cases)
}
