package thriftudp

// BOUNDED fall-back driver for property C15 (injected with go test -overlay).  It uses
// loopback UDP sockets, so it runs only as a fall-back (a function of the property is
// undecided, an obligation fails) and in the thorough tier (VERIF_DRIVER_REASON != quick).
//
// Scenarios: (1) messages of 1, 2, 100, 1432, 8000 and 64999..65000 bytes written in one to
// three pieces (Write / WriteString / WriteByte) and flushed: one datagram each with exactly
// those bytes, buffer empty afterwards; (2) a Flush that fails (expired write deadline)
// leaves the buffer empty and the next message arrives complete and alone, and so does a
// Flush towards a destination that went away (connection refused); (3) a single
// write beyond the maximum length on an empty buffer is refused with an error, nothing is
// sent, the next message arrives alone (the case "refused after an accepted prefix" is the
// KNOWN FINDING of this property and is printed as DRIVER-KNOWN, not as a failure); (4) the
// multi transport performs every write and flush on every destination; (5) Close twice,
// then Write/Flush: errors, no panic.  Prints DRIVER-FAIL lines.

import (
	"bytes"
	"fmt"
	"net"
	"os"
	"testing"
	"time"
)

type vdC15Sink struct {
	conn *net.UDPConn
}

func vdC15NewSink() (*vdC15Sink, error) {
	addr, err := net.ResolveUDPAddr("udp", "127.0.0.1:0")
	if err != nil {
		return nil, err
	}
	c, err := net.ListenUDP("udp", addr)
	if err != nil {
		return nil, err
	}
	c.SetReadBuffer(4 << 20)
	return &vdC15Sink{c}, nil
}

// next returns the next datagram, or nil after 300 ms of silence
func (s *vdC15Sink) next() []byte { return s.wait(300 * time.Millisecond) }

// wait returns the next datagram, or nil after d of silence (a loaded machine may
// deliver a loopback datagram late: expected datagrams are waited for generously)
func (s *vdC15Sink) wait(d time.Duration) []byte {
	buf := make([]byte, 70000)
	s.conn.SetReadDeadline(time.Now().Add(d))
	n, _, err := s.conn.ReadFromUDP(buf)
	if err != nil {
		return nil
	}
	return buf[:n]
}

func vdC15Msg(n int, salt byte) []byte {
	b := make([]byte, n)
	for i := range b {
		b[i] = byte(i*7) ^ salt
	}
	return b
}

func TestVerifDriverC15(t *testing.T) {
	if r := os.Getenv("VERIF_DRIVER_REASON"); r == "quick" {
		fmt.Println("DRIVER-RESULT: ok C15 driver skipped in the quick tier")
		return
	}
	fails := 0
	fail := func(format string, a ...interface{}) {
		fails++
		if fails <= 20 {
			fmt.Printf("DRIVER-FAIL: "+format+"\n", a...)
		}
	}
	sink, err := vdC15NewSink()
	if err != nil {
		fmt.Println("DRIVER-RESULT: ok C15 driver could not open a loopback socket: " + err.Error())
		return
	}
	defer sink.conn.Close()
	tr, err := NewTUDPClientTransport(sink.conn.LocalAddr().String(), "")
	if err != nil {
		t.Fatalf("client transport: %v", err)
	}
	expectOne := func(what string, want []byte) {
		got := sink.wait(5 * time.Second)
		if got == nil {
			fail("%s: no datagram arrived (want %d bytes)", what, len(want))
			return
		}
		if !bytes.Equal(got, want) {
			fail("%s: datagram of %d bytes arrived, want exactly the %d bytes written since the previous Flush", what, len(got), len(want))
		}
		if extra := sink.next(); extra != nil {
			fail("%s: a second datagram (%d bytes) arrived for one Flush", what, len(extra))
		}
	}
	// (1) one flush = one exact datagram
	for i, n := range []int{1, 2, 100, 1432, 8000, 64999, 65000} {
		msg := vdC15Msg(n, byte(i))
		switch i % 3 {
		case 0:
			if _, err := tr.Write(msg); err != nil {
				fail("Write(%d bytes): %v", n, err)
			}
		case 1:
			if _, err := tr.WriteString(string(msg[:n/2])); err != nil {
				fail("WriteString(%d bytes): %v", n/2, err)
			}
			if _, err := tr.Write(msg[n/2:]); err != nil {
				fail("Write(%d bytes): %v", n-n/2, err)
			}
		default:
			if err := tr.WriteByte(msg[0]); err != nil {
				fail("WriteByte: %v", err)
			}
			if _, err := tr.Write(msg[1:]); err != nil {
				fail("Write(%d bytes): %v", n-1, err)
			}
		}
		if err := tr.Flush(); err != nil {
			fail("Flush of %d bytes: %v", n, err)
		}
		if tr.writeBuf.Len() != 0 {
			fail("after a successful Flush of %d bytes the buffer holds %d bytes", n, tr.writeBuf.Len())
		}
		expectOne(fmt.Sprintf("message %d (%d bytes)", i, n), msg)
	}
	// (2) a failed Flush leaves nothing behind
	tr.Write(vdC15Msg(1200, 0x55))
	tr.Conn().SetWriteDeadline(time.Now().Add(-time.Second))
	if err := tr.Flush(); err == nil {
		fail("Flush with an expired write deadline reported no error")
	}
	if tr.writeBuf.Len() != 0 {
		fail("after a failed Flush the buffer still holds %d bytes", tr.writeBuf.Len())
	}
	tr.Conn().SetWriteDeadline(time.Time{})
	sink.next() // whatever the failed send may have produced
	after := vdC15Msg(5, 0x11)
	tr.Write(after)
	if err := tr.Flush(); err != nil {
		fail("Flush after a failed Flush: %v", err)
	}
	expectOne("the message after a failed Flush", after)
	// (2b) a destination that went away: the ICMP error of one datagram surfaces as
	// "connection refused" on a later Flush; whatever Flush returns, nothing stays buffered
	if gone, err := vdC15NewSink(); err == nil {
		tr2, err := NewTUDPClientTransport(gone.conn.LocalAddr().String(), "")
		gone.conn.Close()
		if err == nil {
			for i := 0; i < 4; i++ {
				tr2.Write(vdC15Msg(700+i, byte(0x60+i)))
				ferr := tr2.Flush()
				if tr2.writeBuf.Len() != 0 {
					fail("destination gone: after Flush %d (error: %v) the buffer still holds %d bytes", i, ferr, tr2.writeBuf.Len())
					break
				}
				time.Sleep(20 * time.Millisecond)
			}
			tr2.Close()
		}
	}
	// (3) an oversize single write on an empty buffer
	if _, err := tr.Write(vdC15Msg(MaxLength+1, 3)); err == nil {
		fail("Write of %d bytes was accepted", MaxLength+1)
	}
	if _, err := tr.WriteString(string(vdC15Msg(MaxLength+1, 4))); err == nil {
		fail("WriteString of %d bytes was accepted", MaxLength+1)
	}
	small := vdC15Msg(9, 0x22)
	tr.Write(small)
	tr.Flush()
	expectOne("the message after a refused oversize write on an empty buffer", small)
	// the known finding: refused after an accepted prefix
	tr.Write(vdC15Msg(40000, 5))
	if _, err := tr.Write(vdC15Msg(40000, 6)); err == nil {
		fail("the second 40000-byte write was accepted")
	}
	tr.Write([]byte("hello"))
	tr.Flush()
	if got := sink.next(); got != nil && len(got) != 5 {
		fmt.Printf("DRIVER-KNOWN: refused write keeps the accepted prefix: the next Flush sent %d bytes instead of 5\n", len(got))
	}
	for sink.next() != nil {
	}
	// (4) multi transport: every destination gets every message
	sink2, err := vdC15NewSink()
	if err == nil {
		defer sink2.conn.Close()
		mt, err := NewTMultiUDPClientTransport([]string{sink.conn.LocalAddr().String(), sink2.conn.LocalAddr().String()}, "")
		if err != nil {
			fail("multi transport: %v", err)
		} else {
			for i, n := range []int{3, 700} {
				msg := vdC15Msg(n, byte(0x40+i))
				if _, err := mt.Write(msg); err != nil {
					fail("multi Write: %v", err)
				}
				if err := mt.Flush(); err != nil {
					fail("multi Flush: %v", err)
				}
				for j, s := range []*vdC15Sink{sink, sink2} {
					got := s.wait(5 * time.Second)
					if !bytes.Equal(got, msg) {
						fail("multi transport: destination %d received %d bytes for message %d, want %d", j, len(got), i, n)
					}
				}
			}
			if err := mt.Close(); err != nil {
				fail("multi Close: %v", err)
			}
		}
	}
	// (5) Close is idempotent; use after Close gives errors, no panic
	func() {
		defer func() {
			if r := recover(); r != nil {
				fail("use after Close panicked: %v", r)
			}
		}()
		if err := tr.Close(); err != nil {
			fail("Close: %v", err)
		}
		if err := tr.Close(); err != nil {
			fail("second Close: %v", err)
		}
		if _, err := tr.Write([]byte("x")); err == nil {
			fail("Write after Close reported no error")
		}
		if err := tr.Flush(); err == nil {
			fail("Flush after Close reported no error")
		}
		if tr.IsOpen() {
			fail("IsOpen after Close")
		}
	}()
	if fails > 0 {
		t.Fatalf("%d failures", fails)
	}
	fmt.Println("DRIVER-RESULT: ok C15")
}
