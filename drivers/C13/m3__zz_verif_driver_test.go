package m3

// Bounded replay / fall-back driver for property C13 (injected with go test -overlay).
//
// In-package checks on real reporters (both protocols): handles allocated early keep
// exactly their own name and tags while 10000 further distinct tag sets are allocated
// (tag slices owned by a handle are never recycled or overwritten); tag sets whose
// "k=v" strings collide under the cache hash get their own tags; the reporter clock is
// running when NewReporter returns; a full cycle through a loopback UDP sink delivers
// every reported counter exactly once with its own tags. Prints DRIVER-FAIL lines.

import (
	"bytes"
	"fmt"
	"net"
	"os"
	"sync"
	"testing"
	"time"

	customtransport "github.com/uber-go/tally/v4/m3/customtransports"
	m3thrift "github.com/uber-go/tally/v4/m3/thrift/v2"
	"github.com/uber-go/tally/v4/thirdparty/github.com/apache/thrift/lib/go/thrift"
)

type vdC13Sink struct {
	mu      sync.Mutex
	metrics []m3thrift.Metric
	conn    *net.UDPConn
	proto   thrift.TProtocolFactory
	bad     int
}

func (s *vdC13Sink) EmitMetricBatchV2(b m3thrift.MetricBatch) error {
	s.mu.Lock()
	s.metrics = append(s.metrics, b.Metrics...)
	s.mu.Unlock()
	return nil
}

func (s *vdC13Sink) serve() {
	buf := make([]byte, 65536)
	for {
		n, err := s.conn.Read(buf)
		if err != nil {
			return
		}
		rt, _ := customtransport.NewTBufferedReadTransport(bytes.NewBuffer(append([]byte(nil), buf[:n]...)))
		proc := m3thrift.NewM3Processor(s)
		p := s.proto.GetProtocol(rt)
		if _, err := proc.Process(p, p); err != nil {
			s.mu.Lock()
			s.bad++
			s.mu.Unlock()
		}
	}
}

func TestVerifDriverC13(t *testing.T) {
	fails := 0
	fail := func(format string, a ...interface{}) {
		fails++
		if fails <= 20 {
			fmt.Fprintf(os.Stdout, "DRIVER-FAIL: "+format+"\n", a...)
		}
	}
	for _, protocol := range []Protocol{Compact, Binary} {
		addr, _ := net.ResolveUDPAddr("udp", "127.0.0.1:0")
		conn, err := net.ListenUDP("udp", addr)
		if err != nil {
			t.Skip("no loopback UDP")
		}
		sink := &vdC13Sink{conn: conn}
		if protocol == Compact {
			sink.proto = thrift.NewTCompactProtocolFactory()
		} else {
			sink.proto = thrift.NewTBinaryProtocolFactoryDefault()
		}
		go sink.serve()
		before := time.Now().UnixNano()
		rep, err := NewReporter(Options{HostPorts: []string{conn.LocalAddr().String()}, Service: "svc", Env: "env", Protocol: protocol, MaxQueueSize: 64, MaxPacketSizeBytes: 1440})
		if err != nil {
			t.Fatal(err)
		}
		r := rep.(*reporter)
		if now := r.now.Load(); now < before {
			fail("protocol %v: reporter returned with clock %d, earlier than its construction", protocol, now)
		}
		type early struct {
			h    cachedMetric
			name string
			tags map[string]string
		}
		var es []early
		for i := 0; i < 16; i++ {
			tags := map[string]string{"id": fmt.Sprintf("early-%d", i), "kind": "early"}
			h := r.AllocateCounter(fmt.Sprintf("zz.early.%d", i), tags).(cachedMetric)
			es = append(es, early{h, fmt.Sprintf("zz.early.%d", i), tags})
		}
		// colliding "k=v" strings
		c1 := r.AllocateCounter("zz.c1", map[string]string{"a": "b=c"}).(cachedMetric)
		c2 := r.AllocateCounter("zz.c2", map[string]string{"a=b": "c"}).(cachedMetric)
		if len(c2.metric.Tags) != 1 || c2.metric.Tags[0].Name != "a=b" || c2.metric.Tags[0].Value != "c" {
			fail("protocol %v: handle for {a=b:c} carries tags %v (other handle: %v)", protocol, c2.metric.Tags, c1.metric.Tags)
		}
		for i := 0; i < 10000; i++ {
			r.AllocateCounter("zz.filler", map[string]string{"id": fmt.Sprintf("filler-%d", i), "kind": "filler"})
		}
		for _, e := range es {
			if e.h.metric.Name != e.name {
				fail("protocol %v: handle %s has name %q", protocol, e.name, e.h.metric.Name)
			}
			got := map[string]string{}
			for _, tg := range e.h.metric.Tags {
				got[tg.Name] = tg.Value
			}
			if len(got) != len(e.tags) || len(e.h.metric.Tags) != len(e.tags) {
				fail("protocol %v: handle %s allocated with %v now carries %v", protocol, e.name, e.tags, e.h.metric.Tags)
				continue
			}
			for k, v := range e.tags {
				if got[k] != v {
					fail("protocol %v: handle %s allocated with %v now carries %v", protocol, e.name, e.tags, e.h.metric.Tags)
					break
				}
			}
		}
		for i, e := range es {
			e.h.ReportCount(int64(100 + i))
		}
		r.Flush()
		r.Close()
		deadline := time.Now().Add(3 * time.Second)
		for time.Now().Before(deadline) {
			sink.mu.Lock()
			n := 0
			for _, m := range sink.metrics {
				if len(m.Name) > 9 && m.Name[:9] == "zz.early." {
					n++
				}
			}
			sink.mu.Unlock()
			if n >= len(es) {
				break
			}
			time.Sleep(10 * time.Millisecond)
		}
		sink.mu.Lock()
		seen := map[string]int{}
		for _, m := range sink.metrics {
			if len(m.Name) > 9 && m.Name[:9] == "zz.early." {
				seen[m.Name]++
				got := map[string]string{}
				for _, tg := range m.Tags {
					got[tg.Name] = tg.Value
				}
				if got["kind"] != "early" || len(m.Tags) != 2 {
					fail("protocol %v: %s delivered with tags %v", protocol, m.Name, m.Tags)
				}
				if m.Timestamp < before {
					fail("protocol %v: %s delivered with timestamp %d, earlier than the reporter's construction", protocol, m.Name, m.Timestamp)
				}
			}
		}
		if sink.bad > 0 {
			fail("protocol %v: %d datagrams did not decode as one one-way message", protocol, sink.bad)
		}
		sink.mu.Unlock()
		for _, e := range es {
			if seen[e.name] != 1 {
				fail("protocol %v: %s delivered %d times", protocol, e.name, seen[e.name])
			}
		}
		conn.Close()
	}
	if fails == 0 {
		fmt.Fprintln(os.Stdout, "DRIVER-RESULT: ok")
	} else {
		t.Fatalf("%d failures", fails)
	}
}
