package tally

// BOUNDED fall-back driver for property C01 (injected with go test -overlay).  Runs
// only as a fall-back (a function of the property is undecided, an obligation fails)
// and in the thorough tier: it is schedule-dependent, so it is not part of the quick
// tier (VERIF_DRIVER_REASON=quick skips it).
//
// Conservation under overlapping report passes: 40 counters on one scope, 4
// goroutines incrementing them, 3 goroutines running report passes over the same
// scope at the same time (what happens when a closed scope is re-requested while the
// periodic pass visits it), plain and cached reporters, 6 rounds of 250 ms each.
// After the writers stop and one final pass has run, every counter's delivered sum
// must equal what was added to it - nothing lost, nothing delivered twice - and no
// delivered delta may be zero.  Prints DRIVER-FAIL lines.

import (
	"fmt"
	"os"
	"sync"
	"sync/atomic"
	"testing"
	"time"
)

type vdC01Rep struct {
	mu    sync.Mutex
	sums  map[string]int64
	zeros int64
}

func (r *vdC01Rep) add(name string, v int64) {
	if v == 0 {
		atomic.AddInt64(&r.zeros, 1)
	}
	r.mu.Lock()
	r.sums[name] += v
	r.mu.Unlock()
}
func (r *vdC01Rep) Capabilities() Capabilities                              { return capabilitiesReportingTagging }
func (r *vdC01Rep) Flush()                                                  {}
func (r *vdC01Rep) ReportCounter(name string, _ map[string]string, v int64) { r.add(name, v) }
func (r *vdC01Rep) ReportGauge(string, map[string]string, float64)          {}
func (r *vdC01Rep) ReportTimer(string, map[string]string, time.Duration)    {}
func (r *vdC01Rep) ReportHistogramValueSamples(string, map[string]string, Buckets, float64, float64, int64) {
}
func (r *vdC01Rep) ReportHistogramDurationSamples(string, map[string]string, Buckets, time.Duration, time.Duration, int64) {
}

type vdC01Count struct {
	r    *vdC01Rep
	name string
}

func (c vdC01Count) ReportCount(v int64) { c.r.add(c.name, v) }

type vdC01Nop struct{}

func (vdC01Nop) ReportGauge(float64)       {}
func (vdC01Nop) ReportTimer(time.Duration) {}

type vdC01Cached struct{ r *vdC01Rep }

func (c vdC01Cached) Capabilities() Capabilities { return capabilitiesReportingTagging }
func (c vdC01Cached) Flush()                     {}
func (c vdC01Cached) AllocateCounter(name string, _ map[string]string) CachedCount {
	return vdC01Count{c.r, name}
}
func (c vdC01Cached) AllocateGauge(string, map[string]string) CachedGauge { return vdC01Nop{} }
func (c vdC01Cached) AllocateTimer(string, map[string]string) CachedTimer { return vdC01Nop{} }
func (c vdC01Cached) AllocateHistogram(string, map[string]string, Buckets) CachedHistogram {
	return nil
}

func TestVerifDriverC01(t *testing.T) {
	if r := os.Getenv("VERIF_DRIVER_REASON"); r == "quick" {
		fmt.Println("DRIVER-RESULT: ok C01 driver skipped in the quick tier")
		return
	}
	fails := 0
	rounds := 0
	nRounds := 6
	if os.Getenv("VERIF_DRIVER_REASON") == "thorough" {
		nRounds = 24 // thorough tier
	}
	for round := 0; round < nRounds; round++ {
		cached := round%2 == 1
		rounds++
		rep := &vdC01Rep{sums: map[string]int64{}}
		opts := ScopeOptions{OmitCardinalityMetrics: true}
		if cached {
			opts.CachedReporter = vdC01Cached{rep}
		} else {
			opts.Reporter = rep
		}
		root := newRootScope(opts, 0)
		sub := root.Tagged(map[string]string{"k": "v"}).(*scope)
		const N = 40
		counters := make([]Counter, N)
		added := make([]int64, N)
		for i := range counters {
			counters[i] = sub.Counter(fmt.Sprintf("c%02d", i))
		}
		pass := func() {
			if cached {
				sub.cachedReport()
			} else {
				sub.report(rep)
			}
		}
		// one pass with pending deltas first, so that whatever a pass keeps between
		// passes has been used once
		for i := range counters {
			counters[i].Inc(1)
			added[i]++
		}
		pass()
		var wg sync.WaitGroup
		var stop int32
		for w := 0; w < 4; w++ {
			wg.Add(1)
			go func(w int) {
				defer wg.Done()
				local := make([]int64, N)
				for i := 0; atomic.LoadInt32(&stop) == 0; i++ {
					k := (i*7 + w) % N
					d := int64(1 + i%3)
					counters[k].Inc(d)
					local[k] += d
				}
				for k, v := range local {
					atomic.AddInt64(&added[k], v)
				}
			}(w)
		}
		for p := 0; p < 3; p++ {
			wg.Add(1)
			go func() {
				defer wg.Done()
				for atomic.LoadInt32(&stop) == 0 {
					pass()
				}
			}()
		}
		time.Sleep(250 * time.Millisecond)
		atomic.StoreInt32(&stop, 1)
		wg.Wait()
		pass()
		bad := 0
		for i := range counters {
			name := fmt.Sprintf("c%02d", i)
			if got, want := rep.sums[name], atomic.LoadInt64(&added[i]); got != want {
				bad++
				if bad <= 3 {
					fmt.Printf("DRIVER-FAIL: overlapping report passes (cached=%v): counter %s: %d added, %d delivered\n", cached, name, want, got)
				}
			}
		}
		if z := atomic.LoadInt64(&rep.zeros); z != 0 {
			bad++
			fmt.Printf("DRIVER-FAIL: overlapping report passes (cached=%v): %d zero deltas were delivered\n", cached, z)
		}
		if bad > 0 {
			fails++
		}
		root.Close()
	}
	if fails > 0 {
		t.Fatalf("%d rounds failed", fails)
	}
	fmt.Printf("DRIVER-RESULT: ok C01: %d rounds\n", rounds)
}
