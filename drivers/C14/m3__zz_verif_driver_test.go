package m3

// BOUNDED fall-back driver for property C14 (injected with go test -overlay).  It is
// schedule-dependent and opens UDP sockets, so it runs only as a fall-back (a function of
// the property is undecided, an obligation fails) and in the thorough tier
// (VERIF_DRIVER_REASON != quick).
//
// 40 rounds: a reporter pointed at a local UDP port nobody reads; 8 goroutines allocate and
// report counters, gauges, timers and histogram buckets and call Flush as fast as they can;
// after a few milliseconds Close is called from 3 goroutines at once while the reporting
// continues for a little longer.  Oracle: nothing panics (a panic kills the test binary and
// is reported by the harness), every Close call returns within 30 s, exactly one of the
// concurrent Close calls returns nil and later ones return an error, calls made after Close
// return normally, and when everything has stopped the number of goroutines is back to
// what it was before the reporter was created (none of the reporter's goroutines is left).
// Prints DRIVER-FAIL lines.

import (
	"fmt"
	"net"
	"os"
	"runtime"
	"sync"
	"sync/atomic"
	"testing"
	"time"

	tally "github.com/uber-go/tally/v4"
)

func TestVerifDriverC14(t *testing.T) {
	if r := os.Getenv("VERIF_DRIVER_REASON"); r == "quick" {
		fmt.Println("DRIVER-RESULT: ok C14 driver skipped in the quick tier")
		return
	}
	fails := 0
	fail := func(format string, a ...interface{}) {
		fails++
		if fails <= 10 {
			fmt.Printf("DRIVER-FAIL: "+format+"\n", a...)
		}
	}
	sink, err := net.ListenUDP("udp", &net.UDPAddr{IP: net.IPv4(127, 0, 0, 1)})
	if err != nil {
		fmt.Println("DRIVER-RESULT: ok C14 driver could not open a loopback socket: " + err.Error())
		return
	}
	defer sink.Close()
	nRounds := 40
	if os.Getenv("VERIF_DRIVER_REASON") == "thorough" {
		nRounds = 160 // thorough tier
	}
	for round := 0; round < nRounds && fails == 0; round++ {
		proto := Compact
		if round%2 == 1 {
			proto = Binary
		}
		time.Sleep(20 * time.Millisecond)
		base := runtime.NumGoroutine()
		rep, err := NewReporter(Options{
			HostPorts:    []string{sink.LocalAddr().String()},
			Service:      "svc",
			Env:          "test",
			Protocol:     proto,
			MaxQueueSize: 64 + round*8,
		})
		if err != nil {
			fail("round %d: NewReporter: %v", round, err)
			break
		}
		var stop int32
		var wg sync.WaitGroup
		tags := map[string]string{"k": "v"}
		for g := 0; g < 8; g++ {
			wg.Add(1)
			go func(g int) {
				defer wg.Done()
				c := rep.AllocateCounter(fmt.Sprintf("c%d", g), tags)
				ga := rep.AllocateGauge(fmt.Sprintf("g%d", g), tags)
				tm := rep.AllocateTimer(fmt.Sprintf("t%d", g), tags)
				h := rep.AllocateHistogram(fmt.Sprintf("h%d", g), tags, tally.ValueBuckets{1, 2})
				b := h.ValueBucket(1, 2)
				for i := 0; atomic.LoadInt32(&stop) == 0; i++ {
					c.ReportCount(1)
					ga.ReportGauge(float64(i))
					tm.ReportTimer(time.Millisecond)
					b.ReportSamples(1)
					if i%64 == g {
						rep.Flush()
					}
					if i%97 == 0 {
						rep.AllocateCounter(fmt.Sprintf("late%d-%d", g, i), tags).ReportCount(1)
					}
				}
			}(g)
		}
		time.Sleep(time.Duration(1+round%5) * time.Millisecond)
		var nilCloses, errCloses int32
		var cwg sync.WaitGroup
		closed := make(chan struct{})
		for k := 0; k < 3; k++ {
			cwg.Add(1)
			go func() {
				defer cwg.Done()
				if err := rep.Close(); err == nil {
					atomic.AddInt32(&nilCloses, 1)
				} else {
					atomic.AddInt32(&errCloses, 1)
				}
			}()
		}
		go func() { cwg.Wait(); close(closed) }()
		select {
		case <-closed:
		case <-time.After(30 * time.Second):
			fail("round %d: Close did not return within 30 s while reports continued", round)
		}
		time.Sleep(2 * time.Millisecond)
		atomic.StoreInt32(&stop, 1)
		wg.Wait()
		if nilCloses != 1 || errCloses != 2 {
			fail("round %d: of 3 concurrent Close calls %d returned nil and %d an error (want 1 and 2)", round, nilCloses, errCloses)
		}
		if err := rep.Close(); err == nil {
			fail("round %d: a later Close returned nil", round)
		}
		// calls after Close are no-ops
		rep.AllocateCounter("after", tags).ReportCount(1)
		rep.AllocateHistogram("after", tags, tally.DurationBuckets{time.Second}).DurationBucket(0, time.Second).ReportSamples(1)
		rep.Flush()
		// none of the reporter's goroutines is left
		deadline := time.Now().Add(15 * time.Second)
		for runtime.NumGoroutine() > base && time.Now().Before(deadline) {
			time.Sleep(5 * time.Millisecond)
		}
		if n := runtime.NumGoroutine(); n > base {
			fail("round %d: %d goroutines before the reporter was created, %d still running 15 s after Close returned", round, base, n)
		}
	}
	if fails > 0 {
		t.Fatalf("%d failures", fails)
	}
	fmt.Printf("DRIVER-RESULT: ok C14: %d rounds\n", nRounds)
}
