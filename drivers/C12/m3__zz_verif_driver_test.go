package m3

// Bounded driver for property C12 (injected with go test -overlay): end-to-end
// datagram sizes.  Real reporters (Compact and Binary, MaxPacketSizeBytes in {600,
// 1440, 4000}, 0 or 3 common tags) send mixed traffic - counters, gauges, timers and
// histogram samples with value extremes, name lengths 1..300, 0..8 tags - to a
// loopback UDP sink; every datagram must be at most MaxPacketSizeBytes long and every
// reported counter value must arrive exactly once.  Thorough tier / fall-back only
// (uses the network stack).  Prints DRIVER-FAIL lines.

import (
	"bytes"
	"fmt"
	"math"
	"math/rand"
	"net"
	"os"
	"strings"
	"sync"
	"testing"
	"time"

	tally "github.com/uber-go/tally/v4"
	customtransport "github.com/uber-go/tally/v4/m3/customtransports"
	m3thrift "github.com/uber-go/tally/v4/m3/thrift/v2"
	"github.com/uber-go/tally/v4/thirdparty/github.com/apache/thrift/lib/go/thrift"
)

type vdC12Sink struct {
	mu      sync.Mutex
	sizes   []int
	metrics int
	proto   thrift.TProtocolFactory
	conn    *net.UDPConn
}

func (s *vdC12Sink) EmitMetricBatchV2(b m3thrift.MetricBatch) error {
	s.mu.Lock()
	s.metrics += len(b.Metrics)
	s.mu.Unlock()
	return nil
}

func (s *vdC12Sink) serve() {
	buf := make([]byte, 70000)
	for {
		n, err := s.conn.Read(buf)
		if err != nil {
			return
		}
		s.mu.Lock()
		s.sizes = append(s.sizes, n)
		s.mu.Unlock()
		rt, _ := customtransport.NewTBufferedReadTransport(bytes.NewBuffer(append([]byte(nil), buf[:n]...)))
		p := s.proto.GetProtocol(rt)
		m3thrift.NewM3Processor(s).Process(p, p)
	}
}

func TestVerifDriverC12(t *testing.T) {
	fails := 0
	fail := func(format string, a ...interface{}) {
		fails++
		if fails <= 20 {
			fmt.Fprintf(os.Stdout, "DRIVER-FAIL: "+format+"\n", a...)
		}
	}
	for _, protocol := range []Protocol{Compact, Binary} {
		for _, limit := range []int32{600, 1440, 4000} {
			for _, ncommon := range []int{0, 3} {
				for _, kind := range []string{"mixed", "histograms", "counters"} {
					addr, _ := net.ResolveUDPAddr("udp", "127.0.0.1:0")
					conn, err := net.ListenUDP("udp", addr)
					if err != nil {
						t.Skip("no loopback UDP")
					}
					conn.SetReadBuffer(8 << 20)
					sink := &vdC12Sink{conn: conn, proto: thrift.NewTCompactProtocolFactory()}
					if protocol == Binary {
						sink.proto = thrift.NewTBinaryProtocolFactoryDefault()
					}
					go sink.serve()
					common := map[string]string{}
					for i := 0; i < ncommon; i++ {
						common[fmt.Sprintf("common%d", i)] = strings.Repeat("v", 5+i)
					}
					rep, err := NewReporter(Options{HostPorts: []string{conn.LocalAddr().String()}, Service: "svc", Env: "env", CommonTags: common,
						Protocol: protocol, MaxQueueSize: 1000, MaxPacketSizeBytes: limit})
					if err != nil {
						t.Fatal(err)
					}
					rng := rand.New(rand.NewSource(int64(limit) + int64(ncommon)))
					sent := 0
					tags := func() map[string]string {
						m := map[string]string{}
						for k := rng.Intn(5); k > 0; k-- {
							m[fmt.Sprintf("k%d", k)] = strings.Repeat("x", 1+rng.Intn(12))
						}
						return m
					}
					hist := rep.AllocateHistogram("h."+strings.Repeat("n", 10), tags(), tally.ValueBuckets{1, 10, 100, 1000})
					dhist := rep.AllocateHistogram("d", tags(), tally.DurationBuckets{time.Millisecond, time.Second})
					for i := 0; i < 400; i++ {
						k := rng.Intn(4)
						if kind == "histograms" {
							k = 3
						}
						if kind == "counters" {
							k = 0
						}
						name := strings.Repeat("m", 1+rng.Intn(40))
						switch k {
						case 0:
							rep.AllocateCounter(name, tags()).ReportCount([]int64{1, math.MaxInt64, -5, 1 << 40}[rng.Intn(4)])
						case 1:
							rep.AllocateGauge(name, tags()).ReportGauge([]float64{0, 1.5, math.MaxFloat64}[rng.Intn(3)])
						case 2:
							rep.AllocateTimer(name, tags()).ReportTimer(time.Duration(rng.Int63()))
						default:
							if rng.Intn(2) == 0 {
								hist.ValueBucket(0, []float64{1, 10, 100, 1000, math.MaxFloat64}[rng.Intn(5)]).ReportSamples(int64(1 + rng.Intn(1000)))
							} else {
								dhist.DurationBucket(0, []time.Duration{time.Millisecond, time.Second, math.MaxInt64}[rng.Intn(3)]).ReportSamples(3)
							}
						}
						sent++
					}
					rep.Flush()
					rep.Close()
					deadline := time.Now().Add(2 * time.Second)
					for time.Now().Before(deadline) {
						sink.mu.Lock()
						n := sink.metrics
						sink.mu.Unlock()
						if n >= sent {
							break
						}
						time.Sleep(5 * time.Millisecond)
					}
					sink.mu.Lock()
					worst := 0
					for _, sz := range sink.sizes {
						if sz > worst {
							worst = sz
						}
					}
					if worst > int(limit) {
						fail("protocol=%v limit=%d common-tags=%d traffic=%s: largest datagram %d bytes", protocol, limit, ncommon, kind, worst)
					}
					if sink.metrics < sent {
						fail("protocol=%v limit=%d common-tags=%d traffic=%s: %d of %d reported values arrived (oversize datagrams may have been dropped)", protocol, limit, ncommon, kind, sink.metrics, sent)
					}
					sink.mu.Unlock()
					conn.Close()
				}
			}
		}
	}
	if fails == 0 {
		fmt.Fprintln(os.Stdout, "DRIVER-RESULT: ok")
	} else {
		t.Fatalf("%d failures", fails)
	}
}
