package tally

// BOUNDED fall-back driver for property C02 (injected with go test -overlay).  It is
// schedule-dependent, so it runs only as a fall-back (a function of the property is
// undecided, an obligation fails) and in the thorough tier (VERIF_DRIVER_REASON != quick).
//
// One updating goroutine (the property's quantifier) sets the gauge to 1, 2, 3, ... while
// one goroutine runs report passes on it (plain and cached delivery paths), many short
// trials.  Oracle: every delivered value is one of the values passed to Update (an integer
// in 1..last, bit for bit); with a single reporting goroutine the delivered values never
// decrease (the same value may legitimately arrive twice: a pass that runs between the two
// stores of Update(v) already sees v, and the flag set afterwards makes the next pass deliver
// it again); deliveries never exceed updates; after the updater has stopped, one more pass leaves the most recent delivery
// equal to the last update, and a further pass delivers nothing.  Prints DRIVER-FAIL lines.

import (
	"fmt"
	"math"
	"os"
	"sync"
	"testing"
	"time"
)

type vdC02Rep struct{ vals []float64 }

func (r *vdC02Rep) Capabilities() Capabilities                           { return capabilitiesReportingTagging }
func (r *vdC02Rep) Flush()                                               {}
func (r *vdC02Rep) ReportCounter(string, map[string]string, int64)       {}
func (r *vdC02Rep) ReportGauge(_ string, _ map[string]string, v float64) { r.vals = append(r.vals, v) }
func (r *vdC02Rep) ReportTimer(string, map[string]string, time.Duration) {}
func (r *vdC02Rep) ReportHistogramValueSamples(string, map[string]string, Buckets, float64, float64, int64) {
}
func (r *vdC02Rep) ReportHistogramDurationSamples(string, map[string]string, Buckets, time.Duration, time.Duration, int64) {
}

type vdC02Cached struct{ r *vdC02Rep }

func (c vdC02Cached) ReportGauge(v float64) { c.r.vals = append(c.r.vals, v) }

func TestVerifDriverC02(t *testing.T) {
	if r := os.Getenv("VERIF_DRIVER_REASON"); r == "quick" {
		fmt.Println("DRIVER-RESULT: ok C02 driver skipped in the quick tier")
		return
	}
	fails := 0
	fail := func(format string, a ...interface{}) {
		fails++
		if fails <= 10 {
			fmt.Printf("DRIVER-FAIL: "+format+"\n", a...)
		}
	}
	budget := 6 * time.Second
	if os.Getenv("VERIF_DRIVER_REASON") == "thorough" {
		budget = 25 * time.Second // thorough tier
	}
	deadline := time.Now().Add(budget)
	trials := 0
	for trial := 0; time.Now().Before(deadline) && fails == 0; trial++ {
		trials++
		cached := trial%2 == 1
		rep := &vdC02Rep{}
		var g *gauge
		if cached {
			g = newGauge(vdC02Cached{rep})
		} else {
			g = newGauge(nil)
		}
		pass := func() {
			if cached {
				g.cachedReport()
			} else {
				g.report("g", nil, rep)
			}
		}
		updates := 20 + trial%200
		var wg sync.WaitGroup
		stop := make(chan struct{})
		wg.Add(2)
		go func() {
			defer wg.Done()
			for i := 1; i <= updates; i++ {
				g.Update(float64(i))
			}
			close(stop)
		}()
		go func() {
			defer wg.Done()
			for {
				select {
				case <-stop:
					return
				default:
					pass()
				}
			}
		}()
		wg.Wait()
		pass() // the first pass that starts after the updates have stopped
		label := fmt.Sprintf("trial %d cached=%v updates=%d", trial, cached, updates)
		if len(rep.vals) > updates {
			fail("%s: %d deliveries for %d updates", label, len(rep.vals), updates)
		}
		prev := 0.0
		for _, v := range rep.vals {
			if v != math.Trunc(v) || v < 1 || v > float64(updates) {
				fail("%s: delivered %v, which was never passed to Update", label, v)
			}
			if v < prev {
				fail("%s: delivered %v after %v (an older value after a newer one)", label, v, prev)
			}
			prev = v
		}
		if len(rep.vals) == 0 || rep.vals[len(rep.vals)-1] != float64(updates) {
			fail("%s: after the updates stopped and one more pass ran, the most recent delivery is %v, the last update was %d", label, rep.vals, updates)
		}
		n := len(rep.vals)
		pass()
		if len(rep.vals) != n {
			fail("%s: a pass without a new update delivered the gauge again", label)
		}
	}
	if fails > 0 {
		t.Fatalf("%d failures", fails)
	}
	fmt.Printf("DRIVER-RESULT: ok C02: %d trials\n", trials)
}
