package tally

// quick-tier: yes (deterministic, sequential, no I/O, < 2 s)
//
// Bounded replay / fall-back driver for property C04 (injected with go test -overlay).
// Small-scope enumeration of derivation programs (SubScope / Tagged chains of depth
// 0..3) over roots with different prefixes, separators and tags; the maps handed to
// the API are mutated afterwards; names and tags delivered to a capturing reporter are
// compared with a reference model. Prints DRIVER-FAIL lines.

import (
	"fmt"
	"os"
	"sort"
	"strings"
	"sync"
	"testing"
	"time"
)

type vdC04Reporter struct {
	mu       sync.Mutex
	counters []vdC04Rec
}

type vdC04Rec struct {
	name string
	tags map[string]string
	v    int64
}

func (r *vdC04Reporter) ReportCounter(name string, tags map[string]string, v int64) {
	r.mu.Lock()
	cp := map[string]string{}
	for k, x := range tags {
		cp[k] = x
	}
	r.counters = append(r.counters, vdC04Rec{name, cp, v})
	r.mu.Unlock()
}
func (r *vdC04Reporter) ReportGauge(string, map[string]string, float64)       {}
func (r *vdC04Reporter) ReportTimer(string, map[string]string, time.Duration) {}
func (r *vdC04Reporter) ReportHistogramValueSamples(string, map[string]string, Buckets, float64, float64, int64) {
}
func (r *vdC04Reporter) ReportHistogramDurationSamples(string, map[string]string, Buckets, time.Duration, time.Duration, int64) {
}
func (r *vdC04Reporter) Capabilities() Capabilities { return capabilitiesReportingTagging }
func (r *vdC04Reporter) Flush()                     {}

type vdC04Op struct {
	sub  bool
	name string
	tags map[string]string
}

func vdC04Copy(m map[string]string) map[string]string {
	if m == nil {
		return nil
	}
	c := map[string]string{}
	for k, v := range m {
		c[k] = v
	}
	return c
}

func vdC04Fmt(m map[string]string) string {
	var ks []string
	for k := range m {
		ks = append(ks, k)
	}
	sort.Strings(ks)
	var sb strings.Builder
	for _, k := range ks {
		fmt.Fprintf(&sb, "%q=%q,", k, m[k])
	}
	return "{" + sb.String() + "}"
}

func TestVerifDriverC04(t *testing.T) {
	fails := 0
	fail := func(format string, a ...interface{}) {
		fails++
		if fails <= 20 {
			fmt.Fprintf(os.Stdout, "DRIVER-FAIL: "+format+"\n", a...)
		}
	}
	names := []string{"a", "b.c", "x\xffy"}
	tagSets := []map[string]string{nil, {}, {"k": "1"}, {"k": "2", "j": "3"}, {"j": "\xfe"}, {"": "x"}, {"": "y", "k": ""}}
	var ops []vdC04Op
	for _, n := range names {
		ops = append(ops, vdC04Op{sub: true, name: n})
	}
	for _, ts := range tagSets {
		ops = append(ops, vdC04Op{tags: ts})
	}
	var programs [][]vdC04Op
	programs = append(programs, nil)
	for _, a := range ops {
		programs = append(programs, []vdC04Op{a})
		for _, b := range ops {
			programs = append(programs, []vdC04Op{a, b})
			for _, c := range ops {
				if c.sub != a.sub || c.name == "a" || len(c.tags) == 1 {
					programs = append(programs, []vdC04Op{a, b, c})
				}
			}
		}
	}
	type rootCfg struct {
		prefix, sep string
		tags        map[string]string
	}
	roots := []rootCfg{{"", "", nil}, {"svc", "", map[string]string{"k": "0"}}, {"svc", "-", map[string]string{}}, {"", "/", map[string]string{"env": "p", "k": "r"}}}
	runs := 0
	for _, rc := range roots {
		for _, prog := range programs {
			runs++
			rep := &vdC04Reporter{}
			rootTags := vdC04Copy(rc.tags)
			rootTagsBefore := vdC04Copy(rc.tags)
			root, closer := NewRootScope(ScopeOptions{Prefix: rc.prefix, Separator: rc.sep, Tags: rootTags, Reporter: rep, OmitCardinalityMetrics: true}, 0)
			sep := rc.sep
			if sep == "" {
				sep = "."
			}
			wantPrefix := rc.prefix
			wantTags := vdC04Copy(rc.tags)
			if wantTags == nil {
				wantTags = map[string]string{}
			}
			var handed []map[string]string
			var handedBefore []map[string]string
			s := root
			for _, op := range prog {
				if op.sub {
					s = s.SubScope(op.name)
					if wantPrefix == "" {
						wantPrefix = op.name
					} else {
						wantPrefix = wantPrefix + sep + op.name
					}
				} else {
					m := vdC04Copy(op.tags)
					handed = append(handed, m)
					handedBefore = append(handedBefore, vdC04Copy(op.tags))
					s = s.Tagged(m)
					for k, v := range op.tags {
						wantTags[k] = v
					}
				}
			}
			// the library must not have touched the maps it was given
			if vdC04Fmt(rootTags) != vdC04Fmt(rootTagsBefore) {
				fail("root tags mutated by the library: %s -> %s", vdC04Fmt(rootTagsBefore), vdC04Fmt(rootTags))
			}
			for i := range handed {
				if vdC04Fmt(handed[i]) != vdC04Fmt(handedBefore[i]) || (handed[i] == nil) != (handedBefore[i] == nil) {
					fail("Tagged argument mutated by the library: %s -> %s", vdC04Fmt(handedBefore[i]), vdC04Fmt(handed[i]))
				}
			}
			// mutate everything the caller handed in
			for _, m := range append([]map[string]string{rootTags}, handed...) {
				if m == nil {
					continue
				}
				for k := range m {
					m[k] = "MUTATED"
				}
				m["extra"] = "x"
			}
			s.Counter("c").Inc(1)
			wantName := "c"
			if wantPrefix != "" {
				wantName = wantPrefix + sep + "c"
			}
			closer.Close()
			found := 0
			for _, c := range rep.counters {
				if c.v == 1 {
					found++
					if c.name != wantName {
						fail("program %+v on root %+v: delivered name %q, want %q", prog, rc, c.name, wantName)
					}
					if vdC04Fmt(c.tags) != vdC04Fmt(wantTags) {
						fail("program %+v on root %+v: delivered tags %s, want %s (caller maps were mutated after the calls)", prog, rc, vdC04Fmt(c.tags), vdC04Fmt(wantTags))
					}
				}
			}
			if found != 1 {
				fail("program %+v on root %+v: %d deliveries of the counter, want 1", prog, rc, found)
			}
		}
	}
	// second family: a sanitizer that rewrites keys/values/names; later values win
	// also when the later key only equals an inherited one AFTER sanitizing
	san := func(x string) string {
		b := []byte(x)
		for i, c := range b {
			if !(c >= 'a' && c <= 'z' || c >= 'A' && c <= 'Z' || c >= '0' && c <= '9' || c == '_') {
				b[i] = '_'
			}
		}
		return string(b)
	}
	sopts := SanitizeOptions{
		NameCharacters:       ValidCharacters{Ranges: AlphanumericRange, Characters: UnderscoreCharacters},
		KeyCharacters:        ValidCharacters{Ranges: AlphanumericRange, Characters: UnderscoreCharacters},
		ValueCharacters:      ValidCharacters{Ranges: AlphanumericRange, Characters: UnderscoreCharacters},
		ReplacementCharacter: DefaultReplacementCharacter,
	}
	sTagSets := []map[string]string{{"dc-name": "west"}, {"dc_name": "east"}, {"dc.name": "no.rth", "k": "1"}, {"k": "2"}}
	var sOps []vdC04Op
	sOps = append(sOps, vdC04Op{sub: true, name: "b.c"})
	for _, ts := range sTagSets {
		sOps = append(sOps, vdC04Op{tags: ts})
	}
	var sProgs [][]vdC04Op
	for _, a := range sOps {
		sProgs = append(sProgs, []vdC04Op{a})
		for _, b := range sOps {
			sProgs = append(sProgs, []vdC04Op{a, b})
			for _, c := range sOps {
				sProgs = append(sProgs, []vdC04Op{a, b, c})
			}
		}
	}
	for _, rootTags := range []map[string]string{nil, {"dc_name": "root"}, {"env-kind": "prod"}} {
		for _, prog := range sProgs {
			runs++
			rep := &vdC04Reporter{}
			root, closer := NewRootScope(ScopeOptions{Prefix: "svc", Separator: "_", Tags: vdC04Copy(rootTags), Reporter: rep, OmitCardinalityMetrics: true, SanitizeOptions: &sopts}, 0)
			wantPrefix := "svc"
			wantTags := map[string]string{}
			for k, v := range rootTags {
				wantTags[san(k)] = san(v)
			}
			s := root
			for _, op := range prog {
				if op.sub {
					s = s.SubScope(op.name)
					wantPrefix = wantPrefix + "_" + san(op.name)
				} else {
					s = s.Tagged(vdC04Copy(op.tags))
					for k, v := range op.tags {
						wantTags[san(k)] = san(v)
					}
				}
			}
			s.Counter("c").Inc(1)
			closer.Close()
			found := 0
			for _, c := range rep.counters {
				if c.v == 1 {
					found++
					if c.name != wantPrefix+"_c" {
						fail("sanitizer: program %+v root tags %v: delivered name %q, want %q", prog, rootTags, c.name, wantPrefix+"_c")
					}
					if vdC04Fmt(c.tags) != vdC04Fmt(wantTags) {
						fail("sanitizer: program %+v root tags %v: delivered tags %s, want %s", prog, rootTags, vdC04Fmt(c.tags), vdC04Fmt(wantTags))
					}
				}
			}
			if found != 1 {
				fail("sanitizer: program %+v root tags %v: %d deliveries of the counter, want 1", prog, rootTags, found)
			}
		}
	}
	if fails > 0 {
		t.Fatalf("DRIVER-RESULT: %d failures in %d runs", fails, runs)
	}
	fmt.Printf("DRIVER-RESULT: ok (%d derivation programs)\n", runs)
}
