package prometheus

// quick-tier: yes (deterministic for a given VERIF_SEED, in-memory registry, < 1 s)
//
// BOUNDED replay / fall-back driver for property C17 (injected with go test -overlay).
// This covers the Gather() side of the statement, which no contract decides (the
// Prometheus client is a dependency): a tally root scope reports into the Prometheus
// reporter with its own registry; after the final report pass the gathered families must
// show, for every counter the sum of its increments, for every gauge its last update, for
// every value / duration histogram (strictly increasing finite bounds, durations in
// seconds, bounds above one second with awkward decimal expansions included) a cumulative
// count at each bound equal to the number of samples <= that bound and a total equal to
// the number of samples, for every timer (summary and histogram flavour) a count equal to
// the number of recorded values; equal names with different tag values are separate
// series of one family.  A rejected registration (invalid name, a name reused for another
// kind, other tag keys) reaches the error callback and the caller still gets a usable
// metric - no panic.  Prints DRIVER-FAIL lines.

import (
	"fmt"
	"math"
	"math/rand"
	"os"
	"sort"
	"strconv"
	"testing"
	"time"

	prom "github.com/prometheus/client_golang/prometheus"
	dto "github.com/prometheus/client_model/go"
	tally "github.com/uber-go/tally/v4"
)

func vdC17Series(fams []*dto.MetricFamily, name string, labels map[string]string) *dto.Metric {
	for _, f := range fams {
		if f.GetName() != name {
			continue
		}
	next:
		for _, m := range f.GetMetric() {
			if len(m.GetLabel()) != len(labels) {
				continue
			}
			for _, l := range m.GetLabel() {
				if labels[l.GetName()] != l.GetValue() {
					continue next
				}
			}
			return m
		}
	}
	return nil
}

func TestVerifDriverC17(t *testing.T) {
	seed := int64(1)
	if s, err := strconv.ParseInt(os.Getenv("VERIF_SEED"), 10, 64); err == nil {
		seed = s
	}
	rng := rand.New(rand.NewSource(seed))
	fails := 0
	fail := func(format string, a ...interface{}) {
		fails++
		if fails <= 20 {
			fmt.Printf("DRIVER-FAIL: "+format+"\n", a...)
		}
	}
	for _, timerType := range []TimerType{SummaryTimerType, HistogramTimerType} {
		reg := prom.NewRegistry()
		var regErrs []error
		rep := NewReporter(Options{Registerer: reg, Gatherer: reg, DefaultTimerType: timerType, OnRegisterError: func(err error) { regErrs = append(regErrs, err) }})
		root, closer := tally.NewRootScope(tally.ScopeOptions{CachedReporter: rep, Separator: DefaultSeparator, OmitCardinalityMetrics: true}, 0)
		label := fmt.Sprintf("timerType=%v", timerType)
		// counters and gauges: two series of one family
		wantC := map[string]int64{}
		wantG := map[string]float64{}
		for _, dc := range []string{"east", "west"} {
			sc := root.Tagged(map[string]string{"dc": dc})
			c, g := sc.Counter("requests"), sc.Gauge("depth")
			for i := 0; i < 50; i++ {
				d := int64(rng.Intn(7))
				c.Inc(d)
				wantC[dc] += d
				v := rng.NormFloat64() * 100
				g.Update(v)
				wantG[dc] = v
			}
		}
		// histograms
		vbounds := tally.ValueBuckets{-2.5, 0, 0.1, 1, 7.25, 1e6}
		dbounds := tally.DurationBuckets{500 * time.Millisecond, 1128 * time.Millisecond, 1132 * time.Millisecond, 1140 * time.Millisecond, 2 * time.Second, 7300 * time.Millisecond, time.Minute}
		hv := root.Histogram("sizes", vbounds)
		hd := root.Histogram("latency", dbounds)
		var vsamples []float64
		var dsamples []time.Duration
		for _, b := range vbounds {
			vsamples = append(vsamples, b, math.Nextafter(b, math.Inf(1)), math.Nextafter(b, math.Inf(-1)))
		}
		for _, b := range dbounds {
			dsamples = append(dsamples, b, b+1, b-1)
		}
		for i := 0; i < 60; i++ {
			vsamples = append(vsamples, rng.NormFloat64()*10)
			dsamples = append(dsamples, time.Duration(rng.Int63n(int64(90*time.Second))))
		}
		for _, v := range vsamples {
			hv.RecordValue(v)
		}
		for _, d := range dsamples {
			hd.RecordDuration(d)
		}
		// timers
		tm := root.Timer("rtt")
		nTimer := 37
		for i := 0; i < nTimer; i++ {
			tm.Record(time.Duration(rng.Int63n(int64(3 * time.Second))))
		}
		if err := closer.Close(); err != nil {
			fail("%s: closing the root scope: %v", label, err)
		}
		fams, err := reg.Gather()
		if err != nil {
			fail("%s: Gather: %v", label, err)
		}
		for _, dc := range []string{"east", "west"} {
			if m := vdC17Series(fams, "requests", map[string]string{"dc": dc}); m == nil || m.GetCounter().GetValue() != float64(wantC[dc]) {
				fail("%s: counter requests{dc=%s}: want %d, gathered %v", label, dc, wantC[dc], m)
			}
			if m := vdC17Series(fams, "depth", map[string]string{"dc": dc}); m == nil || m.GetGauge().GetValue() != wantG[dc] {
				fail("%s: gauge depth{dc=%s}: want %v, gathered %v", label, dc, wantG[dc], m)
			}
		}
		if m := vdC17Series(fams, "sizes", map[string]string{}); m == nil {
			fail("%s: histogram sizes not gathered", label)
		} else {
			h := m.GetHistogram()
			if h.GetSampleCount() != uint64(len(vsamples)) {
				fail("%s: histogram sizes: %d samples recorded, total %d", label, len(vsamples), h.GetSampleCount())
			}
			for _, b := range h.GetBucket() {
				want := 0
				for _, v := range vsamples {
					if v <= b.GetUpperBound() {
						want++
					}
				}
				if b.GetCumulativeCount() != uint64(want) {
					fail("%s: histogram sizes: le=%v: cumulative count %d, %d samples are <= the bound", label, b.GetUpperBound(), b.GetCumulativeCount(), want)
				}
			}
			if len(h.GetBucket()) < len(vbounds) {
				fail("%s: histogram sizes: %d buckets gathered for %d bounds", label, len(h.GetBucket()), len(vbounds))
			}
		}
		if m := vdC17Series(fams, "latency", map[string]string{}); m == nil {
			fail("%s: histogram latency not gathered", label)
		} else {
			h := m.GetHistogram()
			if h.GetSampleCount() != uint64(len(dsamples)) {
				fail("%s: histogram latency: %d samples recorded, total %d", label, len(dsamples), h.GetSampleCount())
			}
			var secs []float64
			for _, b := range dbounds {
				secs = append(secs, float64(b)/float64(time.Second))
			}
			sort.Float64s(secs)
			for i, b := range h.GetBucket() {
				if i < len(secs) && b.GetUpperBound() != secs[i] {
					fail("%s: histogram latency: bound %d is %v, want %v (seconds)", label, i, b.GetUpperBound(), secs[i])
				}
				want := 0
				for _, d := range dsamples {
					if i < len(dbounds) && d <= dbounds[i] {
						want++
					}
				}
				if i < len(dbounds) && b.GetCumulativeCount() != uint64(want) {
					fail("%s: histogram latency: le=%v: cumulative count %d, %d samples are <= %v", label, b.GetUpperBound(), b.GetCumulativeCount(), want, dbounds[i])
				}
			}
		}
		if m := vdC17Series(fams, "rtt", map[string]string{}); m == nil {
			fail("%s: timer rtt not gathered", label)
		} else {
			n := m.GetSummary().GetSampleCount()
			if timerType == HistogramTimerType {
				n = m.GetHistogram().GetSampleCount()
			}
			if n != uint64(nTimer) {
				fail("%s: timer rtt: %d values recorded, count %d", label, nTimer, n)
			}
		}
		if len(regErrs) != 0 {
			fail("%s: unexpected registration errors: %v", label, regErrs)
		}
		// rejected registrations: the callback is told, the caller gets something usable
		use := func(what string, f func()) {
			defer func() {
				if r := recover(); r != nil {
					fail("%s: %s panicked: %v", label, what, r)
				}
			}()
			f()
		}
		before := len(regErrs)
		use("a counter with an invalid name", func() { rep.AllocateCounter("bad-name!", nil).ReportCount(1) })
		use("a gauge reusing a counter's name", func() { rep.AllocateGauge("requests", map[string]string{"dc": "east"}).ReportGauge(1) })
		use("a counter with other tag keys", func() { rep.AllocateCounter("requests", map[string]string{"zone": "a"}).ReportCount(1) })
		use("a timer reusing a histogram's name", func() { rep.AllocateTimer("sizes", nil).ReportTimer(time.Second) })
		use("a histogram reusing a timer's name", func() {
			h := rep.AllocateHistogram("rtt", nil, tally.ValueBuckets{1, 2})
			h.ValueBucket(1, 2).ReportSamples(1)
			h.DurationBucket(time.Second, 2*time.Second).ReportSamples(1)
		})
		// the first three are rejected in every configuration (the last two reuse a
		// name within the histogram kind when timers are histograms: not a rejection)
		if len(regErrs)-before < 3 {
			fail("%s: at least 3 rejected registrations, the error callback was called %d times", label, len(regErrs)-before)
		}
	}
	if fails > 0 {
		t.Fatalf("%d failures", fails)
	}
	fmt.Println("DRIVER-RESULT: ok C17")
}
