package tally

// Bounded replay / fall-back driver for property C11 (injected with go test -overlay).
// Small-scope random derivation programs over a test scope: tagged roots, SubScope and
// Tagged chains (including Tagged calls that override the value of an inherited key),
// all four metric kinds, snapshots at arbitrary points compared with a reference tally,
// independence of a snapshot from later recording and from modification, survival of
// Close on a subscope. Prints DRIVER-FAIL lines. BOUNDED: depth <= 3, <= 40 operations
// per program, 400 programs per run.

import (
	"fmt"
	"math"
	"math/rand"
	"os"
	"sort"
	"strconv"
	"strings"
	"testing"
	"time"
)

type vdC11Ref struct {
	name   string
	tags   map[string]string
	count  int64
	gauge  float64
	timers []time.Duration
	hv     map[float64]int64
	hd     map[time.Duration]int64
}

type vdC11Scope struct {
	sc     Scope
	prefix string
	tags   map[string]string
}

func vdC11Key(name string, tags map[string]string) string {
	ks := make([]string, 0, len(tags))
	for k := range tags {
		ks = append(ks, k)
	}
	sort.Strings(ks)
	var sb strings.Builder
	sb.WriteString(name)
	sb.WriteString("+")
	for i, k := range ks {
		if i > 0 {
			sb.WriteString(",")
		}
		sb.WriteString(k + "=" + tags[k])
	}
	return sb.String()
}

func vdC11Copy(m map[string]string) map[string]string {
	c := map[string]string{}
	for k, v := range m {
		c[k] = v
	}
	return c
}

func vdC11EqTags(a, b map[string]string) bool {
	if len(a) != len(b) {
		return false
	}
	for k, v := range a {
		if w, ok := b[k]; !ok || w != v {
			return false
		}
	}
	return true
}

func TestVerifDriverC11(t *testing.T) {
	seed := int64(1)
	if s := os.Getenv("VERIF_SEED"); s != "" {
		if n, err := strconv.ParseInt(s, 10, 64); err == nil {
			seed = n + 1
		}
	}
	rng := rand.New(rand.NewSource(seed))
	fails := 0
	fail := func(prog int, format string, a ...interface{}) {
		fails++
		if fails <= 10 {
			fmt.Printf("DRIVER-FAIL: property=C11 program=%d seed=%d %s\n", prog, seed, fmt.Sprintf(format, a...))
		}
	}
	keys := []string{"env", "dc", "k"}
	vals := []string{"a", "b", "prod"}
	names := []string{"reqs", "lat", "x"}
	valueB := ValueBuckets{1, 1, 2, 5}
	durB := DurationBuckets{time.Millisecond, time.Second, time.Second}
	for prog := 0; prog < 400; prog++ {
		rootTags := map[string]string{}
		for i := rng.Intn(3); i > 0; i-- {
			rootTags[keys[rng.Intn(len(keys))]] = vals[rng.Intn(len(vals))]
		}
		rootPrefix := []string{"", "svc"}[rng.Intn(2)]
		root := NewTestScope(rootPrefix, vdC11Copy(rootTags))
		scopes := []vdC11Scope{{root, rootPrefix, vdC11Copy(rootTags)}}
		ref := map[string]*vdC11Ref{}
		get := func(kind string, s vdC11Scope, n string) *vdC11Ref {
			full := n
			if s.prefix != "" {
				full = s.prefix + "." + n
			}
			id := kind + "|" + vdC11Key(full, s.tags)
			r := ref[id]
			if r == nil {
				r = &vdC11Ref{name: full, tags: vdC11Copy(s.tags), hv: map[float64]int64{}, hd: map[time.Duration]int64{}}
				ref[id] = r
			}
			return r
		}
		check := func(where string) TestScope {
			snap := root.Snapshot()
			nc, ng, nt, nh := 0, 0, 0, 0
			for id, r := range ref {
				kind := id[:strings.Index(id, "|")]
				key := vdC11Key(r.name, r.tags)
				switch kind {
				case "c":
					nc++
					e, ok := snap.Counters()[key]
					if !ok {
						fail(prog, "%s: counter %q missing from snapshot", where, key)
					} else if e.Value() != r.count || e.Name() != r.name || !vdC11EqTags(e.Tags(), r.tags) {
						fail(prog, "%s: counter %q: got name=%q tags=%v value=%d want name=%q tags=%v value=%d", where, key, e.Name(), e.Tags(), e.Value(), r.name, r.tags, r.count)
					}
				case "g":
					ng++
					e, ok := snap.Gauges()[key]
					if !ok {
						fail(prog, "%s: gauge %q missing", where, key)
					} else if e.Value() != r.gauge || e.Name() != r.name || !vdC11EqTags(e.Tags(), r.tags) {
						fail(prog, "%s: gauge %q: got %v %v %v want %v %v %v", where, key, e.Name(), e.Tags(), e.Value(), r.name, r.tags, r.gauge)
					}
				case "t":
					nt++
					e, ok := snap.Timers()[key]
					if !ok {
						fail(prog, "%s: timer %q missing", where, key)
					} else if fmt.Sprint(e.Values()) != fmt.Sprint(r.timers) || e.Name() != r.name || !vdC11EqTags(e.Tags(), r.tags) {
						fail(prog, "%s: timer %q: got %v %v %v want %v %v %v", where, key, e.Name(), e.Tags(), e.Values(), r.name, r.tags, r.timers)
					}
				case "hv", "hd":
					nh++
					e, ok := snap.Histograms()[key]
					if !ok {
						fail(prog, "%s: histogram %q missing", where, key)
						continue
					}
					if e.Name() != r.name || !vdC11EqTags(e.Tags(), r.tags) {
						fail(prog, "%s: histogram %q: got %v %v want %v %v", where, key, e.Name(), e.Tags(), r.name, r.tags)
					}
					if kind == "hv" {
						for b, n := range r.hv {
							if e.Values()[b] != n {
								fail(prog, "%s: histogram %q bound %v: got %d want %d (%v)", where, key, b, e.Values()[b], n, e.Values())
							}
						}
						var tot, want int64
						for _, n := range e.Values() {
							tot += n
						}
						for _, n := range r.hv {
							want += n
						}
						if tot != want {
							fail(prog, "%s: histogram %q total %d want %d", where, key, tot, want)
						}
					} else {
						for b, n := range r.hd {
							if e.Durations()[b] != n {
								fail(prog, "%s: histogram %q bound %v: got %d want %d (%v)", where, key, b, e.Durations()[b], n, e.Durations())
							}
						}
					}
				}
			}
			if len(snap.Counters()) != nc || len(snap.Gauges()) != ng || len(snap.Timers()) != nt || len(snap.Histograms()) != nh {
				fail(prog, "%s: snapshot has %d/%d/%d/%d entries, reference %d/%d/%d/%d", where, len(snap.Counters()), len(snap.Gauges()), len(snap.Timers()), len(snap.Histograms()), nc, ng, nt, nh)
			}
			return root
		}
		place := func(v float64) float64 {
			for _, b := range []float64{1, 2, 5} {
				if v <= b {
					return b
				}
			}
			return 1.7976931348623157e+308
		}
		placeD := func(d time.Duration) time.Duration {
			for _, b := range []time.Duration{time.Millisecond, time.Second} {
				if d <= b {
					return b
				}
			}
			return time.Duration(1<<63 - 1)
		}
		nops := 10 + rng.Intn(30)
		for op := 0; op < nops; op++ {
			s := scopes[rng.Intn(len(scopes))]
			switch rng.Intn(10) {
			case 0: // SubScope
				if strings.Count(s.prefix, ".") < 2 {
					n := names[rng.Intn(len(names))]
					p := n
					if s.prefix != "" {
						p = s.prefix + "." + n
					}
					scopes = append(scopes, vdC11Scope{s.sc.SubScope(n), p, vdC11Copy(s.tags)})
				}
			case 1, 2: // Tagged (may override an inherited key)
				add := map[string]string{}
				for i := 1 + rng.Intn(2); i > 0; i-- {
					add[keys[rng.Intn(len(keys))]] = vals[rng.Intn(len(vals))]
				}
				nt := vdC11Copy(s.tags)
				for k, v := range add {
					nt[k] = v
				}
				scopes = append(scopes, vdC11Scope{s.sc.Tagged(add), s.prefix, nt})
			case 3, 4:
				n := "c" + names[rng.Intn(len(names))]
				d := int64(rng.Intn(5))
				s.sc.Counter(n).Inc(d)
				get("c", s, n).count += d
			case 5:
				n := "g" + names[rng.Intn(len(names))]
				v := float64(rng.Intn(100))
				s.sc.Gauge(n).Update(v)
				get("g", s, n).gauge = v
			case 6:
				n := "t" + names[rng.Intn(len(names))]
				d := time.Duration(rng.Intn(1000)) * time.Millisecond
				s.sc.Timer(n).Record(d)
				r := get("t", s, n)
				r.timers = append(r.timers, d)
			case 7:
				n := "hv" + names[rng.Intn(len(names))]
				v := float64(rng.Intn(8))
				s.sc.Histogram(n, valueB).RecordValue(v)
				get("hv", s, n).hv[place(v)]++
			case 8:
				n := "hd" + names[rng.Intn(len(names))]
				d := time.Duration(rng.Intn(3000)) * time.Millisecond
				s.sc.Histogram(n, durB).RecordDuration(d)
				get("hd", s, n).hd[placeD(d)]++
			case 9:
				check(fmt.Sprintf("op %d", op))
			}
		}
		check("end")
		// independence: a snapshot does not change with later recording or when modified
		before := root.Snapshot()
		type cv struct {
			k string
			v int64
		}
		var saved []cv
		for k, e := range before.Counters() {
			saved = append(saved, cv{k, e.Value()})
		}
		for _, s := range scopes {
			s.sc.Counter("creqs").Inc(7)
			get("c", s, "creqs").count += 7
		}
		for _, x := range saved {
			if before.Counters()[x.k].Value() != x.v {
				fail(prog, "snapshot changed after later recording: %q %d -> %d", x.k, x.v, before.Counters()[x.k].Value())
			}
		}
		for _, e := range before.Counters() {
			for k := range e.Tags() {
				e.Tags()[k] = "MUTATED"
			}
			e.Tags()["zz"] = "added"
		}
		check("after mutating an earlier snapshot")
		// Close of a subscope: metrics remain visible
		if len(scopes) > 1 {
			if c, ok := scopes[len(scopes)-1].sc.(interface{ Close() error }); ok {
				c.Close()
			}
			root.(*scope).reportRegistry()
			check("after Close of a subscope and a report pass")
		}
		if c, ok := root.(interface{ Close() error }); ok {
			_ = c
		}
	}
	// several bucket specs under one test scope, among them specs whose bounds add up
	// to the same total (the bucket cache keys storage by a commutative identity, so
	// these share a cache slot): every histogram must count against ITS OWN bounds
	{
		vspecs := []ValueBuckets{{1, 8}, {2, 4}, {3, 6}, {4, 5}, {0, 9}, {1, 2, 6}, {9}, {2, 4}}
		dspecs := []DurationBuckets{{10 * time.Millisecond, 40 * time.Millisecond}, {20 * time.Millisecond, 30 * time.Millisecond}, {50 * time.Millisecond}, {25 * time.Millisecond, 25 * time.Millisecond}}
		for round := 0; round < 3; round++ {
			root := NewTestScope("", nil)
			order := rng.Perm(len(vspecs))
			refV := map[string]map[float64]int64{}
			for _, i := range order {
				n := fmt.Sprintf("v%d", i)
				h := root.Histogram(n, vspecs[i])
				m := map[float64]int64{}
				for _, b := range vspecs[i] {
					m[b] = 0
				}
				m[math.MaxFloat64] = 0
				for k := 0; k < 12; k++ {
					v := float64(rng.Intn(11))
					h.RecordValue(v)
					ub := math.MaxFloat64
					for _, b := range vspecs[i] {
						if v <= b && b < ub {
							ub = b
						}
					}
					m[ub]++
				}
				refV[n+"+"] = m
			}
			refD := map[string]map[time.Duration]int64{}
			for _, i := range rng.Perm(len(dspecs)) {
				n := fmt.Sprintf("d%d", i)
				h := root.Histogram(n, dspecs[i])
				m := map[time.Duration]int64{}
				for _, b := range dspecs[i] {
					m[b] = 0
				}
				m[time.Duration(math.MaxInt64)] = 0
				for k := 0; k < 12; k++ {
					d := time.Duration(rng.Intn(60)) * time.Millisecond
					h.RecordDuration(d)
					ub := time.Duration(math.MaxInt64)
					for _, b := range dspecs[i] {
						if d <= b && b < ub {
							ub = b
						}
					}
					m[ub]++
				}
				refD[n+"+"] = m
			}
			snap := root.Snapshot().Histograms()
			for key, want := range refV {
				e, ok := snap[key]
				if !ok {
					fail(-1, "spec family: histogram %q missing from snapshot", key)
					continue
				}
				got := e.Values()
				same := len(got) == len(want)
				for b, c := range want {
					if gc, ok := got[b]; !ok || gc != c {
						same = false
					}
				}
				if !same {
					fail(-1, "spec family: histogram %q values %v, reference %v", key, got, want)
				}
			}
			for key, want := range refD {
				e, ok := snap[key]
				if !ok {
					fail(-1, "spec family: histogram %q missing from snapshot", key)
					continue
				}
				got := e.Durations()
				same := len(got) == len(want)
				for b, c := range want {
					if gc, ok := got[b]; !ok || gc != c {
						same = false
					}
				}
				if !same {
					fail(-1, "spec family: histogram %q durations %v, reference %v", key, got, want)
				}
			}
		}
	}
	if fails == 0 {
		fmt.Println("DRIVER-RESULT: ok property=C11 programs=400 seed=" + strconv.FormatInt(seed, 10))
	} else {
		t.Fatalf("DRIVER-RESULT: %d failures", fails)
	}
}
