package thrift

// quick-tier: yes (deterministic for a given VERIF_SEED, in-memory, < 1 s)
//
// REPLAY harness and bounded cross-check for the variable-length integer round
// trip of property C16 (injected with go test -overlay).  The round trip itself is
// PROVED for all values by the bit-vector harness (//@ roundtrip varint64/varint32);
// this test (a) replays the solver's counterexample values (VERIF_MODEL_VALUES, a
// comma-separated list of signed decimal numbers) on the real code when such an
// obligation fails, and (b) checks the composition zigzag o varint through the public
// WriteI16/I32/I64 - ReadI16/I32/I64 on boundary values (every power of two +-1 and its
// negation) and 20000 pseudo-random values (seed VERIF_SEED), and WriteString/ReadString on
// every length 0..300, the varint boundaries and the models' lengths, and (c) every byte, both
// booleans and the set / map / field / list headers of both protocols on boundary sizes, ids and all element types.  Prints DRIVER-FAIL lines.

import (
	"fmt"
	"math"
	"math/rand"
	"os"
	"strconv"
	"strings"
	"testing"
)

func TestVerifDriverC16(t *testing.T) {
	seed := int64(1)
	if s, err := strconv.ParseInt(os.Getenv("VERIF_SEED"), 10, 64); err == nil {
		seed = s
	}
	rng := rand.New(rand.NewSource(seed))
	fails := 0
	fail := func(format string, a ...interface{}) {
		fails++
		if fails <= 10 {
			fmt.Printf("DRIVER-FAIL: "+format+"\n", a...)
		}
	}
	var vals []int64
	for _, s := range strings.Split(os.Getenv("VERIF_MODEL_VALUES"), ",") {
		if v, err := strconv.ParseInt(strings.TrimSpace(s), 10, 64); err == nil {
			vals = append(vals, v)
		}
	}
	nModel := len(vals)
	vals = append(vals, 0, math.MaxInt64, math.MinInt64)
	for k := uint(0); k < 64; k++ {
		p := int64(1) << k
		vals = append(vals, p, p-1, p+1, -p, -p-1, -p+1)
	}
	nRandom := 20000
	if os.Getenv("VERIF_DRIVER_REASON") == "thorough" {
		nRandom = 400000 // thorough tier
	}
	for i := 0; i < nRandom; i++ {
		vals = append(vals, int64(rng.Uint64())>>uint(rng.Intn(64)))
	}
	buf := NewTMemoryBuffer()
	p := NewTCompactProtocol(buf)
	for _, v := range vals {
		// the two functions under the roundtrip harness, directly
		buf.Reset()
		if _, err := p.writeVarint64(v); err != nil {
			fail("writeVarint64(%d): %v", v, err)
		}
		n := buf.Len()
		r, err := p.readVarint64()
		if err != nil || r != v || buf.Len() != 0 || n > 10 {
			fail("varint64 round trip of %d: read %d err %v, %d bytes written, %d left unread", v, r, err, n, buf.Len())
		}
		buf.Reset()
		v32 := int32(v)
		if _, err := p.writeVarint32(v32); err != nil {
			fail("writeVarint32(%d): %v", v32, err)
		}
		n = buf.Len()
		r32, err := p.readVarint32()
		if err != nil || r32 != v32 || buf.Len() != 0 || n > 5 {
			fail("varint32 round trip of %d: read %d err %v, %d bytes written, %d left unread", v32, r32, err, n, buf.Len())
		}
		// the public integer API: zigzag o varint
		buf.Reset()
		p.WriteI64(v)
		if r, err := p.ReadI64(); err != nil || r != v || buf.Len() != 0 {
			fail("I64 round trip of %d: read %d err %v, %d left unread", v, r, err, buf.Len())
		}
		buf.Reset()
		p.WriteI32(v32)
		if r, err := p.ReadI32(); err != nil || r != v32 || buf.Len() != 0 {
			fail("I32 round trip of %d: read %d err %v, %d left unread", v32, r, err, buf.Len())
		}
		buf.Reset()
		v16 := int16(v)
		p.WriteI16(v16)
		if r, err := p.ReadI16(); err != nil || r != v16 || buf.Len() != 0 {
			fail("I16 round trip of %d: read %d err %v, %d left unread", v16, r, err, buf.Len())
		}
	}
	// doubles, bit for bit (model values are bit patterns here)
	var bits []uint64
	for _, v := range vals[:nModel] {
		bits = append(bits, uint64(v))
	}
	for _, f := range []float64{0, math.Copysign(0, -1), 1, -1, math.MaxFloat64, -math.MaxFloat64, math.SmallestNonzeroFloat64, math.Inf(1), math.Inf(-1), math.NaN(), math.Pi} {
		bits = append(bits, math.Float64bits(f))
	}
	bits = append(bits, 0x7ff8000000000001, 0xfff0000000000123, 0x0102030405060708, 0x8000000000000001)
	for i := 0; i < 2000; i++ {
		bits = append(bits, rng.Uint64())
	}
	for _, b := range bits {
		buf.Reset()
		if err := p.WriteDouble(math.Float64frombits(b)); err != nil {
			fail("WriteDouble(bits %#x): %v", b, err)
		}
		n := buf.Len()
		r, err := p.ReadDouble()
		if err != nil || math.Float64bits(r) != b || buf.Len() != 0 || n != 8 {
			fail("double round trip of bits %#x: read bits %#x err %v, %d bytes written, %d left unread", b, math.Float64bits(r), err, n, buf.Len())
		}
	}
	// the binary protocol's fixed-width fields on the same values
	bbuf := NewTMemoryBuffer()
	bp := NewTBinaryProtocolTransport(bbuf)
	for _, v := range vals {
		bbuf.Reset()
		bp.WriteI64(v)
		if r, err := bp.ReadI64(); err != nil || r != v || bbuf.Len() != 0 {
			fail("binary I64 round trip of %d: read %d err %v, %d left unread", v, r, err, bbuf.Len())
		}
		bbuf.Reset()
		bp.WriteI32(int32(v))
		if r, err := bp.ReadI32(); err != nil || r != int32(v) || bbuf.Len() != 0 {
			fail("binary I32 round trip of %d: read %d err %v, %d left unread", int32(v), r, err, bbuf.Len())
		}
		bbuf.Reset()
		bp.WriteI16(int16(v))
		if r, err := bp.ReadI16(); err != nil || r != int16(v) || bbuf.Len() != 0 {
			fail("binary I16 round trip of %d: read %d err %v, %d left unread", int16(v), r, err, bbuf.Len())
		}
	}
	for _, b := range bits {
		bbuf.Reset()
		bp.WriteDouble(math.Float64frombits(b))
		if r, err := bp.ReadDouble(); err != nil || math.Float64bits(r) != b || bbuf.Len() != 0 {
			fail("binary double round trip of bits %#x: read bits %#x err %v, %d left unread", b, math.Float64bits(r), err, bbuf.Len())
		}
	}
	// field and list headers of the compact protocol, against every previous field id
	// of a boundary family (the writer's and the reader's lastFieldId start equal)
	types := []TType{BYTE, DOUBLE, I16, I32, I64, STRING, STRUCT, MAP, SET, LIST}
	lastIDs := []int{0, 1, 2, 15, 16, 100, 32751, 32752, 32766, 32767, -1, -15, -16, -32768}
	ids := []int16{0, 1, 2, 14, 15, 16, 17, 100, 127, 128, 8191, 8192, 32766, 32767, -1, -2, -64, -65, -32768}
	for _, v := range vals[:nModel] {
		ids = append(ids, int16(v))
		lastIDs = append(lastIDs, int(int16(v)))
	}
	for _, last := range lastIDs {
		for _, id := range ids {
			for _, ty := range types {
				buf.Reset()
				p.lastFieldId = last
				if err := p.WriteFieldBegin("f", ty, id); err != nil {
					fail("WriteFieldBegin(type %d, id %d) after id %d: %v", ty, id, last, err)
				}
				after := p.lastFieldId
				p.lastFieldId = last
				_, rty, rid, err := p.ReadFieldBegin()
				if err != nil || rty != ty || rid != id || buf.Len() != 0 || p.lastFieldId != after {
					fail("field header (type %d, id %d) after id %d: read (type %d, id %d) err %v, %d bytes left, last id %d on the reading side, %d on the writing side", ty, id, last, rty, rid, err, buf.Len(), p.lastFieldId, after)
				}
			}
		}
	}
	p.lastFieldId = 0
	for _, size := range []int{0, 1, 2, 13, 14, 15, 16, 17, 127, 128, 16383, 16384, 1 << 20, math.MaxInt32} {
		for _, ty := range append([]TType{BOOL}, types...) {
			buf.Reset()
			if err := p.WriteListBegin(ty, size); err != nil {
				fail("WriteListBegin(type %d, size %d): %v", ty, size, err)
			}
			rty, rsize, err := p.ReadListBegin()
			if err != nil || rty != ty || rsize != size || buf.Len() != 0 {
				fail("list header (type %d, size %d): read (type %d, size %d) err %v, %d bytes left", ty, size, rty, rsize, err, buf.Len())
			}
		}
	}
	// single bytes, stand-alone booleans, set and map headers of the compact protocol;
	// bytes, booleans and headers of the binary protocol (model values are sizes, ids,
	// types and bytes here)
	sizes := []int{0, 1, 2, 13, 14, 15, 16, 17, 127, 128, 16383, 16384, 1 << 20, math.MaxInt32}
	for _, v := range vals[:nModel] {
		if v >= 0 && v <= math.MaxInt32 {
			sizes = append(sizes, int(v))
		}
	}
	for b := -128; b <= 127; b++ {
		buf.Reset()
		p.WriteByte(int8(b))
		if r, err := p.ReadByte(); err != nil || r != int8(b) || buf.Len() != 0 {
			fail("byte round trip of %d: read %d err %v, %d left unread", b, r, err, buf.Len())
		}
		bbuf.Reset()
		bp.WriteByte(int8(b))
		if r, err := bp.ReadByte(); err != nil || r != int8(b) || bbuf.Len() != 0 {
			fail("binary byte round trip of %d: read %d err %v, %d left unread", b, r, err, bbuf.Len())
		}
	}
	for _, v := range []bool{false, true} {
		buf.Reset()
		p.booleanFieldPending, p.boolValueIsNotNull = false, false
		p.WriteBool(v)
		if r, err := p.ReadBool(); err != nil || r != v || buf.Len() != 0 {
			fail("stand-alone bool round trip of %v: read %v err %v, %d left unread", v, r, err, buf.Len())
		}
		bbuf.Reset()
		bp.WriteBool(v)
		if r, err := bp.ReadBool(); err != nil || r != v || bbuf.Len() != 0 {
			fail("binary bool round trip of %v: read %v err %v, %d left unread", v, r, err, bbuf.Len())
		}
	}
	all := append([]TType{BOOL}, types...)
	for _, size := range sizes {
		for _, ty := range all {
			buf.Reset()
			p.WriteSetBegin(ty, size)
			if rty, rsize, err := p.ReadSetBegin(); err != nil || rty != ty || rsize != size || buf.Len() != 0 {
				fail("set header (type %d, size %d): read (type %d, size %d) err %v, %d bytes left", ty, size, rty, rsize, err, buf.Len())
			}
			bbuf.Reset()
			bp.WriteListBegin(ty, size)
			if rty, rsize, err := bp.ReadListBegin(); err != nil || rty != ty || rsize != size || bbuf.Len() != 0 {
				fail("binary list header (type %d, size %d): read (type %d, size %d) err %v, %d bytes left", ty, size, rty, rsize, err, bbuf.Len())
			}
			bbuf.Reset()
			bp.WriteSetBegin(ty, size)
			if rty, rsize, err := bp.ReadSetBegin(); err != nil || rty != ty || rsize != size || bbuf.Len() != 0 {
				fail("binary set header (type %d, size %d): read (type %d, size %d) err %v, %d bytes left", ty, size, rty, rsize, err, bbuf.Len())
			}
			for _, vt := range all {
				if size >= 1 { // the types of an empty map are not on the wire (compact)
					buf.Reset()
					p.WriteMapBegin(ty, vt, size)
					if rk, rv, rsize, err := p.ReadMapBegin(); err != nil || rk != ty || rv != vt || rsize != size || buf.Len() != 0 {
						fail("map header (types %d %d, size %d): read (types %d %d, size %d) err %v, %d bytes left", ty, vt, size, rk, rv, rsize, err, buf.Len())
					}
				}
				bbuf.Reset()
				bp.WriteMapBegin(ty, vt, size)
				if rk, rv, rsize, err := bp.ReadMapBegin(); err != nil || rk != ty || rv != vt || rsize != size || bbuf.Len() != 0 {
					fail("binary map header (types %d %d, size %d): read (types %d %d, size %d) err %v, %d bytes left", ty, vt, size, rk, rv, rsize, err, bbuf.Len())
				}
			}
		}
	}
	for _, id := range ids {
		for _, ty := range all {
			bbuf.Reset()
			bp.WriteFieldBegin("f", ty, id)
			if _, rty, rid, err := bp.ReadFieldBegin(); err != nil || rty != ty || rid != id || bbuf.Len() != 0 {
				fail("binary field header (type %d, id %d): read (type %d, id %d) err %v, %d bytes left", ty, id, rty, rid, err, bbuf.Len())
			}
		}
	}
	// strings: the length prefix and the bytes (model values are lengths here)
	var lens []int
	for _, v := range vals[:nModel] {
		if v >= 0 && v <= 1<<24 {
			lens = append(lens, int(v))
		}
	}
	for l := 0; l <= 300; l++ {
		lens = append(lens, l)
	}
	lens = append(lens, 16383, 16384, 16385, 2097151, 2097152, 2097153)
	for _, l := range lens {
		b := make([]byte, l)
		for i := range b {
			b[i] = byte(rng.Intn(256))
		}
		str := string(b)
		buf.Reset()
		if err := p.WriteString(str); err != nil {
			fail("WriteString of %d bytes: %v", l, err)
		}
		r, err := p.ReadString()
		if err != nil || r != str || buf.Len() != 0 {
			fail("string round trip of %d bytes: read %d bytes, err %v, %d left unread", l, len(r), err, buf.Len())
		}
	}
	if fails > 0 {
		t.Fatalf("%d failures", fails)
	}
	fmt.Printf("DRIVER-RESULT: ok C16 varint: %d values (%d from the solver's models)\n", len(vals), nModel)
}
