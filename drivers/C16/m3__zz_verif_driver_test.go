package m3

// quick-tier: yes (deterministic for a given VERIF_SEED; in-memory apart from one unread
// loopback UDP socket that a real reporter is pointed at; about 1 s)
//
// BOUNDED stand-in for the clauses of property C16 that no contract decides yet
// (injected with go test -overlay): encode/decode round trip of metric batches, the
// size calculator against the real encoder, and "maximal placeholder values give an
// upper bound" - for both protocols, through ONE reused protocol object per side, over
// an enumerated family of batches (0..40 metrics, 0..6 tags, all kinds, value extremes,
// strings with arbitrary bytes up to 300 bytes; deterministic pseudo-random fill, seed
// VERIF_SEED).  Bound: 600 batches per protocol (3000 in the thorough tier).  Prints DRIVER-FAIL lines.

import (
	"bytes"
	"fmt"
	"math"
	"math/rand"
	"net"
	"os"
	"reflect"
	"strconv"
	"testing"
	"time"

	tally "github.com/uber-go/tally/v4"
	customtransport "github.com/uber-go/tally/v4/m3/customtransports"
	m3thrift "github.com/uber-go/tally/v4/m3/thrift/v2"
	"github.com/uber-go/tally/v4/thirdparty/github.com/apache/thrift/lib/go/thrift"
)

func vdC16Str(rng *rand.Rand, max int) string {
	n := rng.Intn(max + 1)
	b := make([]byte, n)
	for i := range b {
		b[i] = byte(rng.Intn(256))
	}
	return string(b)
}

func vdC16Metric(rng *rand.Rand) m3thrift.Metric {
	i64 := []int64{0, 1, -1, 63, 64, -64, -65, 8191, 8192, math.MaxInt32, math.MinInt32, math.MaxInt64, math.MinInt64, rng.Int63(), -rng.Int63()}
	f64 := []float64{0, 1, -1, math.MaxFloat64, -math.MaxFloat64, math.SmallestNonzeroFloat64, math.Inf(1), math.Inf(-1), rng.NormFloat64()}
	m := m3thrift.Metric{Name: vdC16Str(rng, 300), Timestamp: i64[rng.Intn(len(i64))]}
	switch rng.Intn(3) {
	case 0:
		m.Value.MetricType = m3thrift.MetricType_COUNTER
		m.Value.Count = i64[rng.Intn(len(i64))]
	case 1:
		m.Value.MetricType = m3thrift.MetricType_GAUGE
		m.Value.Gauge = f64[rng.Intn(len(f64))]
	default:
		m.Value.MetricType = m3thrift.MetricType_TIMER
		m.Value.Timer = i64[rng.Intn(len(i64))]
	}
	for k := rng.Intn(7); k > 0; k-- {
		m.Tags = append(m.Tags, m3thrift.MetricTag{Name: vdC16Str(rng, 40), Value: vdC16Str(rng, 40)})
	}
	return m
}

func TestVerifDriverC16(t *testing.T) {
	seed := int64(1)
	if s, err := strconv.ParseInt(os.Getenv("VERIF_SEED"), 10, 64); err == nil {
		seed = s
	}
	fails := 0
	fail := func(format string, a ...interface{}) {
		fails++
		if fails <= 20 {
			fmt.Fprintf(os.Stdout, "DRIVER-FAIL: "+format+"\n", a...)
		}
	}
	for name, fac := range map[string]thrift.TProtocolFactory{"compact": thrift.NewTCompactProtocolFactory(), "binary": thrift.NewTBinaryProtocolFactoryDefault()} {
		rng := rand.New(rand.NewSource(seed))
		calc := &customtransport.TCalcTransport{}
		calcProto := fac.GetProtocol(calc) // reused for every structure
		mem := thrift.NewTMemoryBuffer()
		encProto := fac.GetProtocol(mem) // reused for every structure
		nBatches := 600
		if os.Getenv("VERIF_DRIVER_REASON") == "thorough" {
			nBatches = 3000 // thorough tier: five times as many batches
		}
		for iter := 0; iter < nBatches; iter++ {
			var b m3thrift.MetricBatch
			for k := rng.Intn(41); k > 0; k-- {
				b.Metrics = append(b.Metrics, vdC16Metric(rng))
			}
			for k := rng.Intn(5); k > 0; k-- {
				b.CommonTags = append(b.CommonTags, m3thrift.MetricTag{Name: vdC16Str(rng, 20), Value: vdC16Str(rng, 20)})
			}
			mem.Reset()
			if err := b.Write(encProto); err != nil {
				fail("%s: encode: %v", name, err)
				continue
			}
			enc := append([]byte(nil), mem.Bytes()...)
			calc.ResetCount()
			if err := b.Write(calcProto); err != nil {
				fail("%s: calc: %v", name, err)
			}
			if int(calc.GetCount()) != len(enc) {
				fail("%s: batch %d: calculator says %d bytes, encoder produced %d", name, iter, calc.GetCount(), len(enc))
			}
			rt, _ := customtransport.NewTBufferedReadTransport(bytes.NewBuffer(enc))
			var back m3thrift.MetricBatch
			if err := back.Read(fac.GetProtocol(rt)); err != nil {
				fail("%s: batch %d: decode: %v", name, iter, err)
				continue
			}
			if len(back.Metrics) != len(b.Metrics) || len(back.CommonTags) != len(b.CommonTags) {
				fail("%s: batch %d: decoded %d metrics / %d common tags, encoded %d / %d", name, iter, len(back.Metrics), len(back.CommonTags), len(b.Metrics), len(b.CommonTags))
				continue
			}
			for i := range b.Metrics {
				x, y := b.Metrics[i], back.Metrics[i]
				same := x.Name == y.Name && x.Timestamp == y.Timestamp && x.Value.MetricType == y.Value.MetricType && x.Value.Count == y.Value.Count && x.Value.Timer == y.Value.Timer &&
					math.Float64bits(x.Value.Gauge) == math.Float64bits(y.Value.Gauge) && len(x.Tags) == len(y.Tags)
				if same {
					for j := range x.Tags {
						if x.Tags[j] != y.Tags[j] {
							same = false
						}
					}
				}
				if !same {
					fail("%s: batch %d metric %d: decoded %+v, encoded %+v", name, iter, i, y, x)
					break
				}
			}
			if !reflect.DeepEqual(b.CommonTags, back.CommonTags) && len(b.CommonTags) > 0 {
				fail("%s: batch %d: common tags differ", name, iter)
			}
			// maximal placeholder values give an upper bound for any actual values
			for i := range b.Metrics {
				actual := b.Metrics[i]
				maxed := actual
				maxed.Timestamp = math.MaxInt64
				switch actual.Value.MetricType {
				case m3thrift.MetricType_COUNTER:
					maxed.Value.Count = math.MaxInt64
				case m3thrift.MetricType_GAUGE:
					maxed.Value.Gauge = math.MaxFloat64
				default:
					maxed.Value.Timer = math.MaxInt64
				}
				calc.ResetCount()
				maxed.Write(calcProto)
				upper := calc.GetCount()
				calc.ResetCount()
				actual.Write(calcProto)
				if calc.GetCount() > upper {
					fail("%s: metric with actual values needs %d bytes, with maximal placeholders %d: %+v", name, calc.GetCount(), upper, actual)
					break
				}
			}
		}
	}
	// charged sizes of the pre-built metrics of a real reporter against the real encoder,
	// for tag counts around the list-header boundaries (0..20 and 124..130 own tags):
	// counters and gauges as allocated; histogram buckets as they are SENT (own tags plus
	// the bucket-id and the bucket-range tag)
	if sink, err := net.ListenUDP("udp", &net.UDPAddr{IP: net.IPv4(127, 0, 0, 1)}); err == nil {
		for _, proto := range []Protocol{Compact, Binary} {
			ri, err := NewReporter(Options{HostPorts: []string{sink.LocalAddr().String()}, Service: "svc", Env: "test", Protocol: proto})
			if err != nil {
				fail("NewReporter: %v", err)
				continue
			}
			r := ri.(*reporter)
			var fac thrift.TProtocolFactory = thrift.NewTCompactProtocolFactory()
			if proto == Binary {
				fac = thrift.NewTBinaryProtocolFactoryDefault()
			}
			mem := thrift.NewTMemoryBuffer()
			enc := fac.GetProtocol(mem)
			encoded := func(m m3thrift.Metric) int32 {
				mem.Reset()
				m.Write(enc)
				return int32(mem.Len())
			}
			var counts []int
			for n := 0; n <= 20; n++ {
				counts = append(counts, n)
			}
			counts = append(counts, 124, 125, 126, 127, 128, 129, 130)
			for _, n := range counts {
				tags := map[string]string{}
				for i := 0; i < n; i++ {
					tags[fmt.Sprintf("k%03d", i)] = fmt.Sprintf("v%d", i)
				}
				label := fmt.Sprintf("protocol=%v tags=%d", proto, n)
				if c := r.AllocateCounter("c", tags).(cachedMetric); c.size != encoded(c.metric) {
					fail("%s: counter charged %d bytes, the encoder produces %d for the pre-built metric", label, c.size, encoded(c.metric))
				}
				if g := r.AllocateGauge("g", tags).(cachedMetric); g.size != encoded(g.metric) {
					fail("%s: gauge charged %d bytes, the encoder produces %d for the pre-built metric", label, g.size, encoded(g.metric))
				}
				for _, bk := range []tally.Buckets{tally.ValueBuckets{1, 2.5, 1000}, tally.DurationBuckets{time.Millisecond, 90 * time.Second}} {
					h := r.AllocateHistogram("h", tags, bk).(cachedHistogram)
					for _, b := range append(append([]cachedHistogramBucket{}, h.cachedValueBuckets...), h.cachedDurationBuckets...) {
						m := b.metric.metric
						sent := append(append([]m3thrift.MetricTag{}, m.Tags...),
							m3thrift.MetricTag{Name: r.bucketIDTagName, Value: b.bucketID},
							m3thrift.MetricTag{Name: r.bucketTagName, Value: b.bucket})
						m.Tags = sent
						if want := encoded(m); b.metric.size != want {
							fail("%s: histogram bucket %s charged %d bytes, the encoder produces %d for the metric as sent", label, b.bucket, b.metric.size, want)
						}
					}
				}
			}
			ri.Close()
		}
		sink.Close()
	}
	if fails == 0 {
		fmt.Fprintln(os.Stdout, "DRIVER-RESULT: ok")
	} else {
		t.Fatalf("%d failures", fails)
	}
}
