package tally

// BOUNDED fall-back driver for property C09 (injected with go test -overlay).  It is
// schedule-dependent, so it runs only as a fall-back (a function of the property is
// undecided, an obligation fails) and in the thorough tier (VERIF_DRIVER_REASON != quick).
//
// 16 goroutines are released together and ask the same live scope for the same counter,
// gauge, timer, histogram, subscope and tagged scope (fresh names every round, 60 rounds,
// cached reporter that counts Allocate calls per identity), record through what they got,
// while another goroutine runs report passes.  Oracle: all goroutines received the same
// object; each identity was allocated at most once; after a final pass every increment and
// every histogram sample made through any returned handle was delivered; nothing panicked.
// Prints DRIVER-FAIL lines.

import (
	"fmt"
	"os"
	"sync"
	"sync/atomic"
	"testing"
	"time"
)

type vdC09Rep struct {
	mu     sync.Mutex
	allocs map[string]int
	counts map[string]int64
}

func (r *vdC09Rep) alloc(kind, name string, tags map[string]string) string {
	id := kind + "|" + KeyForPrefixedStringMap(name, tags)
	r.mu.Lock()
	r.allocs[id]++
	r.mu.Unlock()
	return id
}
func (r *vdC09Rep) add(id string, v int64) {
	r.mu.Lock()
	r.counts[id] += v
	r.mu.Unlock()
}
func (r *vdC09Rep) Capabilities() Capabilities { return capabilitiesReportingTagging }
func (r *vdC09Rep) Flush()                     {}

type vdC09Handle struct {
	r  *vdC09Rep
	id string
}

func (h vdC09Handle) ReportCount(v int64)       { h.r.add(h.id, v) }
func (h vdC09Handle) ReportGauge(float64)       { h.r.add(h.id, 1) }
func (h vdC09Handle) ReportTimer(time.Duration) { h.r.add(h.id, 1) }
func (h vdC09Handle) ReportSamples(v int64)     { h.r.add(h.id, v) }
func (h vdC09Handle) ValueBucket(float64, float64) CachedHistogramBucket {
	return h
}
func (h vdC09Handle) DurationBucket(time.Duration, time.Duration) CachedHistogramBucket {
	return h
}
func (r *vdC09Rep) AllocateCounter(n string, t map[string]string) CachedCount {
	return vdC09Handle{r, r.alloc("counter", n, t)}
}
func (r *vdC09Rep) AllocateGauge(n string, t map[string]string) CachedGauge {
	return vdC09Handle{r, r.alloc("gauge", n, t)}
}
func (r *vdC09Rep) AllocateTimer(n string, t map[string]string) CachedTimer {
	return vdC09Handle{r, r.alloc("timer", n, t)}
}
func (r *vdC09Rep) AllocateHistogram(n string, t map[string]string, _ Buckets) CachedHistogram {
	return vdC09Handle{r, r.alloc("histogram", n, t)}
}

func TestVerifDriverC09(t *testing.T) {
	if r := os.Getenv("VERIF_DRIVER_REASON"); r == "quick" {
		fmt.Println("DRIVER-RESULT: ok C09 driver skipped in the quick tier")
		return
	}
	var fails int64
	fail := func(format string, a ...interface{}) {
		if atomic.AddInt64(&fails, 1) <= 15 {
			fmt.Printf("DRIVER-FAIL: "+format+"\n", a...)
		}
	}
	rep := &vdC09Rep{allocs: map[string]int{}, counts: map[string]int64{}}
	root := newRootScope(ScopeOptions{CachedReporter: rep, OmitCardinalityMetrics: true, registryShardCount: 2}, 0)
	const G = 16
	var stopPass int32
	var passWG sync.WaitGroup
	passWG.Add(1)
	go func() {
		defer passWG.Done()
		for atomic.LoadInt32(&stopPass) == 0 {
			root.reportRegistry()
		}
	}()
	var incs, samples, timers int64
	nRounds := 60
	if os.Getenv("VERIF_DRIVER_REASON") == "thorough" {
		nRounds = 400 // thorough tier
	}
	for round := 0; round < nRounds && atomic.LoadInt64(&fails) == 0; round++ {
		parent := root.SubScope(fmt.Sprintf("p%d", round%3))
		name := fmt.Sprintf("m%d", round)
		var (
			cs   [G]Counter
			gs   [G]Gauge
			ts   [G]Timer
			hs   [G]Histogram
			subs [G]Scope
			tgs  [G]Scope
		)
		start := make(chan struct{})
		var wg sync.WaitGroup
		for g := 0; g < G; g++ {
			wg.Add(1)
			go func(g int) {
				defer wg.Done()
				defer func() {
					if r := recover(); r != nil {
						fail("round %d: goroutine %d panicked: %v", round, g, r)
					}
				}()
				<-start
				cs[g] = parent.Counter(name)
				cs[g].Inc(1)
				gs[g] = parent.Gauge(name)
				gs[g].Update(float64(g))
				hs[g] = parent.Histogram(name, ValueBuckets{1, 2, 3})
				hs[g].RecordValue(1.5)
				ts[g] = parent.Timer(name)
				ts[g].Record(time.Millisecond)
				subs[g] = parent.SubScope(name)
				subs[g].Counter("inner").Inc(1)
				tgs[g] = parent.Tagged(map[string]string{"r": name})
				tgs[g].Counter("inner").Inc(1)
			}(g)
		}
		close(start)
		wg.Wait()
		incs += 3 * G
		samples += G
		timers += G
		for g := 1; g < G; g++ {
			if cs[g] != cs[0] || gs[g] != gs[0] || ts[g] != ts[0] || hs[g] != hs[0] || subs[g] != subs[0] || tgs[g] != tgs[0] {
				fail("round %d: goroutines 0 and %d received different objects for the same identity", round, g)
				break
			}
		}
	}
	atomic.StoreInt32(&stopPass, 1)
	passWG.Wait()
	root.reportRegistry()
	rep.mu.Lock()
	var gotInc, gotSamples, gotTimers int64
	for id, n := range rep.allocs {
		if n != 1 {
			fail("%s: Allocate called %d times, want exactly 1", id, n)
		}
	}
	for id, v := range rep.counts {
		switch id[0] {
		case 'c':
			gotInc += v
		case 'h':
			gotSamples += v
		case 't':
			gotTimers += v
		}
	}
	rep.mu.Unlock()
	if gotInc != incs || gotSamples != samples || gotTimers != timers {
		fail("recorded %d increments / %d samples / %d timer values through the returned handles, delivered %d / %d / %d", incs, samples, timers, gotInc, gotSamples, gotTimers)
	}
	root.Close()
	if fails > 0 {
		t.Fatalf("%d failures", fails)
	}
	fmt.Println("DRIVER-RESULT: ok C09")
}
