package tally

// quick-tier: yes (deterministic, sequential, no I/O, < 2 s)
//
// Bounded replay / fall-back driver for property C07 (injected with go test -overlay).
//
// Sequential small-scope enumeration: every sequence of length <= 6 over {G: obtain the
// scope (again) and its counter, I: increment the current live counter, C: close the
// current scope, R: run a report pass}, on three identities (a tag value the sanitizer
// rewrites, a tag it leaves alone, a subscope name it rewrites), with and without a
// sanitizer, plain and cached reporters, 1 and 3 registry shards, with a bystander
// scope that is incremented throughout.  After two final passes the reporter must have
// received exactly the sum of all increments made through live handles, under the
// sanitized identity, and the bystander's total must be untouched.  Interleavings with
// a concurrent report pass are NOT explored here (that is what the lock contracts are
// for).  Prints DRIVER-FAIL lines.

import (
	"fmt"
	"os"
	"sync"
	"sync/atomic"
	"testing"
	"time"
)

type vdC07Rep struct {
	mu   sync.Mutex
	sums map[string]int64
}

func (r *vdC07Rep) add(name string, tags map[string]string, v int64) {
	r.mu.Lock()
	r.sums[KeyForPrefixedStringMap(name, tags)] += v
	r.mu.Unlock()
}
func (r *vdC07Rep) Capabilities() Capabilities { return capabilitiesReportingTagging }
func (r *vdC07Rep) Flush()                     {}
func (r *vdC07Rep) ReportCounter(name string, tags map[string]string, v int64) {
	r.add(name, tags, v)
}
func (r *vdC07Rep) ReportGauge(string, map[string]string, float64)       {}
func (r *vdC07Rep) ReportTimer(string, map[string]string, time.Duration) {}
func (r *vdC07Rep) ReportHistogramValueSamples(string, map[string]string, Buckets, float64, float64, int64) {
}
func (r *vdC07Rep) ReportHistogramDurationSamples(string, map[string]string, Buckets, time.Duration, time.Duration, int64) {
}

type vdC07Count struct {
	r    *vdC07Rep
	name string
	tags map[string]string
}

func (c vdC07Count) ReportCount(v int64) { c.r.add(c.name, c.tags, v) }

type vdC07Nop struct{}

func (vdC07Nop) ReportGauge(float64)       {}
func (vdC07Nop) ReportTimer(time.Duration) {}
func (vdC07Nop) ReportSamples(int64)       {}
func (vdC07Nop) ValueBucket(float64, float64) CachedHistogramBucket {
	return vdC07Nop{}
}
func (vdC07Nop) DurationBucket(time.Duration, time.Duration) CachedHistogramBucket {
	return vdC07Nop{}
}
func (r *vdC07Rep) AllocateCounter(name string, tags map[string]string) CachedCount {
	cp := map[string]string{}
	for k, v := range tags {
		cp[k] = v
	}
	return vdC07Count{r, name, cp}
}
func (r *vdC07Rep) AllocateGauge(string, map[string]string) CachedGauge { return vdC07Nop{} }
func (r *vdC07Rep) AllocateTimer(string, map[string]string) CachedTimer { return vdC07Nop{} }
func (r *vdC07Rep) AllocateHistogram(string, map[string]string, Buckets) CachedHistogram {
	return vdC07Nop{}
}

func TestVerifDriverC07(t *testing.T) {
	fails := 0
	fail := func(format string, a ...interface{}) {
		fails++
		if fails <= 20 {
			fmt.Fprintf(os.Stdout, "DRIVER-FAIL: "+format+"\n", a...)
		}
	}
	san := SanitizeOptions{
		NameCharacters:       ValidCharacters{Ranges: AlphanumericRange, Characters: UnderscoreCharacters},
		KeyCharacters:        ValidCharacters{Ranges: AlphanumericRange, Characters: UnderscoreCharacters},
		ValueCharacters:      ValidCharacters{Ranges: AlphanumericRange, Characters: UnderscoreCharacters},
		ReplacementCharacter: DefaultReplacementCharacter,
	}
	var seqs []string
	var gen func(p string)
	gen = func(p string) {
		seqs = append(seqs, p)
		if len(p) == 6 {
			return
		}
		for _, c := range "GICR" {
			gen(p + string(c))
		}
	}
	gen("")
	type ident struct {
		get      func(root Scope) Scope
		name     string            // delivered counter name with a sanitizer
		nameRaw  string            // without
		tags     map[string]string // delivered tags with a sanitizer
		tagsRaw  map[string]string
		label    string
		needsSan bool
	}
	idents := []ident{
		{func(r Scope) Scope { return r.Tagged(map[string]string{"e": "a.b"}) }, "svc_hits", "svc.hits", map[string]string{"e": "a_b"}, map[string]string{"e": "a.b"}, "Tagged(e=a.b)", true},
		{func(r Scope) Scope { return r.Tagged(map[string]string{"e": "ab"}) }, "svc_hits", "svc.hits", map[string]string{"e": "ab"}, map[string]string{"e": "ab"}, "Tagged(e=ab)", false},
		{func(r Scope) Scope { return r.SubScope("x-y") }, "svc_x_y_hits", "svc.x-y.hits", map[string]string{}, map[string]string{}, "SubScope(x-y)", true},
	}
	for _, withSan := range []bool{true, false} {
		for _, cached := range []bool{false, true} {
			for _, shards := range []uint{1, 3} {
				for _, id := range idents {
					for _, seq := range seqs {
						rep := &vdC07Rep{sums: map[string]int64{}}
						opts := ScopeOptions{Prefix: "svc", OmitCardinalityMetrics: true, registryShardCount: shards}
						if withSan {
							opts.SanitizeOptions = &san
							opts.Separator = "_"
						}
						if cached {
							opts.CachedReporter = rep
						} else {
							opts.Reporter = rep
						}
						rs, closer := NewRootScope(opts, 0)
						root := rs.(*scope)
						by := root.Tagged(map[string]string{"by": "stander"}).Counter("hits")
						var cur Scope
						var ctr Counter
						live := false
						var want, wantBy int64
						inc := int64(1)
						ok := true
						for _, op := range seq {
							switch op {
							case 'G':
								cur = id.get(root)
								ctr = cur.Counter("hits")
								live = true
							case 'I':
								if !live {
									ok = false
								} else {
									ctr.Inc(inc)
									want += inc
									inc *= 7
								}
							case 'C':
								if !live {
									ok = false
								} else {
									cur.(*scope).Close()
									live = false
								}
							case 'R':
								root.reportRegistry()
							}
							by.Inc(3)
							wantBy += 3
						}
						if !ok {
							closer.Close()
							continue
						}
						root.reportRegistry()
						root.reportRegistry()
						name, tags := id.nameRaw, id.tagsRaw
						if withSan {
							name, tags = id.name, id.tags
						}
						if got := rep.sums[KeyForPrefixedStringMap(name, tags)]; got != want {
							fail("sanitizer=%v cached=%v shards=%d %s sequence %q: delivered %d, recorded %d", withSan, cached, shards, id.label, seq, got, want)
						}
						byName := "svc.hits"
						if withSan {
							byName = "svc_hits"
						}
						if got := rep.sums[KeyForPrefixedStringMap(byName, map[string]string{"by": "stander"})]; got != wantBy {
							fail("sanitizer=%v cached=%v shards=%d %s sequence %q: bystander delivered %d, recorded %d", withSan, cached, shards, id.label, seq, got, wantBy)
						}
						closer.Close()
					}
				}
			}
		}
	}
	if fails == 0 {
		fmt.Fprintln(os.Stdout, "DRIVER-RESULT: ok")
	} else {
		t.Fatalf("%d failures", fails)
	}
}

// Concurrent section (fall-back and thorough tier only: VERIF_DRIVER_REASON != quick).
// A few application goroutines, each owning ONE identity, cycle {obtain the subscope,
// Inc, Close} while the periodic report pass runs on a very short ticker.  Every Inc
// happens before the Close of the scope it was made on, so once the root is closed every
// increment must have been delivered, exactly once - whatever the interleaving.
// BOUNDED: 8 rounds of 400 ms over {1, 4} shards x {2, 4} workers x {plain, cached};
// a schedule-dependent loss may need more rounds to show.
type vdC07Sum struct{ delivered int64 }

func (r *vdC07Sum) ReportCounter(_ string, _ map[string]string, v int64) {
	atomic.AddInt64(&r.delivered, v)
}
func (r *vdC07Sum) ReportGauge(string, map[string]string, float64)       {}
func (r *vdC07Sum) ReportTimer(string, map[string]string, time.Duration) {}
func (r *vdC07Sum) Capabilities() Capabilities                           { return capabilitiesReportingTagging }
func (r *vdC07Sum) Flush()                                               {}
func (r *vdC07Sum) ReportHistogramValueSamples(string, map[string]string, Buckets, float64, float64, int64) {
}
func (r *vdC07Sum) ReportHistogramDurationSamples(string, map[string]string, Buckets, time.Duration, time.Duration, int64) {
}

type vdC07SumCount struct{ r *vdC07Sum }

func (c vdC07SumCount) ReportCount(v int64) { atomic.AddInt64(&c.r.delivered, v) }

type vdC07SumCached struct{ r *vdC07Sum }

func (c vdC07SumCached) Capabilities() Capabilities { return capabilitiesReportingTagging }
func (c vdC07SumCached) Flush()                     {}
func (c vdC07SumCached) AllocateCounter(string, map[string]string) CachedCount {
	return vdC07SumCount{c.r}
}
func (c vdC07SumCached) AllocateGauge(string, map[string]string) CachedGauge { return vdC07Nop{} }
func (c vdC07SumCached) AllocateTimer(string, map[string]string) CachedTimer { return vdC07Nop{} }
func (c vdC07SumCached) AllocateHistogram(string, map[string]string, Buckets) CachedHistogram {
	return nil
}

func TestVerifDriverC07Concurrent(t *testing.T) {
	if r := os.Getenv("VERIF_DRIVER_REASON"); r == "" || r == "quick" {
		fmt.Println("DRIVER-RESULT: ok C07 concurrent section skipped in the quick tier")
		return
	}
	fails := 0
	round := 0
	for _, shards := range []uint{1, 4} {
		for _, workers := range []int{2, 4} {
			for _, cached := range []bool{false, true} {
				round++
				rep := &vdC07Sum{}
				opts := ScopeOptions{OmitCardinalityMetrics: true, registryShardCount: shards}
				if cached {
					opts.CachedReporter = vdC07SumCached{rep}
				} else {
					opts.Reporter = rep
				}
				root, closer := NewRootScope(opts, 20*time.Microsecond)
				var wg sync.WaitGroup
				var stop int32
				var made int64
				for w := 0; w < workers; w++ {
					wg.Add(1)
					go func(w int) {
						defer wg.Done()
						tags := map[string]string{"id": fmt.Sprintf("w%d", w)}
						var n int64
						for atomic.LoadInt32(&stop) == 0 {
							s := root.Tagged(tags)
							s.Counter("c").Inc(1)
							n++
							_ = s.(*scope).Close()
						}
						atomic.AddInt64(&made, n)
					}(w)
				}
				window := 400 * time.Millisecond
				if os.Getenv("VERIF_DRIVER_REASON") == "thorough" {
					window = 1500 * time.Millisecond // thorough tier
				}
				time.Sleep(window)
				atomic.StoreInt32(&stop, 1)
				wg.Wait()
				_ = closer.Close()
				if m, d := atomic.LoadInt64(&made), atomic.LoadInt64(&rep.delivered); m != d {
					fails++
					fmt.Printf("DRIVER-FAIL: concurrent close/re-obtain: shards=%d workers=%d cached=%v: %d increments made before the Close of their scope, %d delivered\n", shards, workers, cached, m, d)
				}
			}
		}
	}
	if fails > 0 {
		t.Fatalf("%d failures", fails)
	}
	fmt.Printf("DRIVER-RESULT: ok C07 concurrent section: %d rounds\n", round)
}
