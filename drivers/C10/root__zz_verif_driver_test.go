package tally

// quick-tier: yes (deterministic, sequential, no I/O, < 1 s)
//
// BOUNDED replay / fall-back driver for property C10 (injected with go test -overlay).
// Timers on the root, a subscope and a tagged scope, through a plain reporter, a cached
// reporter and a reporter-less test scope: every Record(d) - d negative, zero, small,
// int64 extremes - produces exactly one delivery carrying d with the scope's full name
// and tags, visible before Record returns; report passes in between deliver no timer
// values and repeat none; records made through a handle after its scope (or the root) was
// closed are still delivered exactly once; a stopwatch records the elapsed time between
// Start and Stop (checked against a sleep: at least the sleep, below sleep + 2 s) on timers
// and duration histograms.  Prints DRIVER-FAIL lines.

import (
	"fmt"
	"math"
	"testing"
	"time"
)

type vdC10Ev struct {
	name string
	tags string
	d    time.Duration
}

type vdC10Rep struct{ evs []vdC10Ev }

func (r *vdC10Rep) Capabilities() Capabilities                     { return capabilitiesReportingTagging }
func (r *vdC10Rep) Flush()                                         {}
func (r *vdC10Rep) ReportCounter(string, map[string]string, int64) {}
func (r *vdC10Rep) ReportGauge(string, map[string]string, float64) {}
func (r *vdC10Rep) ReportTimer(n string, t map[string]string, d time.Duration) {
	r.evs = append(r.evs, vdC10Ev{n, fmt.Sprint(t), d})
}
func (r *vdC10Rep) ReportHistogramValueSamples(string, map[string]string, Buckets, float64, float64, int64) {
}
func (r *vdC10Rep) ReportHistogramDurationSamples(string, map[string]string, Buckets, time.Duration, time.Duration, int64) {
}

type vdC10Timer struct {
	r    *vdC10Rep
	name string
	tags string
}

func (t vdC10Timer) ReportTimer(d time.Duration) {
	t.r.evs = append(t.r.evs, vdC10Ev{t.name, t.tags, d})
}

type vdC10Nop struct{}

func (vdC10Nop) ReportCount(int64)   {}
func (vdC10Nop) ReportGauge(float64) {}

type vdC10Cached struct{ r *vdC10Rep }

func (c vdC10Cached) Capabilities() Capabilities                            { return capabilitiesReportingTagging }
func (c vdC10Cached) Flush()                                                {}
func (c vdC10Cached) AllocateCounter(string, map[string]string) CachedCount { return vdC10Nop{} }
func (c vdC10Cached) AllocateGauge(string, map[string]string) CachedGauge   { return vdC10Nop{} }
func (c vdC10Cached) AllocateTimer(n string, t map[string]string) CachedTimer {
	return vdC10Timer{c.r, n, fmt.Sprint(t)}
}
func (c vdC10Cached) AllocateHistogram(string, map[string]string, Buckets) CachedHistogram {
	return nil
}

func TestVerifDriverC10(t *testing.T) {
	fails := 0
	fail := func(format string, a ...interface{}) {
		fails++
		if fails <= 20 {
			fmt.Printf("DRIVER-FAIL: "+format+"\n", a...)
		}
	}
	durs := []time.Duration{0, 1, -1, time.Millisecond, -time.Hour, math.MaxInt64, math.MinInt64, 42 * time.Second}
	for _, mode := range []string{"plain", "cached", "test"} {
		rep := &vdC10Rep{}
		opts := ScopeOptions{Prefix: "svc", Tags: map[string]string{"env": "x"}, OmitCardinalityMetrics: true}
		var root *scope
		var ts TestScope
		switch mode {
		case "plain":
			opts.Reporter = rep
			root = newRootScope(opts, 0)
		case "cached":
			opts.CachedReporter = vdC10Cached{rep}
			root = newRootScope(opts, 0)
		default:
			ts = NewTestScope("svc", map[string]string{"env": "x"})
			root = ts.(*scope)
		}
		type site struct {
			sc   Scope
			name string
			tags string
		}
		sub := root.SubScope("sub")
		tagged := root.Tagged(map[string]string{"k": "v"})
		sites := []site{
			{root, "svc.lat", fmt.Sprint(map[string]string{"env": "x"})},
			{sub, "svc.sub.lat", fmt.Sprint(map[string]string{"env": "x"})},
			{tagged, "svc.lat", fmt.Sprint(map[string]string{"env": "x", "k": "v"})},
		}
		delivered := func() []vdC10Ev {
			if mode != "test" {
				return rep.evs
			}
			var out []vdC10Ev
			for _, s := range ts.Snapshot().Timers() {
				for _, d := range s.Values() {
					out = append(out, vdC10Ev{s.Name(), fmt.Sprint(s.Tags()), d})
				}
			}
			return out
		}
		count := func(name, tags string, d time.Duration) int {
			n := 0
			for _, e := range delivered() {
				if e.name == name && e.tags == tags && e.d == d {
					n++
				}
			}
			return n
		}
		total := 0
		timers := make([]Timer, len(sites))
		for i, s := range sites {
			timers[i] = s.sc.Timer("lat")
		}
		for round := 0; round < 2; round++ {
			for i, s := range sites {
				for _, d := range durs {
					d += time.Duration(1000*i + 100000*round) // make every (site, round, d) value unique
					before := len(delivered())
					timers[i].Record(d)
					total++
					if got := len(delivered()); got != before+1 {
						fail("%s: Record(%d) on %s %s produced %d deliveries before it returned", mode, d, s.name, s.tags, got-before)
					}
					if n := count(s.name, s.tags, d); n != 1 {
						fail("%s: Record(%d) on %s %s was delivered %d times with its own name, tags and value", mode, d, s.name, s.tags, n)
					}
				}
				// a report pass neither repeats nor delivers timer values
				if mode != "test" {
					before := len(rep.evs)
					root.reportRegistry()
					if len(rep.evs) != before {
						fail("%s: a report pass delivered %d timer values", mode, len(rep.evs)-before)
					}
				}
			}
			if round == 0 && mode != "test" {
				// handles stay usable after their scope, then the root, was closed
				sub.(*scope).Close()
			}
		}
		if mode != "test" {
			root.Close()
			for i, s := range sites {
				d := time.Duration(777000 + i)
				before := len(rep.evs)
				timers[i].Record(d)
				total++
				if len(rep.evs) != before+1 || count(s.name, s.tags, d) != 1 {
					fail("%s: Record on a handle of %s %s after the root was closed produced %d deliveries", mode, s.name, s.tags, len(rep.evs)-before)
				}
			}
		}
		if got := len(delivered()); got != total {
			fail("%s: %d records, %d deliveries", mode, total, got)
		}
	}
	// stopwatches
	{
		rep := &vdC10Rep{}
		root := newRootScope(ScopeOptions{Reporter: rep, OmitCardinalityMetrics: true}, 0)
		sw := root.Timer("sw").Start()
		time.Sleep(30 * time.Millisecond)
		sw.Stop()
		if len(rep.evs) != 1 || rep.evs[0].d < 30*time.Millisecond || rep.evs[0].d > 2030*time.Millisecond {
			fail("stopwatch on a timer: slept 30ms, recorded %v", rep.evs)
		}
		ts := NewTestScope("", nil)
		h := ts.Histogram("h", DurationBuckets{10 * time.Millisecond, 10 * time.Second})
		hsw := h.Start()
		time.Sleep(30 * time.Millisecond)
		hsw.Stop()
		hs := ts.Snapshot().Histograms()
		n := int64(0)
		for _, s := range hs {
			n += s.Durations()[10*time.Second]
			if s.Durations()[10*time.Millisecond] != 0 {
				fail("stopwatch on a duration histogram: a 30ms sleep was recorded as <= 10ms")
			}
		}
		if n != 1 {
			fail("stopwatch on a duration histogram: %d samples in (10ms, 10s] after a 30ms sleep", n)
		}
		root.Close()
	}
	// a root with BOTH a plain and a cached reporter: the cached timer takes precedence,
	// the plain reporter sees nothing, each record is delivered exactly once
	{
		plain, cached := &vdC10Rep{}, &vdC10Rep{}
		root := newRootScope(ScopeOptions{Reporter: plain, CachedReporter: vdC10Cached{cached}, OmitCardinalityMetrics: true}, 0)
		tm := root.Tagged(map[string]string{"k": "v"}).Timer("both")
		for i := 1; i <= 5; i++ {
			tm.Record(time.Duration(i) * time.Millisecond)
		}
		if len(cached.evs) != 5 || len(plain.evs) != 0 {
			fail("plain and cached reporter: 5 records, %d deliveries on the cached timer, %d through the plain reporter", len(cached.evs), len(plain.evs))
		}
		for i, e := range cached.evs {
			if e.d != time.Duration(i+1)*time.Millisecond {
				fail("plain and cached reporter: record %d delivered as %v", i+1, e.d)
			}
		}
		root.Close()
	}
	if fails > 0 {
		t.Fatalf("%d failures", fails)
	}
	fmt.Println("DRIVER-RESULT: ok C10")
}
