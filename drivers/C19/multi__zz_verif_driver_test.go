package multi

// quick-tier: yes (deterministic, sequential, no I/O, < 1 s)
//
// BOUNDED replay / fall-back driver for property C19 (injected with go test -overlay).
// For 0..4 children with every combination of capabilities, both reporter flavours: a
// fixed history of reports, allocations, handle reports (histogram buckets included)
// and flushes is applied to the multi reporter; one shared log records (child index,
// call, arguments).  Oracle: every call on the multi reporter produced exactly one
// identical call on each child, children in the order given (the log is the history with
// every entry repeated once per child, in child order); handle reports reach the
// corresponding handle of every child; Capabilities is the conjunction of the children's
// (all true for no children).  Prints DRIVER-FAIL lines.

import (
	"fmt"
	"testing"
	"time"

	tally "github.com/uber-go/tally/v4"
)

type vdC19Caps struct{ r, t bool }

func (c vdC19Caps) Reporting() bool { return c.r }
func (c vdC19Caps) Tagging() bool   { return c.t }

type vdC19Log struct{ entries []string }

func (l *vdC19Log) add(child int, format string, a ...interface{}) {
	l.entries = append(l.entries, fmt.Sprintf("%d:", child)+fmt.Sprintf(format, a...))
}

type vdC19Child struct {
	idx  int
	caps vdC19Caps
	log  *vdC19Log
	nh   int
}

func (c *vdC19Child) Capabilities() tally.Capabilities { return c.caps }
func (c *vdC19Child) Flush()                           { c.log.add(c.idx, "Flush") }
func (c *vdC19Child) ReportCounter(n string, t map[string]string, v int64) {
	c.log.add(c.idx, "ReportCounter %s %v %d", n, t, v)
}
func (c *vdC19Child) ReportGauge(n string, t map[string]string, v float64) {
	c.log.add(c.idx, "ReportGauge %s %v %v", n, t, v)
}
func (c *vdC19Child) ReportTimer(n string, t map[string]string, v time.Duration) {
	c.log.add(c.idx, "ReportTimer %s %v %v", n, t, v)
}
func (c *vdC19Child) ReportHistogramValueSamples(n string, t map[string]string, b tally.Buckets, lo, hi float64, s int64) {
	c.log.add(c.idx, "HV %s %v %v %v %v %d", n, t, b, lo, hi, s)
}
func (c *vdC19Child) ReportHistogramDurationSamples(n string, t map[string]string, b tally.Buckets, lo, hi time.Duration, s int64) {
	c.log.add(c.idx, "HD %s %v %v %v %v %d", n, t, b, lo, hi, s)
}

type vdC19Handle struct {
	c    *vdC19Child
	what string
}

func (h vdC19Handle) ReportCount(v int64)   { h.c.log.add(h.c.idx, "%s.ReportCount %d", h.what, v) }
func (h vdC19Handle) ReportGauge(v float64) { h.c.log.add(h.c.idx, "%s.ReportGauge %v", h.what, v) }
func (h vdC19Handle) ReportTimer(v time.Duration) {
	h.c.log.add(h.c.idx, "%s.ReportTimer %v", h.what, v)
}
func (h vdC19Handle) ReportSamples(v int64) { h.c.log.add(h.c.idx, "%s.ReportSamples %d", h.what, v) }
func (h vdC19Handle) ValueBucket(lo, hi float64) tally.CachedHistogramBucket {
	h.c.log.add(h.c.idx, "%s.ValueBucket %v %v", h.what, lo, hi)
	return vdC19Handle{h.c, fmt.Sprintf("%s(%v,%v]", h.what, lo, hi)}
}
func (h vdC19Handle) DurationBucket(lo, hi time.Duration) tally.CachedHistogramBucket {
	h.c.log.add(h.c.idx, "%s.DurationBucket %v %v", h.what, lo, hi)
	return vdC19Handle{h.c, fmt.Sprintf("%s(%v,%v]", h.what, lo, hi)}
}

func (c *vdC19Child) AllocateCounter(n string, t map[string]string) tally.CachedCount {
	c.log.add(c.idx, "AllocateCounter %s %v", n, t)
	return vdC19Handle{c, "counter:" + n}
}
func (c *vdC19Child) AllocateGauge(n string, t map[string]string) tally.CachedGauge {
	c.log.add(c.idx, "AllocateGauge %s %v", n, t)
	return vdC19Handle{c, "gauge:" + n}
}
func (c *vdC19Child) AllocateTimer(n string, t map[string]string) tally.CachedTimer {
	c.log.add(c.idx, "AllocateTimer %s %v", n, t)
	return vdC19Handle{c, "timer:" + n}
}
func (c *vdC19Child) AllocateHistogram(n string, t map[string]string, b tally.Buckets) tally.CachedHistogram {
	c.log.add(c.idx, "AllocateHistogram %s %v %v", n, t, b)
	return vdC19Handle{c, "hist:" + n}
}

func TestVerifDriverC19(t *testing.T) {
	fails := 0
	fail := func(format string, a ...interface{}) {
		fails++
		if fails <= 20 {
			fmt.Printf("DRIVER-FAIL: "+format+"\n", a...)
		}
	}
	capsAll := []vdC19Caps{{true, true}, {true, false}, {false, true}, {false, false}}
	tags := map[string]string{"k": "v", "a": "b"}
	vb := tally.ValueBuckets{1, 2, 3}
	db := tally.DurationBuckets{time.Second, time.Minute}
	configs := 0
	var gen func(prefix []vdC19Caps, n int, f func([]vdC19Caps))
	gen = func(prefix []vdC19Caps, n int, f func([]vdC19Caps)) {
		if len(prefix) == n {
			f(prefix)
			return
		}
		for _, c := range capsAll {
			gen(append(append([]vdC19Caps{}, prefix...), c), n, f)
		}
	}
	for n := 0; n <= 4; n++ {
		gen(nil, n, func(cs []vdC19Caps) {
			configs++
			wantR, wantT := true, true
			for _, c := range cs {
				wantR = wantR && c.r
				wantT = wantT && c.t
			}
			for _, cached := range []bool{false, true} {
				log := &vdC19Log{}
				var children []*vdC19Child
				for i, c := range cs {
					children = append(children, &vdC19Child{idx: i, caps: c, log: log})
				}
				// the history, as the per-child log lines it must produce
				var want []string
				expect := func(format string, a ...interface{}) { want = append(want, fmt.Sprintf(format, a...)) }
				var caps tally.Capabilities
				if !cached {
					var rs []tally.StatsReporter
					for _, c := range children {
						rs = append(rs, c)
					}
					m := NewMultiReporter(rs...)
					caps = m.Capabilities()
					m.ReportCounter("c", tags, 7)
					expect("ReportCounter c %v 7", tags)
					m.ReportGauge("g", nil, 2.5)
					expect("ReportGauge g %v 2.5", map[string]string(nil))
					m.ReportTimer("t", tags, 3*time.Second)
					expect("ReportTimer t %v 3s", tags)
					m.Flush()
					expect("Flush")
					m.ReportHistogramValueSamples("hv", tags, vb, 1, 2, 5)
					expect("HV hv %v %v 1 2 5", tags, vb)
					m.ReportHistogramDurationSamples("hd", tags, db, time.Second, time.Minute, 9)
					expect("HD hd %v %v 1s 1m0s 9", tags, db)
					m.ReportCounter("c", tags, -1)
					expect("ReportCounter c %v -1", tags)
					m.Flush()
					expect("Flush")
				} else {
					var rs []tally.CachedStatsReporter
					for _, c := range children {
						rs = append(rs, c)
					}
					m := NewMultiCachedReporter(rs...)
					caps = m.Capabilities()
					c1 := m.AllocateCounter("c", tags)
					expect("AllocateCounter c %v", tags)
					g1 := m.AllocateGauge("g", tags)
					expect("AllocateGauge g %v", tags)
					t1 := m.AllocateTimer("t", nil)
					expect("AllocateTimer t %v", map[string]string(nil))
					h1 := m.AllocateHistogram("h", tags, vb)
					expect("AllocateHistogram h %v %v", tags, vb)
					c1.ReportCount(4)
					expect("counter:c.ReportCount 4")
					g1.ReportGauge(1.5)
					expect("gauge:g.ReportGauge 1.5")
					t1.ReportTimer(time.Millisecond)
					expect("timer:t.ReportTimer 1ms")
					b1 := h1.ValueBucket(1, 2)
					expect("hist:h.ValueBucket 1 2")
					b1.ReportSamples(3)
					expect("hist:h(1,2].ReportSamples 3")
					b2 := h1.DurationBucket(time.Second, time.Minute)
					expect("hist:h.DurationBucket 1s 1m0s")
					b2.ReportSamples(8)
					expect("hist:h(1s,1m0s].ReportSamples 8")
					c1.ReportCount(-2)
					expect("counter:c.ReportCount -2")
					m.Flush()
					expect("Flush")
					b1.ReportSamples(1)
					expect("hist:h(1,2].ReportSamples 1")
				}
				label := fmt.Sprintf("cached=%v children=%v", cached, cs)
				if caps == nil || caps.Reporting() != wantR || caps.Tagging() != wantT {
					fail("%s: capabilities are not the conjunction of the children's (want reporting=%v tagging=%v)", label, wantR, wantT)
				}
				var full []string
				for _, w := range want {
					for i := range cs {
						full = append(full, fmt.Sprintf("%d:%s", i, w))
					}
				}
				if len(full) != len(log.entries) {
					fail("%s: %d child calls expected, %d made: %v", label, len(full), len(log.entries), log.entries)
					continue
				}
				for i := range full {
					if full[i] != log.entries[i] {
						fail("%s: child call %d is %q, want %q", label, i, log.entries[i], full[i])
						break
					}
				}
			}
		})
	}
	if fails > 0 {
		t.Fatalf("%d failures", fails)
	}
	fmt.Printf("DRIVER-RESULT: ok C19: %d child configurations x 2 flavours\n", configs)
}
