package tally

// BOUNDED replay / fall-back driver for property C08 (injected with go test -overlay).
// Runs as a fall-back (a function of the property is undecided, an obligation fails)
// and in the thorough tier; it contains waits, so it is not part of the quick tier.
//
// Scenarios, for plain and cached reporters, with and without io.Closer, interval and
// no interval: Close is called (a) before the first tick, (b) between ticks, (c) while
// a periodic pass is blocked inside a slow reporter call (1.5 s), (d) by 4 concurrent
// callers.  Oracle: everything recorded before Close was delivered, then a Flush, then
// (if closable) exactly one reporter Close after that flush, all before Close returned;
// after Close returned the reporter is never called again (observed for 300 ms) and the
// reporting goroutine has ended (the scope's WaitGroup is at zero: wg.Wait returns at
// once); a second Close returns nil and delivers nothing.  Prints DRIVER-FAIL lines.

import (
	"fmt"
	"os"
	"sync"
	"sync/atomic"
	"testing"
	"time"
)

type vdC08Rep struct {
	mu        sync.Mutex
	log       []string
	sum       int64
	closed    int32 // set by the test once the scope's Close has returned
	late      int32 // reporter calls seen after that
	blockOnce int32 // 1: the next Flush blocks for blockFor
	blockFor  time.Duration
	blocked   chan struct{}
}

func (r *vdC08Rep) note(s string) {
	if atomic.LoadInt32(&r.closed) == 1 {
		atomic.AddInt32(&r.late, 1)
	}
	r.mu.Lock()
	r.log = append(r.log, s)
	r.mu.Unlock()
}
func (r *vdC08Rep) Capabilities() Capabilities { return capabilitiesReportingTagging }
func (r *vdC08Rep) Flush() {
	if atomic.CompareAndSwapInt32(&r.blockOnce, 1, 0) {
		close(r.blocked)
		time.Sleep(r.blockFor)
	}
	r.note("Flush")
}
func (r *vdC08Rep) ReportCounter(name string, _ map[string]string, v int64) {
	atomic.AddInt64(&r.sum, v)
	r.note("Counter")
}
func (r *vdC08Rep) ReportGauge(string, map[string]string, float64)       { r.note("Gauge") }
func (r *vdC08Rep) ReportTimer(string, map[string]string, time.Duration) { r.note("Timer") }
func (r *vdC08Rep) ReportHistogramValueSamples(string, map[string]string, Buckets, float64, float64, int64) {
	r.note("HV")
}
func (r *vdC08Rep) ReportHistogramDurationSamples(string, map[string]string, Buckets, time.Duration, time.Duration, int64) {
	r.note("HD")
}

type vdC08Closable struct {
	*vdC08Rep
	err error
}

func (c vdC08Closable) Close() error { c.note("Close"); return c.err }

type vdC08Count struct{ r *vdC08Rep }

func (c vdC08Count) ReportCount(v int64) { atomic.AddInt64(&c.r.sum, v); c.r.note("Counter") }

type vdC08Nop struct{ r *vdC08Rep }

func (n vdC08Nop) ReportGauge(float64)       { n.r.note("Gauge") }
func (n vdC08Nop) ReportTimer(time.Duration) { n.r.note("Timer") }

type vdC08Cached struct{ *vdC08Rep }

func (c vdC08Cached) AllocateCounter(string, map[string]string) CachedCount {
	return vdC08Count{c.vdC08Rep}
}
func (c vdC08Cached) AllocateGauge(string, map[string]string) CachedGauge {
	return vdC08Nop{c.vdC08Rep}
}
func (c vdC08Cached) AllocateTimer(string, map[string]string) CachedTimer {
	return vdC08Nop{c.vdC08Rep}
}
func (c vdC08Cached) AllocateHistogram(string, map[string]string, Buckets) CachedHistogram {
	return nil
}

type vdC08CachedClosable struct {
	vdC08Cached
	err error
}

func (c vdC08CachedClosable) Close() error { c.note("Close"); return c.err }

func TestVerifDriverC08(t *testing.T) {
	if r := os.Getenv("VERIF_DRIVER_REASON"); r == "quick" {
		fmt.Println("DRIVER-RESULT: ok C08 driver skipped in the quick tier")
		return
	}
	fails := 0
	fail := func(format string, a ...interface{}) {
		fails++
		if fails <= 20 {
			fmt.Printf("DRIVER-FAIL: "+format+"\n", a...)
		}
	}
	sentinel := fmt.Errorf("reporter close error")
	n := 0
	for _, cached := range []bool{false, true} {
		for _, closable := range []bool{false, true} {
			for _, scenario := range []string{"no-interval", "before-first-tick", "between-ticks", "blocked-pass", "concurrent-close"} {
				n++
				rep := &vdC08Rep{blocked: make(chan struct{}), blockFor: 1500 * time.Millisecond}
				opts := ScopeOptions{OmitCardinalityMetrics: true}
				switch {
				case cached && closable:
					opts.CachedReporter = vdC08CachedClosable{vdC08Cached{rep}, sentinel}
				case cached:
					opts.CachedReporter = vdC08Cached{rep}
				case closable:
					opts.Reporter = vdC08Closable{rep, sentinel}
				default:
					opts.Reporter = rep
				}
				interval := 5 * time.Millisecond
				switch scenario {
				case "no-interval":
					interval = 0
				case "before-first-tick":
					interval = time.Hour
				}
				label := fmt.Sprintf("cached=%v closable=%v scenario=%s", cached, closable, scenario)
				s := newRootScope(opts, interval)
				c := s.Counter("c")
				sub := s.Tagged(map[string]string{"k": "v"}).Counter("d")
				var recorded int64
				for i := 0; i < 7; i++ {
					c.Inc(2)
					sub.Inc(3)
					recorded += 5
				}
				switch scenario {
				case "between-ticks":
					time.Sleep(12 * time.Millisecond)
					c.Inc(1)
					recorded++
				case "blocked-pass":
					atomic.StoreInt32(&rep.blockOnce, 1)
					select {
					case <-rep.blocked:
					case <-time.After(5 * time.Second):
						fail("%s: the periodic pass never flushed", label)
					}
					c.Inc(1)
					recorded++
				}
				var errs []error
				if scenario == "concurrent-close" {
					var wg sync.WaitGroup
					var mu sync.Mutex
					for g := 0; g < 4; g++ {
						wg.Add(1)
						go func() {
							defer wg.Done()
							e := s.Close()
							mu.Lock()
							errs = append(errs, e)
							mu.Unlock()
						}()
					}
					wg.Wait()
				} else {
					errs = append(errs, s.Close())
				}
				atomic.StoreInt32(&rep.closed, 1)
				// the reporting goroutine has ended: nothing is left in the WaitGroup
				done := make(chan struct{})
				go func() { s.wg.Wait(); close(done) }()
				select {
				case <-done:
				case <-time.After(5 * time.Second):
					fail("%s: the reporting goroutine is still running after Close returned", label)
				}
				rep.mu.Lock()
				log := append([]string{}, rep.log...)
				rep.mu.Unlock()
				if got := atomic.LoadInt64(&rep.sum); got != recorded {
					fail("%s: recorded %d before Close, delivered %d when Close returned", label, recorded, got)
				}
				// ... then a Flush, then (if closable) exactly one Close, as the last events
				nClose := 0
				for _, e := range log {
					if e == "Close" {
						nClose++
					}
				}
				want := "Flush"
				if closable {
					want = "Close"
					if nClose != 1 {
						fail("%s: reporter closed %d times: %v", label, nClose, log)
					}
					if len(log) < 2 || log[len(log)-2] != "Flush" {
						fail("%s: the reporter's Close is not preceded by the final Flush: %v", label, log)
					}
				} else if nClose != 0 {
					fail("%s: unexpected Close events: %v", label, log)
				}
				if len(log) == 0 || log[len(log)-1] != want {
					fail("%s: last reporter event is not %s: %v", label, want, log)
				}
				nonNil := 0
				for _, e := range errs {
					if e != nil {
						nonNil++
						if e != sentinel {
							fail("%s: Close returned %v, not the reporter's error", label, e)
						}
					}
				}
				if closable && nonNil != 1 {
					fail("%s: %d Close callers got the reporter's error, want exactly one", label, nonNil)
				}
				if !closable && nonNil != 0 {
					fail("%s: Close returned an error without a closable reporter", label)
				}
				// afterwards: silence, idempotence, inert scopes, harmless handles
				before := len(log)
				if e := s.Close(); e != nil {
					fail("%s: second Close returned %v", label, e)
				}
				c.Inc(1)
				s.Tagged(map[string]string{"late": "1"}).Counter("x").Inc(1)
				time.Sleep(300 * time.Millisecond)
				rep.mu.Lock()
				after := len(rep.log)
				rep.mu.Unlock()
				if after != before || atomic.LoadInt32(&rep.late) != 0 {
					rep.mu.Lock()
					fail("%s: the reporter was called after Close had returned: %v", label, rep.log[before:])
					rep.mu.Unlock()
				}
			}
		}
	}
	if fails > 0 {
		t.Fatalf("%d failures", fails)
	}
	fmt.Printf("DRIVER-RESULT: ok C08: %d scenarios\n", n)
}
