package statsd

// Bounded replay / fall-back driver for property C18 (injected with go test -overlay;
// never part of the repository). It compares the reporter's calls on a recording
// Statter with a reference rendering over a small-scope enumeration of names,
// values, bounds, precisions and sample rates. Prints DRIVER-FAIL lines.

import (
	"fmt"
	"math"
	"os"
	"strconv"
	"testing"
	"time"

	cstatsd "github.com/cactus/go-statsd-client/v5/statsd"
	tally "github.com/uber-go/tally/v4"
)

type vdCall struct {
	kind string
	stat string
	ival int64
	dval time.Duration
	rate float32
	ntag int
}

type vdStatter struct{ calls []vdCall }

func (s *vdStatter) Inc(stat string, v int64, r float32, t ...cstatsd.Tag) error {
	s.calls = append(s.calls, vdCall{"Inc", stat, v, 0, r, len(t)})
	return nil
}
func (s *vdStatter) Dec(stat string, v int64, r float32, t ...cstatsd.Tag) error {
	s.calls = append(s.calls, vdCall{"Dec", stat, v, 0, r, len(t)})
	return nil
}
func (s *vdStatter) Gauge(stat string, v int64, r float32, t ...cstatsd.Tag) error {
	s.calls = append(s.calls, vdCall{"Gauge", stat, v, 0, r, len(t)})
	return nil
}
func (s *vdStatter) GaugeDelta(stat string, v int64, r float32, t ...cstatsd.Tag) error {
	s.calls = append(s.calls, vdCall{"GaugeDelta", stat, v, 0, r, len(t)})
	return nil
}
func (s *vdStatter) Timing(stat string, v int64, r float32, t ...cstatsd.Tag) error {
	s.calls = append(s.calls, vdCall{"Timing", stat, v, 0, r, len(t)})
	return nil
}
func (s *vdStatter) TimingDuration(stat string, d time.Duration, r float32, t ...cstatsd.Tag) error {
	s.calls = append(s.calls, vdCall{"TimingDuration", stat, 0, d, r, len(t)})
	return nil
}
func (s *vdStatter) Set(stat string, v string, r float32, t ...cstatsd.Tag) error {
	s.calls = append(s.calls, vdCall{"Set", stat, 0, 0, r, len(t)})
	return nil
}
func (s *vdStatter) SetInt(stat string, v int64, r float32, t ...cstatsd.Tag) error {
	s.calls = append(s.calls, vdCall{"SetInt", stat, v, 0, r, len(t)})
	return nil
}
func (s *vdStatter) Raw(stat string, v string, r float32, t ...cstatsd.Tag) error {
	s.calls = append(s.calls, vdCall{"Raw", stat, 0, 0, r, len(t)})
	return nil
}
func (s *vdStatter) NewSubStatter(string) cstatsd.SubStatter { return nil }
func (s *vdStatter) SetPrefix(string)                        {}
func (s *vdStatter) Close() error                            { return nil }

func vdRefValue(p uint, v float64) string {
	if v == math.MaxFloat64 {
		return "infinity"
	}
	if v == -math.MaxFloat64 {
		return "-infinity"
	}
	return strconv.FormatFloat(v, 'f', int(p), 64)
}

func vdRefDuration(d time.Duration) string {
	if d == time.Duration(math.MaxInt64) {
		return "infinity"
	}
	if d == time.Duration(math.MinInt64) {
		return "-infinity"
	}
	return d.String()
}

func TestVerifDriverC18(t *testing.T) {
	fails := 0
	fail := func(format string, a ...interface{}) {
		fails++
		if fails <= 20 {
			fmt.Fprintf(os.Stdout, "DRIVER-FAIL: "+format+"\n", a...)
		}
	}
	values := []float64{-math.MaxFloat64, math.MaxFloat64, 0, math.Copysign(0, -1), 0.5, -0.5, 1, -1, 1.5, -1.5, -0.25, 0.125, -0.001,
		1e-7, -1e-7, 123.456, -123.456, 1e15, -1e15, 0.1, -0.1, 2.675, 999999.9999995, -0.9999999, 1e21, 5e-324}
	durs := []time.Duration{time.Duration(math.MinInt64), time.Duration(math.MaxInt64), 0, 1, -1, time.Millisecond, -time.Millisecond,
		1500 * time.Millisecond, time.Hour + 3*time.Second, 999, time.Duration(math.MaxInt64 - 1)}
	precs := []uint{0, 1, 2, 3, 6, 9, 12}
	rates := []float32{0, 1, 0.5, 0.001}
	names := []string{"lat", "", "a.b-c", "x\xffy"}
	for _, p := range precs {
		for _, rate := range rates {
			st := &vdStatter{}
			r := NewReporter(st, Options{SampleRate: rate, HistogramBucketNamePrecision: p})
			wantRate := rate
			if rate == 0 {
				wantRate = 1
			}
			wp := p
			if p == 0 {
				wp = 6
			}
			caps := r.Capabilities()
			if !caps.Reporting() || caps.Tagging() {
				fail("capabilities: reporting=%v tagging=%v", caps.Reporting(), caps.Tagging())
			}
			one := func(what string, want vdCall) {
				if len(st.calls) != 1 {
					fail("%s: %d client calls, want exactly 1: %+v", what, len(st.calls), st.calls)
				} else if st.calls[0] != want {
					fail("%s (precision %d rate %v): got %+v want %+v", what, p, rate, st.calls[0], want)
				}
				st.calls = nil
			}
			tags := map[string]string{"k": "v"}
			for _, n := range names {
				for _, iv := range []int64{0, 1, -1, math.MaxInt64, math.MinInt64, 42} {
					r.ReportCounter(n, tags, iv)
					one("ReportCounter", vdCall{"Inc", n, iv, 0, wantRate, 0})
				}
				for _, fv := range []float64{0, 1.9, -1.9, 1e18, -7.5, 0.999} {
					r.ReportGauge(n, tags, fv)
					one("ReportGauge", vdCall{"Gauge", n, int64(fv), 0, wantRate, 0})
				}
				for _, d := range durs {
					r.ReportTimer(n, nil, d)
					one("ReportTimer", vdCall{"TimingDuration", n, 0, d, wantRate, 0})
				}
				for _, lo := range values {
					for _, hi := range values {
						r.ReportHistogramValueSamples(n, tags, nil, lo, hi, 7)
						one(fmt.Sprintf("ReportHistogramValueSamples(%v,%v)", lo, hi),
							vdCall{"Inc", n + "." + vdRefValue(wp, lo) + "-" + vdRefValue(wp, hi), 7, 0, wantRate, 0})
					}
				}
				for _, lo := range durs {
					for _, hi := range durs {
						r.ReportHistogramDurationSamples(n, nil, nil, lo, hi, -3)
						one(fmt.Sprintf("ReportHistogramDurationSamples(%v,%v)", lo, hi),
							vdCall{"Inc", n + "." + vdRefDuration(lo) + "-" + vdRefDuration(hi), -3, 0, wantRate, 0})
					}
				}
			}
			r.Flush()
			if len(st.calls) != 0 {
				fail("Flush made client calls: %+v", st.calls)
			}
		}
	}
	// through a tally scope: every bucket of a histogram gets its own stat
	st := &vdStatter{}
	scope, closer := tally.NewRootScope(tally.ScopeOptions{Reporter: NewReporter(st, Options{})}, 0)
	h := scope.Histogram("h", tally.ValueBuckets{-1.5, -0.5, 0, 0.5, 2})
	for _, v := range []float64{-2, -1, -0.25, 0.25, 1, 3} {
		h.RecordValue(v)
	}
	closer.Close()
	seen := map[string]int{}
	for _, c := range st.calls {
		if c.kind == "Inc" && len(c.stat) > 2 && c.stat[:2] == "h." {
			seen[c.stat]++
		}
	}
	for _, w := range []string{"h.-infinity--1.500000", "h.-1.500000--0.500000", "h.-0.500000-0.000000", "h.0.000000-0.500000", "h.0.500000-2.000000", "h.2.000000-infinity"} {
		if seen[w] != 1 {
			fail("scope histogram: stat %q seen %d times, want 1 (all: %v)", w, seen[w], seen)
		}
	}
	if fails > 0 {
		t.Fatalf("DRIVER-RESULT: %d failures", fails)
	}
	fmt.Println("DRIVER-RESULT: ok")
}
