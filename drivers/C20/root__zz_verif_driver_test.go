package tally

// quick-tier: yes (the sequential part: deterministic, no I/O, < 1 s; the concurrent
// section runs only as a fall-back and in the thorough tier, VERIF_DRIVER_REASON != quick)
//
// BOUNDED replay / fall-back driver for property C20 (injected with go test -overlay).
// (1) Constructors: for a grid of (start, width|factor, n) the linear and exponential value
// and duration constructors return exactly n bounds following their recurrence, reject
// n <= 0 (and non-positive exponential starts, factors <= 1) with an error, the Must
// variants panic exactly when the plain ones fail; BucketPairs and histogram creation do
// not modify the caller's slice.  (2) A histogram keeps the bounds it was created with:
// bucket sets that are permutations of one another or collide in the internal cache
// identity (equal sums of durations / of float bit patterns, value vs duration sets) are
// used one after the other under one root, every histogram's specification and delivered
// bounds are its own.  (3) concurrent section: the same from 16 goroutines in different
// subscopes, 40 rounds.  Prints DRIVER-FAIL lines.

import (
	"fmt"
	"math"
	"os"
	"sort"
	"sync"
	"sync/atomic"
	"testing"
	"time"
)

func vdC20Panics(f func()) (p bool) {
	defer func() {
		if recover() != nil {
			p = true
		}
	}()
	f()
	return false
}

func vdC20SpecOf(h Histogram) Buckets { return h.(*histogram).specification }

func vdC20Same(a, b Buckets) bool {
	va, vb := a.AsValues(), b.AsValues()
	da, db := a.AsDurations(), b.AsDurations()
	if len(va) != len(vb) || len(da) != len(db) {
		return false
	}
	sa := append([]float64{}, va...)
	sb := append([]float64{}, vb...)
	sort.Float64s(sa)
	sort.Float64s(sb)
	for i := range sa {
		if sa[i] != sb[i] {
			return false
		}
	}
	_, aIsV := a.(ValueBuckets)
	_, bIsV := b.(ValueBuckets)
	return aIsV == bIsV
}

func vdC20UpperBounds(h Histogram) []float64 {
	var out []float64
	for _, b := range h.(*histogram).buckets {
		if h.(*histogram).htype == valueHistogramType {
			out = append(out, b.valueUpperBound)
		} else {
			out = append(out, float64(b.durationUpperBound))
		}
	}
	return out
}

func vdC20Check(fail func(string, ...interface{}), when string, h Histogram, spec Buckets) {
	if !vdC20Same(vdC20SpecOf(h), spec) {
		fail("%s: histogram created with %v reports specification %v", when, spec, vdC20SpecOf(h))
		return
	}
	var want []float64
	if vb, ok := spec.(ValueBuckets); ok {
		want = append(want, vb...)
		sort.Float64s(want)
		want = append(want, math.MaxFloat64)
	} else {
		for _, d := range spec.AsDurations() {
			want = append(want, float64(d))
		}
		sort.Float64s(want)
		want = append(want, float64(math.MaxInt64))
	}
	got := vdC20UpperBounds(h)
	if len(got) != len(want) {
		fail("%s: histogram created with %v has upper bounds %v", when, spec, got)
		return
	}
	for i := range got {
		if got[i] != want[i] {
			fail("%s: histogram created with %v has upper bounds %v", when, spec, got)
			return
		}
	}
}

func TestVerifDriverC20(t *testing.T) {
	var fails int64
	fail := func(format string, a ...interface{}) {
		if atomic.AddInt64(&fails, 1) <= 20 {
			fmt.Printf("DRIVER-FAIL: "+format+"\n", a...)
		}
	}
	// (1) constructors
	for _, n := range []int{-1, 0, 1, 2, 7, 64} {
		for _, start := range []float64{-5, 0, 0.25, 3} {
			for _, step := range []float64{-1, 0.5, 1, 1.5, 2, 10} {
				lb, lerr := LinearValueBuckets(start, step, n)
				if (lerr != nil) != (n <= 0) {
					fail("LinearValueBuckets(%v,%v,%d): err=%v", start, step, n, lerr)
				}
				if lerr == nil {
					if len(lb) != n {
						fail("LinearValueBuckets(%v,%v,%d): %d bounds", start, step, n, len(lb))
					}
					for i, b := range lb {
						if b != start+float64(i)*step {
							fail("LinearValueBuckets(%v,%v,%d)[%d] = %v", start, step, n, i, b)
						}
					}
				}
				if vdC20Panics(func() { MustMakeLinearValueBuckets(start, step, n) }) != (lerr != nil) {
					fail("MustMakeLinearValueBuckets(%v,%v,%d): panic does not match the error", start, step, n)
				}
				eb, eerr := ExponentialValueBuckets(start, step, n)
				wantErr := n <= 0 || start <= 0 || step <= 1
				if (eerr != nil) != wantErr {
					fail("ExponentialValueBuckets(%v,%v,%d): err=%v", start, step, n, eerr)
				}
				if eerr == nil {
					if len(eb) != n {
						fail("ExponentialValueBuckets(%v,%v,%d): %d bounds", start, step, n, len(eb))
					}
					cur := start
					for i, b := range eb {
						if b != cur {
							fail("ExponentialValueBuckets(%v,%v,%d)[%d] = %v, want %v", start, step, n, i, b, cur)
						}
						cur *= step
					}
				}
				if vdC20Panics(func() { MustMakeExponentialValueBuckets(start, step, n) }) != (eerr != nil) {
					fail("MustMakeExponentialValueBuckets(%v,%v,%d): panic does not match the error", start, step, n)
				}
				ds, dw := time.Duration(start*float64(time.Second)), time.Duration(step*float64(time.Millisecond))
				ld, lderr := LinearDurationBuckets(ds, dw, n)
				if (lderr != nil) != (n <= 0) {
					fail("LinearDurationBuckets(%v,%v,%d): err=%v", ds, dw, n, lderr)
				}
				if lderr == nil {
					if len(ld) != n {
						fail("LinearDurationBuckets(%v,%v,%d): %d bounds", ds, dw, n, len(ld))
					}
					for i, b := range ld {
						if b != ds+time.Duration(i)*dw {
							fail("LinearDurationBuckets(%v,%v,%d)[%d] = %v", ds, dw, n, i, b)
						}
					}
				}
				if vdC20Panics(func() { MustMakeLinearDurationBuckets(ds, dw, n) }) != (lderr != nil) {
					fail("MustMakeLinearDurationBuckets(%v,%v,%d): panic does not match the error", ds, dw, n)
				}
				ed, ederr := ExponentialDurationBuckets(ds, step, n)
				wantErr = n <= 0 || ds <= 0 || step <= 1
				if (ederr != nil) != wantErr {
					fail("ExponentialDurationBuckets(%v,%v,%d): err=%v", ds, step, n, ederr)
				}
				if ederr == nil {
					if len(ed) != n {
						fail("ExponentialDurationBuckets(%v,%v,%d): %d bounds", ds, step, n, len(ed))
					}
					cur := ds
					for i, b := range ed {
						if b != cur {
							fail("ExponentialDurationBuckets(%v,%v,%d)[%d] = %v, want %v", ds, step, n, i, b, cur)
						}
						cur = time.Duration(float64(cur) * step)
					}
				}
				if vdC20Panics(func() { MustMakeExponentialDurationBuckets(ds, step, n) }) != (ederr != nil) {
					fail("MustMakeExponentialDurationBuckets(%v,%v,%d): panic does not match the error", ds, step, n)
				}
			}
		}
	}
	for _, spec := range []Buckets{ValueBuckets{5, 1, 3, 1}, DurationBuckets{time.Minute, time.Second, time.Hour, time.Second}} {
		before := fmt.Sprint(spec)
		BucketPairs(spec)
		if fmt.Sprint(spec) != before {
			fail("BucketPairs modified the caller's slice: %s -> %v", before, spec)
		}
	}
	// (2) colliding and permuted sets, one after the other
	ms := time.Millisecond
	sets := []Buckets{
		DurationBuckets{1 * ms, 4 * ms}, DurationBuckets{2 * ms, 3 * ms}, DurationBuckets{5 * ms}, DurationBuckets{4 * ms, 1 * ms},
		ValueBuckets{1, 3}, ValueBuckets{1.5, 2}, ValueBuckets{3, 1}, ValueBuckets{1, 8}, ValueBuckets{2, 4},
		ValueBuckets{0, 1, 2}, ValueBuckets{2, 1, 0}, ValueBuckets{1, 0, 2},
		DurationBuckets{time.Second, 2 * time.Second, 3 * time.Second}, DurationBuckets{3 * time.Second, time.Second, 2 * time.Second},
		// a value set and a duration set with the same identity AND the same converted elements
		ValueBuckets{0}, DurationBuckets{0},
	}
	for _, order := range [][]int{{0, 1, 2, 3, 4, 5, 6, 7, 8, 9, 10, 11, 12, 13, 14, 15}, {15, 14, 13, 12, 11, 10, 9, 8, 7, 6, 5, 4, 3, 2, 1, 0}, {1, 0, 5, 4, 8, 7, 2, 3, 6, 10, 9, 11, 13, 12, 15, 14}} {
		root := newRootScope(ScopeOptions{OmitCardinalityMetrics: true}, 0)
		hs := make([]Histogram, len(sets))
		for _, i := range order {
			before := fmt.Sprint(sets[i])
			hs[i] = root.SubScope(fmt.Sprintf("s%d", i%4)).Histogram(fmt.Sprintf("h%d", i), sets[i])
			if fmt.Sprint(sets[i]) != before {
				fail("creating a histogram modified the caller's slice: %s -> %v", before, sets[i])
			}
		}
		for i := range sets {
			vdC20Check(fail, fmt.Sprintf("sequential order %v", order), hs[i], sets[i])
		}
		root.Close()
	}
	if r := os.Getenv("VERIF_DRIVER_REASON"); r != "" && r != "quick" {
		// (3) concurrent creations in different subscopes
		nRounds := 40
		if r == "thorough" {
			nRounds = 400
		}
		for round := 0; round < nRounds && atomic.LoadInt64(&fails) == 0; round++ {
			root := newRootScope(ScopeOptions{OmitCardinalityMetrics: true}, 0)
			var wg sync.WaitGroup
			start := make(chan struct{})
			for g := 0; g < 16; g++ {
				wg.Add(1)
				go func(g int) {
					defer wg.Done()
					sub := root.SubScope(fmt.Sprintf("g%d", g))
					<-start
					for k := 0; k < len(sets); k++ {
						i := (k + g) % len(sets)
						h := sub.Histogram(fmt.Sprintf("h%d", i), sets[i])
						vdC20Check(fail, "concurrent creation", h, sets[i])
					}
				}(g)
			}
			close(start)
			wg.Wait()
			root.Close()
		}
	}
	if fails > 0 {
		t.Fatalf("%d failures", fails)
	}
	fmt.Println("DRIVER-RESULT: ok C20")
}
