package tally

// Bounded replay / fall-back driver for property C05 (injected with go test -overlay).
//
// quick-tier: yes (deterministic, no I/O, < 1 s)
//
// Small-scope enumeration of derivation programs (SubScope / Tagged chains of depth
// 0..3 over a delimiter-free alphabet, empty tag VALUES included) from roots with 1, 2, 3, 7 and 64 registry
// shards: two programs with the same (prefix, effective tag set) must return the very
// same scope and the same metrics, two programs with different identities must not
// share a scope; the public key function is compared with a reference rendering.
// Prints DRIVER-FAIL lines for violations.  The inputs of the LISTED known findings
// (empty tag key, delimiter characters inside tag keys/values) are replayed too and
// reported as DRIVER-KNOWN lines: they are not failures of this driver.

import (
	"fmt"
	"os"
	"runtime"
	"sort"
	"strings"
	"sync"
	"sync/atomic"
	"testing"
	"time"
)

type vdC05Op struct {
	sub  bool
	name string
	tags map[string]string
}

func vdC05Apply(root Scope, prog []vdC05Op) (Scope, string, map[string]string) {
	s := root
	prefix := ""
	tags := map[string]string{}
	for _, op := range prog {
		if op.sub {
			s = s.SubScope(op.name)
			if prefix == "" {
				prefix = op.name
			} else {
				prefix = prefix + "." + op.name
			}
		} else {
			s = s.Tagged(op.tags)
			for k, v := range op.tags {
				tags[k] = v
			}
		}
	}
	return s, prefix, tags
}

func vdC05Ident(prefix string, tags map[string]string) string {
	var ks []string
	for k := range tags {
		ks = append(ks, k)
	}
	sort.Strings(ks)
	var sb strings.Builder
	fmt.Fprintf(&sb, "%q|", prefix)
	for _, k := range ks {
		fmt.Fprintf(&sb, "%q=%q;", k, tags[k])
	}
	return sb.String()
}

func vdC05RefKey(prefix string, m map[string]string) string {
	var ks []string
	for k := range m {
		ks = append(ks, k)
	}
	sort.Strings(ks)
	var sb strings.Builder
	if prefix != "" {
		sb.WriteString(prefix + "+")
	}
	for i, k := range ks {
		if i > 0 {
			sb.WriteString(",")
		}
		sb.WriteString(k + "=" + m[k])
	}
	return sb.String()
}

func TestVerifDriverC05(t *testing.T) {
	fails := 0
	fail := func(format string, a ...interface{}) {
		fails++
		if fails <= 20 {
			fmt.Fprintf(os.Stdout, "DRIVER-FAIL: "+format+"\n", a...)
		}
	}
	ops := []vdC05Op{
		{sub: true, name: "a"}, {sub: true, name: "b"},
		{tags: map[string]string{"k": "1"}}, {tags: map[string]string{"k": "2"}},
		{tags: map[string]string{"j": "1"}}, {tags: map[string]string{"k": "1", "j": "2"}},
		{tags: map[string]string{}},
		{tags: map[string]string{"z": ""}}, {tags: map[string]string{"k": ""}},
	}
	var progs [][]vdC05Op
	progs = append(progs, nil)
	for _, a := range ops {
		progs = append(progs, []vdC05Op{a})
		for _, b := range ops {
			progs = append(progs, []vdC05Op{a, b})
			for _, c := range ops {
				progs = append(progs, []vdC05Op{a, b, c})
			}
		}
	}
	for _, shards := range []uint{1, 2, 3, 7, 64} {
		root := newRootScope(ScopeOptions{registryShardCount: shards}, 0)
		byIdent := map[string]*scope{}
		byPtr := map[*scope]string{}
		for _, p := range progs {
			s, prefix, tags := vdC05Apply(root, p)
			sc := s.(*scope)
			id := vdC05Ident(prefix, tags)
			if prev, ok := byIdent[id]; ok && prev != sc {
				fail("shards=%d: identity %s reached through two programs gives two different scopes", shards, id)
			}
			byIdent[id] = sc
			if prev, ok := byPtr[sc]; ok && prev != id {
				fail("shards=%d: identities %s and %s share one scope", shards, prev, id)
			}
			byPtr[sc] = id
			if sc.prefix != prefix {
				fail("shards=%d: identity %s has prefix %q", shards, id, sc.prefix)
			}
			c1, c2 := s.Counter("c"), s.Counter("c")
			if c1 != c2 {
				fail("shards=%d: %s: Counter(c) twice gives two counters", shards, id)
			}
			if s.Gauge("g") != s.Gauge("g") || s.Timer("t") != s.Timer("t") || s.Histogram("h", nil) != s.Histogram("h", nil) {
				fail("shards=%d: %s: a metric asked for twice is not the same object", shards, id)
			}
		}
		root.Close()
	}
	// the public key function against the reference rendering (delimiter-free alphabet)
	maps := []map[string]string{nil, {}, {"k": "1"}, {"k": "1", "j": "2"}, {"b": "x", "a": "y", "c": "z", "ab": "w"}}
	for _, m := range maps {
		for _, prefix := range []string{"", "p", "p.q"} {
			want := vdC05RefKey(prefix, m)
			for rep := 0; rep < 20; rep++ {
				if got := KeyForPrefixedStringMap(prefix, m); got != want {
					fail("KeyForPrefixedStringMap(%q, %v) = %q, want %q", prefix, m, got, want)
				}
			}
		}
		if got := KeyForStringMap(m); got != vdC05RefKey("", m) {
			fail("KeyForStringMap(%v) = %q", m, got)
		}
	}
	for _, pair := range [][2]map[string]string{{{"k": "1"}, {"k": "2"}}, {{"k": "1", "j": "1"}, {"j": "2"}}, {{}, {"k": "1"}}} {
		merged := map[string]string{}
		for k, v := range pair[0] {
			merged[k] = v
		}
		for k, v := range pair[1] {
			merged[k] = v
		}
		if got, want := keyForPrefixedStringMaps("p", pair[0], pair[1]), KeyForPrefixedStringMap("p", merged); got != want {
			fail("key of (%v, %v) = %q, key of the merged map = %q", pair[0], pair[1], got, want)
		}
	}
	// replay of the listed known findings (informational)
	root := newRootScope(ScopeOptions{registryShardCount: 1}, 0)
	if root.Tagged(map[string]string{"a": "1,b=2"}) == root.Tagged(map[string]string{"a": "1", "b": "2"}) {
		fmt.Fprintln(os.Stdout, "DRIVER-KNOWN: Tagged({a:'1,b=2'}) and Tagged({a:'1',b:'2'}) are one scope (delimiter collision)")
	}
	if root.Tagged(map[string]string{"C": "=,C=B="}) == root.Tagged(map[string]string{"C=": "", "C=B": ""}) {
		fmt.Fprintln(os.Stdout, "DRIVER-KNOWN: Tagged({C:'=,C=B='}) and Tagged({'C=':'','C=B':''}) are one scope (solver counterexample)")
	}
	if root.SubScope("B").Tagged(map[string]string{"A": "="}) == root.SubScope("B").Tagged(map[string]string{"A=": ""}) {
		fmt.Fprintln(os.Stdout, "DRIVER-KNOWN: B/{A:'='} and B/{'A=':''} are one scope (solver counterexample)")
	}
	if root.Tagged(map[string]string{"": "x"}).Tagged(map[string]string{"": "y"}) != root.Tagged(map[string]string{"": "y"}) {
		fmt.Fprintln(os.Stdout, "DRIVER-KNOWN: Tagged({'':x}).Tagged({'':y}) and Tagged({'':y}) are two scopes with one identity (empty tag key)")
	}
	root.Close()
	if fails == 0 {
		fmt.Fprintln(os.Stdout, "DRIVER-RESULT: ok")
	} else {
		t.Fatalf("%d failures", fails)
	}
}

// Concurrent section (fall-back and thorough tier only: VERIF_DRIVER_REASON != quick).
// Many more goroutines than processors (so that they are preempted inside Subscope and
// share per-processor caches) derive scopes for DISTINCT, not yet registered identities
// in one shard; every returned scope must carry exactly the tags it was asked for, during
// the race and when each identity is asked for again afterwards, and asking again must
// return the same scope.  Whatever the interleaving, different identities never merge.
// BOUNDED: rounds of 8*GOMAXPROCS goroutines x 1000 identities for 5 s; a
// schedule-dependent merge may need more to show.
func TestVerifDriverC05Concurrent(t *testing.T) {
	if r := os.Getenv("VERIF_DRIVER_REASON"); r == "" || r == "quick" {
		fmt.Println("DRIVER-RESULT: ok C05 concurrent section skipped in the quick tier")
		return
	}
	var fails int64
	workers := 8 * runtime.GOMAXPROCS(-1)
	const perRound = 1000
	budget := 5 * time.Second
	if os.Getenv("VERIF_DRIVER_REASON") == "thorough" {
		budget = 20 * time.Second // thorough tier
	}
	deadline := time.Now().Add(budget)
	rounds := 0
	for round := 0; atomic.LoadInt64(&fails) == 0 && time.Now().Before(deadline); round++ {
		rounds++
		shards := uint(1 + round%2*2)
		root := newRootScope(ScopeOptions{Tags: map[string]string{"svc": "x"}, OmitCardinalityMetrics: true, registryShardCount: shards}, 0)
		check := func(when, id string, s Scope) {
			if have := s.(*scope).tags["id"]; have != id || len(s.(*scope).tags) != 2 {
				if atomic.AddInt64(&fails, 1) <= 10 {
					fmt.Printf("DRIVER-FAIL: concurrent derivation (%s): shards=%d: Tagged(id=%s) returned the scope with tags %v\n", when, shards, id, s.(*scope).tags)
				}
			}
		}
		got := make([][]Scope, workers)
		var wg sync.WaitGroup
		for w := 0; w < workers; w++ {
			wg.Add(1)
			got[w] = make([]Scope, perRound)
			go func(w int) {
				defer wg.Done()
				for i := 0; i < perRound; i++ {
					id := fmt.Sprintf("%04d-%04d-%06d", round, w, i)
					s := root.Tagged(map[string]string{"id": id})
					got[w][i] = s
					check("during the race", id, s)
				}
			}(w)
		}
		wg.Wait()
		for w := 0; w < workers; w++ {
			for i := 0; i < perRound; i++ {
				id := fmt.Sprintf("%04d-%04d-%06d", round, w, i)
				s := root.Tagged(map[string]string{"id": id})
				check("asked again afterwards", id, s)
				if s != got[w][i] {
					if atomic.AddInt64(&fails, 1) <= 10 {
						fmt.Printf("DRIVER-FAIL: concurrent derivation: shards=%d: asking again for id=%s returned a different scope\n", shards, id)
					}
				}
			}
		}
		root.Close()
	}
	if fails > 0 {
		t.Fatalf("%d failures", fails)
	}
	fmt.Printf("DRIVER-RESULT: ok C05 concurrent section: %d rounds\n", rounds)
}
