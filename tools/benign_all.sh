#!/bin/bash
# Runs every stored behaviour-preserving patch (/verif/benign/*.diff) against the quick
# checks of the properties whose ledgers list a function the patch touches (hunk headers
# and added/removed `func` lines).  A VIOLATION line here is a false alarm of the machinery.
cd /verif
for d in ${@:-benign/*.diff}; do
  name=$(basename $d .diff)
  fns=$( (grep -o '^@@.*func \(([^)]*) \)\?[A-Za-z0-9_]*' $d; grep -o '^[-+ ]func \(([^)]*) \)\?[A-Za-z0-9_]*' $d) | sed 's/.*func \(([^)]*) \)\?//' | sort -u)
  props=""
  for f in $fns; do
    for l in ledger/C*.json; do
      if grep -q "[.)]$f\(\$[0-9]*\)\?\"" $l; then props="$props $(basename $l .json)"; fi
    done
  done
  props=$(echo $props | tr ' ' '\n' | sort -u | tr '\n' ' ')
  [ -z "$props" ] && { echo "$name: no property lists a touched function ($fns)"; continue; }
  tools/benign_eval.sh $name /verif/$d $props 2>&1 | grep -v WARNING
done
