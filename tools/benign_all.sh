#!/bin/bash
# Runs every stored behaviour-preserving patch (/verif/benign/*.diff) against the quick
# checks of all properties anchored in the package(s) the patch touches.  A VIOLATION
# line here is a false alarm of the machinery.
cd /verif
for d in benign/*.diff; do
  name=$(basename $d .diff)
  files=$(grep '^+++ b/' $d | sed 's|^+++ b/||')
  props=""
  for f in $files; do
    case $f in
      m3/thriftudp/*) props="$props C15" ;;
      m3/*) props="$props C12 C13 C14 C16" ;;
      prometheus/*) props="$props C17" ;;
      statsd/*) props="$props C18" ;;
      multi/*) props="$props C19" ;;
      thirdparty/*) props="$props C16" ;;
      instrument/*) props="$props C10" ;;
      *) props="$props C01 C02 C03 C04 C05 C06 C07 C08 C09 C10 C11 C20" ;;
    esac
  done
  props=$(echo $props | tr ' ' '\n' | sort -u | tr '\n' ' ')
  tools/benign_eval.sh $name /verif/$d $props 2>&1 | grep -v WARNING
done
