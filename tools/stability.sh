#!/bin/bash
# runs every claimed quick check with several seeds against a snapshot copy of /repo;
# prints any non-zero exit. usage: stability.sh [seeds...]
cd /verif
snap=/var/tmp/stab-repo
sv=/var/tmp/stab-verif
rm -rf $snap $sv; rsync -a --exclude .git /repo/ $snap/; mkdir -p $sv; cp -r ledger known_findings.json drivers $sv/
seeds=${@:-1 2 3 4 5 6}
for p in $(python3 -c "import json;print(' '.join(c['property_id'] for c in json.load(open('MANIFEST.json'))['checks']))"); do
  for s in $seeds; do
    out=$(VERIF_SEED=$s ./bin/govc check -repo $snap -verif $sv -property $p 2>&1); rc=$?
    if [ $rc -ne 0 ]; then echo "ALARM $p seed=$s rc=$rc"; echo "$out" | grep "VIOLATION\|UNDECIDED\|BROKEN" | head -5; fi
  done
  echo "done $p"
done
rm -rf $snap $sv
