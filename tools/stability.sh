#!/bin/bash
# runs every claimed quick check with several seeds; prints any non-zero exit
cd /verif
for p in $(python3 -c "import json;print(' '.join(c['property_id'] for c in json.load(open('MANIFEST.json'))['checks']))"); do
  for s in 1 2 3 4 5 6; do
    out=$(VERIF_SEED=$s ./bin/govc check -property $p 2>&1); rc=$?
    if [ $rc -ne 0 ]; then echo "ALARM $p seed=$s rc=$rc"; echo "$out" | grep "VIOLATION\|UNDECIDED\|BROKEN" | head -5; fi
  done
  echo "done $p"
done
