#!/bin/bash
# Re-runs every stored seed against a scratch copy of the repository (REPO, default: $VP_RUN_REPO or a
# fresh worktree of /repo HEAD) with the govc of this tree; prints detected/MISSED per seed.
# Does not touch /repo's working tree. Usage: tools/seed_recheck_all.sh [seed ...]
set -u
export GOFLAGS=-mod=mod GOPROXY=off GOSUMDB=off GOTOOLCHAIN=local
here=$(cd $(dirname $0)/.. && pwd)
repo=${REPO:-${VP_RUN_REPO:-}}
made=0
if [ -z "$repo" ]; then repo=/var/tmp/seedrepo-$$; git -C /repo worktree add --detach $repo HEAD -q; made=1; fi
[ -x $here/bin/govc ] || (cd $here/govc && go build -o $here/bin/govc .)
seeds=${@:-$(ls $here/seeded)}
for s in $seeds; do
  d=$here/seeded/$s
  prop=$(python3 -c "import json;print(json.load(open('$d/meta.json'))['property'])")
  git -C $repo checkout -q -- . 2>/dev/null
  if ! git -C $repo apply $d/patch.diff 2>/dev/null; then echo "$s $prop PATCH-DOES-NOT-APPLY"; continue; fi
  out=$($here/bin/govc check -repo $repo -verif $here -property $prop -tier quick 2>&1 | grep -v "^KNOWN-FINDING")
  git -C $repo checkout -q -- .
  if echo "$out" | grep -aq "^VIOLATION"; then echo "$s $prop detected: $(echo "$out" | grep -ac "^VIOLATION") violation lines; $(echo "$out" | grep -a "^VIOLATION" | head -1 | cut -c1-200)"; else echo "$s $prop MISSED: $(echo "$out" | tail -1)"; fi
done
[ $made = 1 ] && git -C /repo worktree remove --force $repo
