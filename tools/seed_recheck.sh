#!/bin/bash
# usage: seed_recheck.sh <seed-name> [property]   -- re-runs the registered check against a stored seed
# (scratch copy of /repo and of the verif state: /repo itself is never touched)
set -u
export GOFLAGS=-mod=mod GOPROXY=off GOSUMDB=off GOTOOLCHAIN=local
name=$1
dst=/verif/seeded/$name
prop=${2:-$(python3 -c "import json;print(json.load(open('$dst/meta.json'))['property'])")}
sr=/var/tmp/se-repo-$name; sv=/var/tmp/se-verif-$name
rm -rf $sr $sv; mkdir -p $sr $sv
rsync -a --exclude .git /repo/ $sr/
rsync -a /verif/ledger /verif/drivers /verif/known_findings.json $sv/
(cd $sr && git apply --unsafe-paths $dst/patch.diff) || { rm -rf $sr $sv; echo "$dst PATCH-DOES-NOT-APPLY"; exit 8; }
chk=$(/verif/bin/govc check -repo $sr -verif $sv -property $prop 2>&1 | grep -av "^KNOWN-FINDING" | tail -12)
rm -rf $sr $sv
python3 - "$dst" "$prop" "$chk" <<'PY'
import json,sys
dst,prop,chk=sys.argv[1:]
m=json.load(open(dst+'/meta.json'))
m['check_result']={"cmd":"/verif/bin/govc check -property "+prop+" (patch applied to a scratch copy of /repo)","output":chk,"detected":"VIOLATION" in chk}
json.dump(m,open(dst+'/meta.json','w'),indent=1)
print(dst, "detected" if "VIOLATION" in chk else "MISSED")
PY
