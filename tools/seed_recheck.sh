#!/bin/bash
# usage: seed_recheck.sh <seed-name> [property]   -- re-runs the registered check against a stored seed
set -u
name=$1
dst=/verif/seeded/$name
prop=${2:-$(python3 -c "import json;print(json.load(open('$dst/meta.json'))['property'])")}
if ! git -C /repo diff --quiet || ! git -C /repo diff --cached --quiet; then echo "refusing: /repo has uncommitted changes"; exit 9; fi
git -C /repo apply $dst/patch.diff || exit 8
chk=$(/verif/bin/govc check -property $prop 2>&1 | grep -v "^KNOWN-FINDING" | tail -12)
git -C /repo checkout -- .
python3 - "$dst" "$prop" "$chk" <<'PY'
import json,sys
dst,prop,chk=sys.argv[1:]
m=json.load(open(dst+'/meta.json'))
m['check_result']={"cmd":"/verif/bin/govc check -property "+prop+" (patch applied to /repo, reverted afterwards)","output":chk,"detected":"VIOLATION" in chk}
json.dump(m,open(dst+'/meta.json','w'),indent=1)
print(dst, "detected" if "VIOLATION" in chk else "MISSED")
PY
