#!/bin/bash
# runs every claimed quick check against /repo; prints the summary line, exit code and wall time
cd /verif
props=${@:-$(python3 -c "import json;print(' '.join(c['property_id'] for c in json.load(open('MANIFEST.json'))['checks']))")}
for p in $props; do
  s=$(date +%s.%N)
  out=$(./bin/govc check -property $p -tier ${TIER:-quick} 2>&1); rc=$?
  e=$(date +%s.%N)
  echo "$out" | grep "VIOLATION\|UNDECIDED\|BROKEN" | head -5
  echo "$out" | tail -1
  printf "%s rc=%d %.1fs\n" $p $rc $(echo "$e - $s" | bc)
done
