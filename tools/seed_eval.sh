#!/bin/bash
# usage: seed_eval.sh <seed-name> <property> <agent-worktree>
# Confirms a seeded defect independently (suite passes, demo fails with / passes without),
# stores it under /verif/seeded/<seed-name>/, and runs the registered check against it.
set -u
export GOFLAGS=-mod=mod GOPROXY=off GOSUMDB=off GOTOOLCHAIN=local
name=$1; prop=$2; wt=$3
dst=/verif/seeded/$name
mkdir -p $dst
cp $wt/SEEDED/patch.diff $dst/patch.diff
cp $wt/SEEDED/meta.json $dst/meta.agent.json
for f in $wt/SEEDED/*_test.go; do cp $f $dst/; done
pkgdir=$(python3 -c "import json;print(json.load(open('$dst/meta.agent.json'))['demo'].get('package_dir','.'))")
demofile=$(ls $dst/*_test.go | head -1)
runpat=$(grep -o 'func Test[A-Za-z0-9_]*' $demofile | sed 's/func //' | paste -sd'|')
cf=/tmp/cf-$name
git -C /repo worktree remove --force $cf 2>/dev/null
git -C /repo worktree add --detach $cf HEAD -q
cd $cf
pkgdir=${pkgdir#$wt/}; pkgdir=${pkgdir#/}; [ -z "$pkgdir" ] && pkgdir=.
[ -d "$pkgdir" ] || pkgdir=.
res_apply=$(git apply --check $dst/patch.diff 2>&1 && echo ok)
git apply $dst/patch.diff
build=$(go build ./... 2>&1 | tail -3)
suite=$(go test -mod=mod -vet=off -count=1 -timeout 25m ./... 2>&1 | grep -v "^ok\|no test files" | tail -5)
cp $demofile $pkgdir/zz_seeded_demo_test.go
demo_with=$(cd $pkgdir && go test -mod=mod -vet=off -count=1 -timeout 300s -run "$runpat" . 2>&1 | tail -4)
rm $pkgdir/zz_seeded_demo_test.go
git apply -R $dst/patch.diff
cp $demofile $pkgdir/zz_seeded_demo_test.go
demo_without=$(cd $pkgdir && go test -mod=mod -vet=off -count=1 -timeout 300s -run "$runpat" . 2>&1 | tail -2)
cd /verif
git -C /repo worktree remove --force $cf
# run the checks against the seeded change
# a scratch copy of the repository and of the verif state: /repo itself is never touched
sr=/var/tmp/se-repo-$name; sv=/var/tmp/se-verif-$name
rm -rf $sr $sv; mkdir -p $sr $sv
rsync -a --exclude .git /repo/ $sr/
rsync -a /verif/ledger /verif/drivers /verif/known_findings.json $sv/
(cd $sr && git apply --unsafe-paths $dst/patch.diff)
chk=$(/verif/bin/govc check -repo $sr -verif $sv -property $prop 2>&1 | grep -av "^KNOWN-FINDING" | tail -12)
rc=$?
rm -rf $sr $sv
python3 - "$dst" "$prop" "$pkgdir" "$res_apply" "$build" "$suite" "$demo_with" "$demo_without" "$chk" <<'PY'
import json,sys
dst,prop,pkgdir,apply_,build,suite,dw,dwo,chk=sys.argv[1:]
a=json.load(open(dst+'/meta.agent.json'))
m={"property":prop,"summary":a.get("summary"),"needs_to_manifest":a.get("needs_to_manifest"),"files_changed":a.get("files_changed"),
 "demo":{"file":[f for f in __import__('os').listdir(dst) if f.endswith('_test.go')],"package_dir":pkgdir,"run":a.get("demo",{}).get("run")},
 "confirmed_by_me":{"patch_applies":apply_.strip()=="ok","build_output":build,"suite_failures_with_change":suite,
   "demo_with_change":dw,"demo_without_change":dwo,
   "what_i_ran":"fresh worktree of /repo HEAD under /tmp: git apply patch; go build ./...; go test ./... (whole suite); demo test with the change; git apply -R; demo test without the change"},
 "check_result":{"cmd":"/verif/bin/govc check -property "+prop+" (patch applied to a scratch copy of /repo)","output":chk,"detected":"VIOLATION" in chk}}
json.dump(m,open(dst+'/meta.json','w'),indent=1)
print(json.dumps({"suite_fail":suite,"demo_with":dw[-300:],"demo_without":dwo[-200:],"detected":"VIOLATION" in chk},indent=1))
print(chk)
PY
