#!/bin/bash
# usage: benign_eval.sh <name> <patch.diff> <prop> [<prop> ...]
# Applies a behaviour-preserving patch to a scratch copy of /repo and runs the given
# properties' quick checks against it (scratch verif dir: nothing under /verif changes).
# Prints one line per property: exit status, VIOLATION / UNDECIDED / NOT-PROVED lines.
set -u
export GOFLAGS=-mod=mod GOPROXY=off GOSUMDB=off GOTOOLCHAIN=local
name=$1; patch=$2; shift 2
sr=/var/tmp/bn-repo-$name; sv=/var/tmp/bn-verif-$name
rm -rf $sr $sv; mkdir -p $sr $sv
rsync -a --exclude .git /repo/ $sr/
rsync -a /verif/ledger /verif/drivers /verif/known_findings.json $sv/
(cd $sr && git apply --unsafe-paths $patch) || { echo "$name: patch does not apply"; rm -rf $sr $sv; exit 8; }
(cd $sr && go build ./... 2>&1 | tail -2)
for p in "$@"; do
  out=$(/verif/bin/govc check -repo $sr -verif $sv -property $p -tier quick 2>&1); rc=$?
  echo "$name $p rc=$rc $(echo "$out" | tail -1 | sed 's/.*functions=/functions=/')"
  echo "$out" | grep "^VIOLATION\|^UNDECIDED\|^NOT-PROVED\|^BROKEN" | cut -c1-300 | sed 's/^/    /'
done
rm -rf $sr $sv
