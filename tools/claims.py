# claim(pid, technique, level text, level note, design ref)
claim("C19",
      "contract-based deductive verification (govc: WP over go/ssa + z3/cvc5): fan-out loop invariants over a ghost call trace",
      "Every method of multi, multiCached, multiMetric, multiHistogramBucket, multiBaseReporters and both constructors is under a contract stating the exact sequence of child calls (one identical call per child, in registration order, nothing else) as a postcondition over a ghost call trace; loop invariants make this hold for any number of children and all argument values; frame obligations show nothing else is modified. All obligations are discharged by SMT solvers on every run from the current source.",
      "Assumes: children are non-nil; calls through the tally reporter interfaces are modelled as trace events that do not touch the multi reporter's state; Capabilities()/Reporting()/Tagging() of children are deterministic and effect-free; VC generator and solvers trusted (see evidence trusted_base).",
      "DESIGN.md §5 C19")

claim("C18",
      "contract-based deductive verification (govc: WP over go/ssa + z3/cvc5): one-event trace postconditions, bound-rendering case split",
      "Every method of the StatsD reporter and its constructor is under contract: each Report* appends exactly one Statter call (Inc / Gauge(int64(v)) / TimingDuration) with the given name, value and configured sample rate and no statsd tags; histogram samples are one Inc on Sprintf(\"%s.%s-%s\", name, L, U) with L/U rendered by the bucket-string functions, whose contracts pin +Max -> \"infinity\", -Max -> \"-infinity\", otherwise Sprintf(bucketFmt, v) / Duration.String; NewReporter's defaults (rate 0 -> 1, precision 0 -> 6, bucketFmt = \"%.\"+Itoa(p)+\"f\"); Tagging()==false, Reporting()==true. Discharged for all names/values/bounds.",
      "Clause-level N/A: 'two buckets whose bounds differ at that precision never share a stat name' needs the semantics of fmt %.Nf and Duration.String (both are deterministic uninterpreted functions here); only the structural part is proved. Statter calls are trace events (the client is not verified).",
      "DESIGN.md §5 C18")

claim("C15",
      "contract-based deductive verification (govc: WP over go/ssa + z3/cvc5): abstract buffer view (byte string) on every transport method, fault paths included; fan-out trace invariants for the multi transport",
      "TUDPTransport.Write/WriteByte/WriteString/Flush/Close/IsOpen/Read/ReadByte are under contract over the abstract view (buffer contents, closed flag): accepted writes append exactly the given bytes with the limit exact at 65000, Flush performs exactly one conn.Write of exactly the buffered bytes and empties the buffer whether or not the send failed and returns the send error, use after Close yields an error with no effect, Close is idempotent; TMultiUDPTransport.Write/Flush/Close/Open reach every destination once, in order, until one fails. The refused-write clause (nothing of an abandoned message may be sent later) FAILS on this tree and is recorded as a known finding (3 obligations).",
      "Known finding listed in known_findings.json (refused write keeps the prefix buffered). net.UDPConn.Write is assumed to send one datagram with exactly the given bytes or fail; bytes.Buffer is modelled as an abstract byte string (assumed contracts). reporter.flush / generated client error paths are covered under C13/C14 only.",
      "DESIGN.md §5 C15")

claim("C10",
      "contract-based deductive verification (govc: WP over go/ssa + z3/cvc5): exact trace postconditions (one delivery per Record, clock reads, instrumented call sequence)",
      "timer.Record appends exactly one delivery (cached timer if present, else reporter.ReportTimer(name,tags,d)) before returning, for every duration; newTimer installs the in-memory sink when there is no reporter and the sink appends in order; Start reads the clock once; RecordStopwatch records now.Sub(start) through Record; Stopwatch.Stop forwards to its recorder; instrument Call.Exec performs exactly Start, f() once, Stop, then exactly one of err.Inc(1) / success.Inc(1) and returns f's error unchanged.",
      "time.Now / Time.Sub are abstract (an arbitrary clock); calls through tally.Timer/Counter/StopwatchRecorder and the user function are trace events assumed not to touch tally state; dynamic dispatch from the StopwatchRecorder event to (*timer).RecordStopwatch is by the Go type system (meta-argument). That report passes emit no timer events is part of the scope.report contracts (C01/C04).",
      "DESIGN.md §5 C10")
