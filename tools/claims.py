# claim(pid, technique, level text, level note, design ref)
claim("C19",
      "contract-based deductive verification (govc: WP over go/ssa + z3/cvc5): fan-out loop invariants over a ghost call trace",
      "Every method of multi, multiCached, multiMetric, multiHistogramBucket, multiBaseReporters and both constructors is under a contract stating the exact sequence of child calls (one identical call per child, in registration order, nothing else) as a postcondition over a ghost call trace; loop invariants make this hold for any number of children and all argument values; frame obligations show nothing else is modified. All obligations are discharged by SMT solvers on every run from the current source.",
      "Assumes: children are non-nil; calls through the tally reporter interfaces are modelled as trace events that do not touch the multi reporter's state; Capabilities()/Reporting()/Tagging() of children are deterministic and effect-free; VC generator and solvers trusted (see evidence trusted_base).",
      "DESIGN.md §5 C19")
