#!/bin/bash
# usage: seed_allprops.sh <seed> [<seed> ...]
# Applies each stored seed to a scratch worktree of /repo HEAD and runs EVERY claimed property's quick
# check against it (what a CI running all checks would see). Prints, per seed, the properties whose
# check reports a VIOLATION (and those that are merely UNDECIDED). Does not touch /repo's working tree.
set -u
export GOFLAGS=-mod=mod GOPROXY=off GOSUMDB=off GOTOOLCHAIN=local
here=$(cd $(dirname $0)/.. && pwd)
repo=${REPO:-${VP_RUN_REPO:-}}
made=0
if [ -z "$repo" ]; then repo=/var/tmp/seedrepo-all-$$; git -C /repo worktree add --detach $repo HEAD -q; made=1; fi
[ -x $here/bin/govc ] || (cd $here/govc && go build -o $here/bin/govc .)
props=$(python3 -c "import json;print(' '.join(c['property_id'] for c in json.load(open('$here/MANIFEST.json'))['checks']))")
for s in "$@"; do
  d=$here/seeded/$s
  git -C $repo checkout -q -- . 2>/dev/null
  if ! git -C $repo apply $d/patch.diff 2>/dev/null; then echo "$s PATCH-DOES-NOT-APPLY"; continue; fi
  viol=""; und=""
  for p in $props; do
    out=$($here/bin/govc check -repo $repo -verif $here -property $p -tier quick 2>&1 | grep -v "^KNOWN-FINDING")
    if echo "$out" | grep -q "^VIOLATION"; then viol="$viol $p[$(echo "$out" | grep '^VIOLATION' | head -1 | sed 's/.*obligation=\([^ ]*\).*/\1/; s/.*found-by=\(bounded-driver\).*/\1/' | cut -c1-110)]"; 
    elif echo "$out" | grep -q "^UNDECIDED"; then und="$und $p"; fi
  done
  git -C $repo checkout -q -- .
  echo "$s VIOLATION-IN:${viol:- none} UNDECIDED-IN:${und:- none}"
done
[ $made = 1 ] && git -C /repo worktree remove --force $repo
exit 0
