#!/usr/bin/env python3
"""Regenerates /verif/MANIFEST.json from the table below (keeps it schema-valid)."""
import json, subprocess, os

ALL = ["C%02d" % i for i in range(1, 21)]

# property -> (technique, level text, level note, design ref)
CLAIMED = {}

def claim(pid, technique, text, note, ref):
    CLAIMED[pid] = dict(technique=technique, text=text, note=note, ref=ref)

exec(open(os.path.join(os.path.dirname(__file__), "claims.py")).read())

NA = json.load(open(os.path.join(os.path.dirname(__file__), "not_applicable.json")))

hook_commits = subprocess.run(["git", "-C", "/repo", "log", "--format=%H %s"], capture_output=True, text=True).stdout.splitlines()
hooks = [l.split()[0] for l in hook_commits if l.split(" ", 1)[1].startswith("verif:")]

checks = []
for pid in ALL:
    if pid not in CLAIMED:
        continue
    c = CLAIMED[pid]
    checks.append({
        "property_id": pid,
        "quick_cmd": f"/verif/bin/govc check -property {pid} -tier quick",
        "thorough_cmd": f"/verif/bin/govc check -property {pid} -tier thorough",
        "evidence_file": f"/verif/evidence/{pid}.json",
        "replay_cmd_template": "cat {path}",
        "engine": "govc",
        "level_claimed": {"category": "proof", "text": c["text"], "design_ref": c["ref"]},
        "level_note": c["note"],
        "technique": c["technique"],
    })

na = [{"property_id": p, "reason": NA.get(p, "no obligations for this property are claimed in this revision (contracts not yet discharged); see DESIGN.md")}
      for p in ALL if p not in CLAIMED]

m = {
    "version": 1,
    "setup_cmd": "cd /verif/govc && GOFLAGS=-mod=mod GOPROXY=off GOSUMDB=off GOTOOLCHAIN=local go build -o /verif/bin/govc .",
    "hooks": {
        "guard": "verif",
        "enable": "go build tag `verif`: comment-only contract files contracts_verif.go next to the code they describe; govc loads /repo with -tags=verif and reads their //@ lines. Nothing executable is added.",
        "baseline_off_cmd": "cd /repo && go test -mod=mod -json -vet=off -count=1 -timeout 25m ./...",
        "source_commits": hooks,
        "add_only": True,
    },
    "engines": [{
        "name": "govc", "path": "/verif/govc", "serves_properties": sorted(CLAIMED),
        "kind_free_text": "contract-based deductive verifier for Go written for this task: go/ssa (naive form) symbolic executor over the real functions, contracts as //@ comments in build-tagged files, one SMT-LIB query per obligation and path, discharged by z3 4.8.12 / z3 5.1.0 / cvc5 1.0 raced",
    }],
    "checks": checks,
    "not_applicable": na,
    "notes": "All checks are contract-based deductive verification (see DESIGN.md). Exit 0 = no violation found: every obligation generated from the current tree was discharged (known findings listed in known_findings.json print KNOWN-FINDING lines); if the code of a function under contract has left the verifier's subset or its contract no longer matches the source, the check prints UNDECIDED lines and one NOT-PROVED line, runs the bounded fall-back drivers, downgrades the evidence level of that run to other, and still exits 0 (not proved is not a violation). Exit 1 + VIOLATION line = an obligation that is discharged on the unchanged tree failed, or a bounded driver found a concrete failing input. Exit 2 + BROKEN line = the machinery could not run (repository does not load, vacuity guard).",
}
json.dump(m, open("/verif/MANIFEST.json", "w"), indent=1)
print("claimed:", sorted(CLAIMED), "n/a:", [x["property_id"] for x in na])
