#!/usr/bin/env python3
"""Regenerates KNOWN_FINDINGS.txt (text mirror) from known_findings.json."""
import json
k = json.load(open('/verif/known_findings.json'))
with open('/verif/KNOWN_FINDINGS.txt', 'w') as f:
    for e in k:
        if e['status'] == 'finding':
            f.write(f"finding: property={e['property']} {e['obligation']} {e['witness']}\n")
        else:
            f.write(f"fixed: property={e['property']} {e['commit']} {e['obligation']} {e['witness']}\n")
